"""C16 -- canonical JSON conforms to RFC 8785.

Model: coq/Model/Jcs.v (hand-written, mirrors NumberToJson.py and the
sort_keys=True path of Canonicalize.py); specification coq/Spec/Rfc8785.v;
theorems coq/Props/C16.v.  Tie to the source: a correspondence run on every
check (model inside Coq vs canonicalize(v, utf8=False) on generated values).
Oracle: an independent RFC 8785 implementation written here (ES6 number text
from independently obtained shortest digits, UTF-16 unit sort, minimal
escapes), order independence, json.loads(text) == value, fixed point,
NaN/Infinity refused."""
import json
import math
import os
import re
import struct
import subprocess
from concurrent.futures import ThreadPoolExecutor
from fractions import Fraction

import common
from common import Broken, Violation
import tr_numtojson

MANIFEST = {
    "text": "Coq theorems about an executable model of NumberToJson.convert2Es6Format and the sort_keys encoder of "
            "Canonicalize.py: number text = ECMAScript Number::toString for every digit string of length 1..17 and "
            "every exponent in Z (from a restatement of float.__repr__); NaN/Infinity refused; escaping = RFC 8785 minimal "
            "escaping for every string; the byte order of the sort key is the UTF-16 code unit order; canon v = plain "
            "serialization (no whitespace, members in given order) of the value with every object's members ordered by "
            "UTF-16 units at every depth (canon_emit, canon_sorted); output invariant under member permutation at top "
            "level and at every depth (canon_perm, canon_perm_deep); no whitespace outside string literals; sort/canon "
            "fixed point; an independent JSON reader parses the canonical text back to the key-ordered value "
            "(canon_parse), hence the text determines the value (canon_injective); the ES6 text and the repr text of a "
            "double denote the same exact decimal 0.d1..dk*10^n under an independent number reader, so numbers parse back "
            "to the same value (es6_denotes, num_value_preserved, num_roundtrip); the fixed point canonicalize(json.loads(t)) = t "
            "as a theorem under named hypotheses on float parsing / shortest-digits repr (canon_reread_fixpoint; the "
            "hypotheses are premises of the statement, not axioms; nums_double has no JInt case, so this fixed point does not "
            "speak about values containing Python ints; a non-trivial instance of the premises is an Example); sort_deep only "
            "reorders members at every depth (sort_deep_jperm), so json_of v is v up to member order and number text; "
            "NaN/Infinity refused at any depth; strict "
            "order under distinct keys. Source text (Props/C16Src.v): the ast of convert2Es6Format, translated on every run "
            "into a small imperative language with an interpreter, is the pinned program, and that program computes the "
            "model function on every input, so num_es6 holds of the text itself; sort key, separators, ensure_ascii and "
            "the escape table of Canonicalize.py are read from the ast and checked against the model.",
    "design_ref": "DESIGN.md 6/C16, A.3, A.4",
    "note": "Model hand-written; tied to /repo by a correspondence run each check (doubles by bit pattern, boundary "
            "decimals, strings/keys with BMP/astral/control characters, nesting to depth 6, shuffled orders). "
            "Trusted: Coq kernel + vm_compute, the restatement of float.__repr__ (validated each run against the real "
            "repr from independently obtained shortest digits), that repr yields the shortest round-trip digits "
            "(CPython guarantee, sampled), Spec/Rfc8785.v written from memory of RFC 8785 / ECMA-262. DOMAIN DECISION on "
            "Python ints: the code sends every int through float() (convert2Es6Format), so an int is canonicalized as the "
            "nearest double. The model covers ints with |z| <= 2^53 (conversion exact, repr(float(z)) is the numeral of z); "
            "larger ints are OutOfModel on the Coq side and are not compared with the model. The property's domain is "
            "'every finite double', so the oracle judges an int only when int(float(z)) == z (exactly representable, any "
            "magnitude: 2^53+2, 10^22, 2^70 are checked against the reference) and does not alarm on ints that are not "
            "doubles (2^53+1, 10^400 -> OverflowError): for those RFC 8785 prescribes no output and the upstream design "
            "(float conversion) is taken as given. The reader of canon_parse returns "
            "number literals as text (float parsing is not modelled); the re-canonicalization fixed point through a real "
            "reader (json.loads) is checked by the oracle on every case, the model-level fixed point is canon_fixpoint. "
            "Thorough tier: the number part of the model extracted to OCaml (extract/c16) for ~750k doubles, cross-checked "
            "against the kernel route on a sample. No axioms.",
    "technique": "Coq proof over a hand-written executable model + correspondence run + independent RFC 8785 oracle",
}

HEADER = """From Coq Require Import String NArith ZArith List.
From V Require Import Base.UString Base.Json Model.JcsText Model.Jcs Spec.Rfc8785.
Import ListNotations. Open Scope N_scope. Open Scope string_scope.
Definition num3 (r : string) (neg : bool) (ds : string) (n : Z) : string :=
  show_jres (canon (JFloat (u r))) ++ "|" ++ show_ustr (py_repr neg (digit_vals (u ds)) n)
   ++ "|" ++ show_ustr (es6_tostring neg (digit_vals (u ds)) n).
Definition cj (v : jvalue) : string := show_jres (canon v).
"""

# --------------------------------------------------------------------------
# tagged transport of values (member order and float bits preserved)

def _has_sur(s):
    return any(0xD800 <= ord(c) < 0xE000 for c in s)


def enc_str(s):
    """strings with surrogate code points travel as code point lists (JSON text
    would merge an adjacent lone high and lone low surrogate into one character)"""
    return {"s": [ord(c) for c in s]} if _has_sur(s) else s


def dec_str(t):
    return t if isinstance(t, str) else "".join(map(chr, t["s"]))


def enc(v):
    if v is None or v is True or v is False:
        return v
    if isinstance(v, str):
        return enc_str(v)
    if isinstance(v, int):
        return {"i": str(v)}
    if isinstance(v, float):
        if v != v:
            return {"f": "nan"}
        if v in (math.inf, -math.inf):
            return {"f": "inf" if v > 0 else "-inf"}
        return {"f": v.hex()}
    if isinstance(v, (list, tuple)):
        return {"a": [enc(x) for x in v]}
    if isinstance(v, dict):
        return {"o": [[enc_str(k), enc(x)] for k, x in v.items()]}
    raise TypeError(type(v))


def dec(t):
    if t is None or t is True or t is False or isinstance(t, str):
        return t
    if "s" in t:
        return dec_str(t)
    if "i" in t:
        return int(t["i"])
    if "f" in t:
        return float.fromhex(t["f"]) if t["f"] not in ("nan", "inf", "-inf") else float(t["f"])
    if "a" in t:
        return [dec(x) for x in t["a"]]
    return {dec_str(k): dec(v) for k, v in t["o"]}


def dec_obs(o):
    """worker observation with texts decoded"""
    return {k: (dec_str(v) if k in ("ok", "re") else v) for k, v in o.items()}


# --------------------------------------------------------------------------
# independent RFC 8785 reference (the oracle)

def shortest_digits(x):
    """(neg, [d1..dk], n) with |x| = 0.d1..dk * 10^n, k minimal such that the
    decimal reads back as x and, among those, closest to x (ECMA-262 step 5 and
    its note).  Computed with exact rationals and float(<decimal text>), not
    from repr."""
    neg = math.copysign(1.0, x) < 0
    a = abs(x)
    fa = Fraction(a)
    e10 = int(("%.16e" % a).split("e")[1])
    while Fraction(10) ** e10 > fa:
        e10 -= 1
    while Fraction(10) ** (e10 + 1) <= fa:
        e10 += 1
    for k in range(1, 18):
        p = e10 - k + 1
        scale = Fraction(10) ** p
        lo = (fa / scale).__floor__()
        good = [s for s in (lo, lo + 1) if s > 0 and float("%de%d" % (s, p)) == a]
        if good:
            s = min(good, key=lambda c: (abs(c * scale - fa), c % 2))
            ds = [int(c) for c in str(s)]
            n = p + len(ds)
            while len(ds) > 1 and ds[-1] == 0:
                ds.pop()
            return neg, ds, n
    raise AssertionError("17 digits do not round-trip: %r" % x)


_DIGITS = {}       # float.hex() -> (neg, ds, n); filled in bulk by precompute_digits (thorough volumes)


def digits_of(x):
    k = x.hex()
    r = _DIGITS.get(k)
    if r is None:
        r = _DIGITS[k] = shortest_digits(x)
    return r


def _digits_chunk(hexes):
    return [shortest_digits(float.fromhex(h)) for h in hexes]


def precompute_digits(xs, workers):
    """shortest digits of many doubles, in worker processes (exact rational arithmetic is the cost)"""
    from concurrent.futures import ProcessPoolExecutor
    hexes = sorted({x.hex() for x in xs if x == x and x not in (math.inf, -math.inf) and x != 0} - set(_DIGITS))
    if len(hexes) < 20000:
        return
    size = max(2000, len(hexes) // (workers * 8))
    chunks = [hexes[i:i + size] for i in range(0, len(hexes), size)]
    with ProcessPoolExecutor(max_workers=workers) as ex:
        for ch, res in zip(chunks, ex.map(_digits_chunk, chunks)):
            for h, r in zip(ch, res):
                _DIGITS[h] = r


def es6_number(x):
    """ECMA-262 Number::toString for a finite double."""
    if x == 0:
        return "0"
    neg, ds, n = digits_of(x)
    k = len(ds)
    d = "".join(map(str, ds))
    if k <= n <= 21:
        body = d + "0" * (n - k)
    elif 0 < n <= 21:
        body = d[:n] + "." + d[n:]
    elif -6 < n <= 0:
        body = "0." + "0" * (-n) + d
    else:
        e = n - 1
        body = (d if k == 1 else d[0] + "." + d[1:]) + "e" + ("-" if e < 0 else "+") + str(abs(e))
    return ("-" if neg else "") + body


_SHORT = {8: "\\b", 9: "\\t", 10: "\\n", 12: "\\f", 13: "\\r", 0x22: '\\"', 0x5C: "\\\\"}


def ref_string(s):
    out = ['"']
    for ch in s:
        c = ord(ch)
        if c in _SHORT:
            out.append(_SHORT[c])
        elif c < 0x20:
            out.append("\\u%04x" % c)
        else:
            out.append(ch)
    out.append('"')
    return "".join(out)


def utf16_units(s):
    us = []
    for ch in s:
        c = ord(ch)
        if c >= 0x10000:
            c -= 0x10000
            us += [0xD800 + (c >> 10), 0xDC00 + (c & 0x3FF)]
        else:
            us.append(c)
    return us


class Refuse(Exception):
    pass


def jcs_ref(v):
    if v is None:
        return "null"
    if v is True:
        return "true"
    if v is False:
        return "false"
    if isinstance(v, int):
        return es6_number(float(v))
    if isinstance(v, float):
        if v != v or v in (math.inf, -math.inf):
            raise Refuse()
        return es6_number(v)
    if isinstance(v, str):
        return ref_string(v)
    if isinstance(v, list):
        return "[" + ",".join(jcs_ref(x) for x in v) + "]"
    items = sorted(v.items(), key=lambda kv: utf16_units(kv[0]))
    return "{" + ",".join(ref_string(k) + ":" + jcs_ref(x) for k, x in items) + "}"


def walk(v):
    yield v
    if isinstance(v, list):
        for x in v:
            yield from walk(x)
    elif isinstance(v, dict):
        for k, x in v.items():
            yield k
            yield from walk(x)


def has_lone_surrogate(s):
    return any(0xD800 <= ord(c) < 0xE000 for c in s)


def int_exact(i):
    try:
        return int(float(i)) == i
    except OverflowError:
        return False


def in_oracle_domain(v):
    """JSON values in the sense of the property: Unicode strings (no lone
    surrogates), numbers that are doubles (ints exactly representable)."""
    for x in walk(v):
        if isinstance(x, str) and has_lone_surrogate(x):
            return False
        if isinstance(x, int) and not isinstance(x, bool) and not int_exact(x):
            return False
    return True


def has_nonfinite(v):
    return any(isinstance(x, float) and (x != x or x in (math.inf, -math.inf)) for x in walk(v))


def in_model_domain(v):
    return all(not (isinstance(x, int) and not isinstance(x, bool) and abs(x) > 2 ** 53) for x in walk(v))


def has_overflowing_int(v):
    for x in walk(v):
        if isinstance(x, int) and not isinstance(x, bool):
            try:
                float(x)
            except OverflowError:
                return True
    return False


def oracle_one(v, obs):
    """Property clauses on one value; returns list of (kind, what)."""
    out = []
    if has_overflowing_int(v) and not any(isinstance(x, str) and has_lone_surrogate(x) for x in walk(v)):
        # an integer too large for any double has no RFC 8785 number text: it must be refused, like NaN / Infinity
        if "ok" in obs:
            out.append(("refuse", "an integer beyond the range of doubles was not refused: returned %r" % obs["ok"][:80]))
        return out
    if not in_oracle_domain(v):
        return out
    if has_nonfinite(v):
        if "ok" in obs:
            out.append(("refuse", "NaN/Infinity not refused: returned %r" % obs["ok"][:80]))
        return out
    if "exc" in obs:
        out.append(("ref", "a JSON value was refused with %s" % obs["exc"]))
        return out
    text = obs["ok"]
    ref = jcs_ref(v)
    if text != ref:
        out.append(("ref", "output %r differs from RFC 8785 text %r" % (clip(text, ref), clip(ref, text))))
    try:
        back = json.loads(text, parse_int=float)      # JSON numbers are doubles
        if back != v:
            out.append(("loads", "json.loads(output) differs from the value (output %r)" % text[:100]))
    except ValueError as e:
        out.append(("loads", "output is not JSON: %s" % e))
    if obs.get("u8") not in (True, None):
        out.append(("bytes", "canonicalize(v) (utf8=True, the default) is not the UTF-8 encoding of canonicalize(v, utf8=False): %r"
                    % (obs.get("u8"),)))
    if obs.get("re") != text:
        out.append(("fixpoint", "canonicalize(json.loads(output)) = %r, not the output" % (obs.get("re", obs.get("re_exc")),)))
    return out


def clip(a, b):
    """the neighbourhood of the first difference"""
    i = 0
    while i < min(len(a), len(b)) and a[i] == b[i]:
        i += 1
    return a[max(0, i - 20):i + 30]


# --------------------------------------------------------------------------
# generators

def bits_to_float(b):
    return struct.unpack(">d", struct.pack(">Q", b))[0]


def float_to_bits(x):
    return struct.unpack(">Q", struct.pack(">d", x))[0]


DIGIT_STRINGS = ["1", "2", "5", "9", "11", "12", "15", "19", "25", "99", "101", "123", "999", "1234", "12345",
                 "123456", "1234567", "12345678", "123456789", "1234567891", "12345678912", "123456789123",
                 "1234567891234", "12345678912345", "123456789123456", "1234567891234567", "12345678912345678",
                 "9999999999999999", "99999999999999999", "17976931348623157", "22250738585072014", "49", "4"]


def gen_numbers(rng, tier):
    big = tier == "thorough"
    xs = [0.0, -0.0, math.nan, math.inf, -math.inf, 5e-324, -5e-324, 1.7976931348623157e308, 2.2250738585072014e-308,
          2.225073858507201e-308, 1e21, 1e-6, 1e-7, 1e16, 1e-4, 1e-5, 1e15, 123456789012345680000.0, 0.000001234,
          333333333.33333329, 1e23, 9.999999999999999e22, 295147905179352830000.0]
    exps = list(range(-30, 31)) + [-323, -322, -310, -308, -307, -100, 100, 300, 307, 308, 309]
    for d in DIGIT_STRINGS:
        for n in exps:
            try:
                x = float("0.%se%d" % (d, n))
            except (ValueError, OverflowError):
                continue
            if x == 0 or x == math.inf:
                continue
            xs.append(x if rng.random() < 0.7 else -x)
    for k in range(-323, 309):
        x = float("1e%d" % k)
        near = big or -30 <= k <= 30 or k % 4 == 0
        xs += [x] + ([math.nextafter(x, math.inf), math.nextafter(x, 0.0)] if near else [])
    step = 1 if big else 6
    for k in range(-1074, 1024, step):
        x = math.ldexp(1.0, k)
        xs += [x, math.nextafter(x, math.inf)] + ([math.nextafter(x, 0.0)] if k > -1074 else [])
    # integers beyond 2^53 as floats
    for j in range(0, 40):
        xs.append(float(2 ** 53 + 2 * j))
    for k in range(53, 80):
        xs += [float(2 ** k), float(2 ** k + 2 ** (k - 52)), -float(3 * 2 ** (k - 1))]
    xs += [float(10 ** k) for k in range(0, 23)] + [float(10 ** k + 10 ** (k - 15)) for k in range(16, 23)]
    # integer-valued and short decimals
    for _ in range(450 if not big else 20000):
        xs.append(float(rng.randrange(-10 ** rng.randrange(1, 17), 10 ** rng.randrange(1, 17))))
        xs.append(rng.randrange(1, 10 ** rng.randrange(1, 8)) / 10 ** rng.randrange(0, 12))
    # random bit patterns, exponent field uniform
    n_rand = 2400 if not big else 600000
    for _ in range(n_rand):
        e = rng.randrange(0, 2047)
        m = rng.getrandbits(52)
        r = rng.random()
        if r < 0.1:
            m = 0
        elif r < 0.2:
            m = (1 << 52) - 1 - rng.randrange(4)
        elif r < 0.3:
            m = rng.randrange(4)
        elif r < 0.4:
            m &= ~((1 << rng.randrange(1, 52)) - 1)
        xs.append(bits_to_float((rng.getrandbits(1) << 63) | (e << 52) | m))
    # the ES6 switch regions 1e-7..1e-5 and 1e20..1e22, and repr's 1e-5..1e-3, 1e15..1e17
    for lo, hi in ((1e-8, 1e-5), (1e19, 1e23), (1e-6, 1e-2), (1e14, 1e18)):
        for _ in range(300 if not big else 20000):
            xs.append(math.exp(rng.uniform(math.log(lo), math.log(hi))) * rng.choice((1, -1)))
    return xs


def gen_ints(rng, tier):
    zs = [0, 1, -1, 7, 10, 100, -1000, 2 ** 53, -(2 ** 53), 2 ** 53 - 1, 2 ** 31, 2 ** 32, 65535, 10 ** 15, 10 ** 16 // 2,
          9007199254740990, 123456789012345, 1000000000000000, 999999999999999, 4503599627370496]
    zs += [10 ** k for k in range(0, 16)] + [-(10 ** k) for k in range(0, 16)]
    for _ in range(600 if tier != "thorough" else 5000):
        zs.append(rng.randrange(-(2 ** rng.randrange(1, 54)), 2 ** rng.randrange(1, 54)))
    return zs


OUT_OF_MODEL_INTS = [2 ** 53 + 1, 2 ** 53 + 2, -(2 ** 53) - 2, 10 ** 16, 10 ** 21, 10 ** 22, 2 ** 70, 2 ** 64 - 1, 10 ** 400]

KEY_POOL = ["", "a", "b", "aa", "ab", "a\u0000", "A", "B", "\u00e9", "\u20ac", "\ud7ff", "\ue000", "\uffff", "\U00010000",
            "\U0001F600", "\U0010FFFF", "\uff5e", "a\U00010000", "a\uffff", "a\ue000", "\uffffa", "\U00010000a", "1", "10", "2",
            "\"", "\\", "\n", "\x7f", "\x1f", " ", "key with space", "\u00fc", "\u05d0", "\ufb33", "\U0001D306", "\u0080",
            "hashes", "name", "value", "extensions", "MD5", "SHA-256", "\u00f6", "\r", "\t", "peach", "p\u00e9ch\u00e9", "sin", "1e5"]

CHAR_CLASSES = [
    lambda r: r.randrange(0x20, 0x7F),            # printable ASCII
    lambda r: r.randrange(0x20, 0x7F),
    lambda r: r.randrange(0x00, 0x20),            # controls
    lambda r: r.choice([0x22, 0x5C, 0x2F, 0x7F, 0x08, 0x09, 0x0A, 0x0C, 0x0D, 0x1F, 0x00, 0x20]),
    lambda r: r.randrange(0x80, 0x800),
    lambda r: r.randrange(0x800, 0xD800),
    lambda r: r.randrange(0xE000, 0x10000),
    lambda r: r.choice([0xD7FF, 0xE000, 0xFFFF, 0xFFFE, 0xFEFF, 0x2028, 0x2029, 0x85, 0xA0]),
    lambda r: r.randrange(0x10000, 0x110000),     # astral
    lambda r: r.choice([0x10000, 0x10FFFF, 0x1F600, 0x1D306, 0x103FF, 0x10400]),
]


def gen_string(rng, maxlen=8, surrogates=0.0):
    n = rng.choice([0, 1, 1, 2, 3, 5, maxlen])
    cs = []
    for _ in range(n):
        if surrogates and rng.random() < surrogates:
            cs.append(rng.randrange(0xD800, 0xE000))
        else:
            cs.append(rng.choice(CHAR_CLASSES)(rng))
    return "".join(map(chr, cs))


def gen_key(rng, surrogates=0.0):
    if rng.random() < 0.6:
        return rng.choice(KEY_POOL)
    if rng.random() < 0.3:
        # a pair of keys that order differently in UTF-16 and code point order share a prefix
        return rng.choice(["", "a", "\uffff"]) + rng.choice(["\ue000", "\uffff", "\U00010000", "\U0001F600", "\uff61"])
    return gen_string(rng, 5, surrogates)


def gen_leaf(rng, numbers, ints, surrogates):
    r = rng.random()
    if r < 0.08:
        return None
    if r < 0.16:
        return rng.random() < 0.5
    if r < 0.40:
        return rng.choice(ints)
    if r < 0.65:
        return rng.choice(numbers)
    return gen_string(rng, 10, surrogates)


def gen_doc(rng, depth, numbers, ints, surrogates=0.0):
    if depth <= 0 or rng.random() < 0.25:
        return gen_leaf(rng, numbers, ints, surrogates)
    widths = [0, 1, 2, 3, 4, 6] if depth <= 2 else [1, 1, 2, 2, 3]
    if rng.random() < 0.35:
        return [gen_doc(rng, depth - 1, numbers, ints, surrogates) for _ in range(rng.choice(widths))]
    d = {}
    for _ in range(rng.choice(widths)):
        d[gen_key(rng, surrogates)] = gen_doc(rng, depth - 1, numbers, ints, surrogates)
    return d


def shuffle_deep(rng, v):
    if isinstance(v, list):
        return [shuffle_deep(rng, x) for x in v]
    if isinstance(v, dict):
        items = [(k, shuffle_deep(rng, x)) for k, x in v.items()]
        rng.shuffle(items)
        return dict(items)
    return v


def n_multi_objects(v):
    return sum(1 for x in walk(v) if isinstance(x, dict) and len(x) >= 2)


def depth_of(v):
    if isinstance(v, list):
        return 1 + max([depth_of(x) for x in v] + [0])
    if isinstance(v, dict):
        return 1 + max([depth_of(x) for x in v.values()] + [0])
    return 0


FIXED_DOCS = [
    {"\uffff": 1, "\U00010000": 2, "\ue000": 3, "\U0001F600": 4, "a": 5, "": 6},
    {"a\uffff": 1, "a\U00010000": 2},
    {"numbers": [333333333.33333329, 1e30, 4.5, 2e-3, 1e-27], "string": "\u20ac$\u000f\nA'B\"\\\\\"/", "literals": [None, True, False]},
    {"peach": "This sorting order", "p\u00e9ch\u00e9": "is wrong according to French", "p\u00eache": "but canonicalization MUST",
     "sin": "ignore locale"},
    {"\u20ac": "Euro Sign", "\r": "Carriage Return", "\ufb33": "Hebrew Letter Dalet With Dagesh", "1": "One",
     "\U0001F600": "Emoji: Grinning Face", "\u0080": "Control", "\u00f6": "Latin Small Letter O With Diaeresis"},
    {"a": {"b": {"c": {"d": {"e": {"f": [1, 2.5, {"z": None, "y": []}]}}}}}},
    [], {}, [[]], [{}], {"": {}}, "", "\u0000", "\"\\/\b\f\n\r\t\x7f", 1e21, 1e-7, 1e-6, 1e20, 123456789012345680000.0,
]


BOUNDS = [0, 1, 2, 9, 10, 11, 63, 64, 65, 100, 101, 255, 256]


def gen_size_docs(rng):
    """sizes and depths on both sides of plausible bounds: nesting levels, element counts, member counts, string lengths"""
    out = []
    for d in BOUNDS:
        v = 1
        for _ in range(d):
            v = [v]
        out.append(v)
        w = "x"
        for i in range(d):
            w = {"k%d" % (i % 3): w}
        out.append(w)
    for n in BOUNDS:
        out.append([rng.choice([i, float(i) + 0.5, str(i), None, i % 2 == 0]) for i in range(n)])
        keys = ["m%03d" % i for i in range(n)]
        rng.shuffle(keys)
        out.append({k: i for i, k in enumerate(keys)})
    for n in (0, 1, 255, 256):
        out.append("".join(rng.choice(["a", "\u00e9", "\U0001F600", "\n", "\""]) for _ in range(n)))
        out.append({"".join(rng.choice("ab\u20ac") for _ in range(n)): n})
    return out


def gen_docs(rng, tier, numbers, ints):
    finite = [x for x in numbers if x == x and x not in (math.inf, -math.inf)]
    n = 800 if tier != "thorough" else 8000
    groups = []          # list of lists of values (first = base, rest = deep shuffles)
    for v in FIXED_DOCS + gen_size_docs(rng):
        groups.append([v])
    for i in range(n):
        r = rng.random()
        if r < 0.04:
            v = gen_doc(rng, rng.choice([2, 3, 4]), numbers, ints, surrogates=0.0)       # may contain NaN/inf
        elif r < 0.10:
            v = gen_doc(rng, rng.choice([2, 3]), finite, ints, surrogates=0.08)          # lone surrogates
        else:
            v = gen_doc(rng, rng.choice([1, 2, 3, 4, 5, 6]), finite, ints)
        groups.append([v])
    for g in groups:
        if n_multi_objects(g[0]):
            for _ in range(2 if rng.random() < 0.3 else 1):
                g.append(shuffle_deep(rng, g[0]))
    return groups


# --------------------------------------------------------------------------
# Coq terms

def num_term(x):
    r = repr(x)
    if x == 0 or x != x or x in (math.inf, -math.inf):
        return "cj (JFloat %s)" % common.coq_ustr(r)
    neg, ds, n = digits_of(x)
    return "num3 %s %s %s %s" % (common.coq_str(r), common.coq_bool(neg), common.coq_str("".join(map(str, ds))), common.coq_Z(n))


def model_line_of_obs(obs):
    if "ok" in obs:
        return "OK " + obs["ok"]
    return "EXC " + obs["exc"]


def parse_model_line(line):
    if line.startswith("OK "):
        return "OK " + common.ustr_unescape(line[3:])
    return line


# --------------------------------------------------------------------------
# model evaluation with shards bounded by text size (the VM's stack limits the
# length of one rendered result string; common.coq_eval_lines shards by count)

def eval_terms(tag, header, terms, max_chars=24000, max_terms=500, timeout=900):
    batches, cur, size = [], [], 0
    for t in terms:
        if cur and (size + len(t) > max_chars or len(cur) >= max_terms):
            batches.append(cur); cur, size = [], 0
        cur.append(t); size += len(t)
    if cur:
        batches.append(cur)
    cases_dir = os.path.join(common.COQ, "Cases")
    os.makedirs(cases_dir, exist_ok=True)

    def run(job):
        k, batch = job
        name = "%s_%d_%d" % (tag, os.getpid(), k)
        path = os.path.join(cases_dir, name + ".v")
        with open(path, "w", encoding="utf-8") as f:
            f.write(header + "\nEval vm_compute in (render_lines [\n%s\n]).\n" % ";\n".join(batch))
        p = subprocess.run(["bash", "-c", "ulimit -s unlimited 2>/dev/null || ulimit -s 1000000; exec timeout %d coqc -Q . V -w none %s"
                            % (timeout, os.path.join("Cases", name + ".v"))],
                           cwd=common.COQ, stdout=subprocess.PIPE, stderr=subprocess.PIPE, text=True)
        for ext in (".v", ".vo", ".vok", ".vos", ".glob"):
            try:
                os.remove(os.path.join(cases_dir, name + ext))
            except OSError:
                pass
        try:
            os.remove(os.path.join(cases_dir, "." + name + ".aux"))
        except OSError:
            pass
        if p.returncode != 0:
            raise RuntimeError("coqc failed on case file %s:\n%s" % (name, (p.stderr or p.stdout)[-3000:]))
        lines = common._parse_eval_output(p.stdout)
        if len(lines) != len(batch):
            raise RuntimeError("case file %s: expected %d result lines, got %d" % (name, len(batch), len(lines)))
        return lines

    out = []
    with ThreadPoolExecutor(max_workers=common.NCPU) as ex:
        for lines in ex.map(run, list(enumerate(batches))):
            out.extend(lines)
    return out


# --------------------------------------------------------------------------
# extraction route (thorough tier): the number part of the model compiled to OCaml

EXTRACT_DIR = os.path.join(common.VERIF, "extract", "c16")


def build_extracted():
    """coqc the extraction file against the built development, then ocamlopt; -> path of the executable"""
    for cmd in (["timeout", "600", "coqc", "-Q", common.COQ, "V", "Extract.v"],
                ["timeout", "600", "ocamlfind", "ocamlopt", "-w", "-a", "c16num.mli", "c16num.ml", "driver.ml", "-o", "c16num.exe"]):
        p = subprocess.run(cmd, cwd=EXTRACT_DIR, stdout=subprocess.PIPE, stderr=subprocess.STDOUT, text=True)
        if p.returncode != 0:
            raise RuntimeError("%s failed:\n%s" % (" ".join(cmd[2:4]), p.stdout[-1500:]))
    return os.path.join(EXTRACT_DIR, "c16num.exe")


def extracted_line(x):
    r = repr(x)
    if x == 0 or x != x or x in (math.inf, -math.inf):
        return "P %s" % r
    neg, ds, n = digits_of(x)
    return "N %s %d %s %d" % (r, 1 if neg else 0, "".join(map(str, ds)), n)


def eval_numbers_extracted(exe, xs):
    """-> result lines in the format of the kernel route (num3 / cj)"""
    lines = [extracted_line(x) for x in xs]
    n = max(1, common.NCPU)
    chunks = [lines[i::n] for i in range(n)]

    def run(chunk):
        if not chunk:
            return []
        p = subprocess.run([exe], input="\n".join(chunk) + "\n", stdout=subprocess.PIPE, stderr=subprocess.PIPE, text=True)
        out = p.stdout.split("\n")
        if out and out[-1] == "":
            out.pop()
        if p.returncode != 0 or len(out) != len(chunk):
            raise RuntimeError("extracted model failed: rc=%s, %d results for %d cases\n%s"
                               % (p.returncode, len(out), len(chunk), p.stderr[-800:]))
        return out

    with ThreadPoolExecutor(max_workers=n) as ex:
        parts = list(ex.map(run, chunks))
    res = [None] * len(lines)
    for i, part in enumerate(parts):
        for j, r in enumerate(part):
            res[i + j * n] = r
    return res


def run_single_process(lines, env_extra=None):
    """the given worker lines, in order, in ONE fresh interpreter"""
    script = os.path.join(common.VERIF, "harness", "impl", "c16_impl.py")
    env = common.impl_env()
    env.update(env_extra or {})
    p = subprocess.run([common.PY, script], input="\n".join(json.dumps(c) for c in lines) + "\n", stdout=subprocess.PIPE,
                       stderr=subprocess.PIPE, text=True, env=env, timeout=1800, cwd=common.scratch())
    if p.returncode != 0:
        raise RuntimeError("c16_impl failed in the history run:\n%s" % p.stderr[-1500:])
    return [json.loads(l) for l in p.stdout.split("\n") if l.strip()]


def history_lines(values, obs, kinds, rng, n_docs=120, n_nums=60):
    """one interpreter, one history: canonicalize() questions (documents with several members first: they show a lost
    sort; numbers; strings) asked, then other public calls of the package -- serialize() in both utf8 modes,
    canonicalize(utf8=True/False), JSONEncoder with other options, convert2Es6Format on odd arguments incl. ones that
    raise, canonicalize of values that raise -- then the same questions again.  -> (lines, index of each ask or None)"""
    docs = [i for i, (v, o, k) in enumerate(zip(values, obs, kinds)) if k == "doc" and "ok" in o and n_multi_objects(v)]
    nums = [i for i, (o, k) in enumerate(zip(obs, kinds)) if k in ("num", "int") and "ok" in o]
    ask = rng.sample(docs, min(n_docs, len(docs))) + rng.sample(nums, min(n_nums, len(nums)))
    if not ask:
        return [], []
    some = [values[i] for i in ask[:40]]
    ops = []
    for v in some[:12]:
        ops.append({"op": "serialize", "v": enc(v), "utf8": rng.random() < 0.5})
        ops.append({"op": "canonicalize_utf8", "v": enc(v)})
        ops.append({"op": "canonicalize_text", "v": enc(v)})
        ops.append({"op": "encoder", "v": enc(v), "sort_keys": rng.random() < 0.5, "ensure_ascii": rng.random() < 0.5})
    ops += [{"op": "canonicalize_raises", "what": w} for w in ("nan", "inf", "set", "key", "nonstr_key")]
    ops += [{"op": "convert", "what": w} for w in ("nan", "inf", "ninf", "big", "text", "numtext", "true", "none", "negzero", "tiny", "int")]
    rng.shuffle(ops)
    lines, asked = [], []
    third = max(1, len(ask) // 3)
    for i in ask[:third]:
        lines.append({"v": enc(values[i])}); asked.append(i)
    step = max(1, len(ops) // 4)
    rest = ask
    for k in range(0, len(ops), step):
        for op in ops[k:k + step]:
            lines.append({"hist": op}); asked.append(None)
        for i in rng.sample(rest, min(len(rest), max(10, len(rest) // 3))):
            lines.append({"v": enc(values[i])}); asked.append(i)
    for i in ask:
        lines.append({"v": enc(values[i])}); asked.append(i)
    return lines, asked


def history_violations(values, obs, kinds, rng):
    lines, asked = history_lines(values, obs, kinds, rng)
    if not lines:
        return [], 0, {}
    res = [dec_obs(o) if "hist" not in o else o for o in run_single_process(lines)]
    out, n, ops = [], 0, {}
    for k, (ln, i, r) in enumerate(zip(lines, asked, res)):
        if i is None:
            ops[r.get("hist", "?")] = ops.get(r.get("hist", "?"), 0) + 1
            continue
        n += 1
        if r.get("ok") != obs[i].get("ok") or r.get("exc") != obs[i].get("exc"):
            # shortest history: drop earlier asks, keep the operations
            hist = [x for x in lines[:k] if "hist" in x]
            out.append(Violation(
                "canonicalize() depends on what the process did before: %r in a fresh interpreter, %r after %d other public "
                "calls of the canonicalization package in the same interpreter"
                % (clip(obs[i].get("ok", obs[i].get("exc")), r.get("ok", r.get("exc", ""))),
                   clip(r.get("ok", r.get("exc", "")), obs[i].get("ok", obs[i].get("exc"))), len(hist)),
                {"kind": "history", "v": enc(values[i]), "hist": hist}))
            if len(out) >= 3:
                break
    return out, n, ops


def shrink_history(v, hist):
    """greedy: drop operations while the answer still differs from the fresh-interpreter answer"""
    fresh = run_cases([v])[0]

    def differs(h):
        r = dec_obs(run_single_process([{"hist": x["hist"]} for x in h] + [{"v": enc(v)}])[-1])
        return r.get("ok") != fresh.get("ok") or r.get("exc") != fresh.get("exc")

    if not differs(hist):
        return hist
    i = 0
    while i < len(hist) and len(hist) > 1:
        cand = hist[:i] + hist[i + 1:]
        if differs(cand):
            hist = cand
        else:
            i += 1
    return hist


def run_cases(values):
    return [dec_obs(o) for o in common.run_impl("c16_impl", [{"v": enc(v)} for v in values])]


def violations_for(values, obs, groups=None):
    out = []
    for v, o in zip(values, obs):
        try:
            res = oracle_one(v, o)
        except Exception as e:  # noqa: BLE001 -- the oracle must not stop the check: report the case, go on
            res = [("ref", "the reference computation failed on this value (%s: %s)" % (type(e).__name__, str(e)[:120]))]
        for kind, what in res:
            out.append(Violation(what, {"kind": kind, "v": enc(v)}))
    return out


# the same scalar must be written the same way wherever it stands
POSITIONS = [
    ("top", lambda s: s, lambda t: t),
    ("array", lambda s: [s], lambda t: "[" + t + "]"),
    ("member", lambda s: {"k": s}, lambda t: '{"k":' + t + "}"),
    ("nested member", lambda s: {"a": {"b": s}}, lambda t: '{"a":{"b":' + t + "}}"),
    ("nested array", lambda s: [[s]], lambda t: "[[" + t + "]]"),
    ("array in member", lambda s: {"k": [None, s]}, lambda t: '{"k":[null,' + t + "]}"),
    ("member in array", lambda s: [{"k": s, "j": 1}], lambda t: '[{"j":1,"k":' + t + "}]"),
]


def gen_position_scalars(rng, tier):
    """scalars of every kind, integers first: beyond 2^53, at and beyond 1e21, negative, exactly representable or not"""
    zs = [2 ** 53, 2 ** 53 + 2, 2 ** 63, 2 ** 64, 2 ** 64 - 1, 2 ** 70, 10 ** 16, 10 ** 20, 10 ** 21, 10 ** 22, 10 ** 21 + 2 ** 20,
          123456789012345680000, 9007199254740993, 3 * 2 ** 60, 0, 1, -1, 7, 10 ** 15, 2 ** 31]
    zs += [2 ** 1024, 2 ** 1024 - 2 ** 970, 2 ** 1024 - 2 ** 970 - 1, 2 ** 1023, 10 ** 308, 10 ** 309, 10 ** 400, 2 ** 2000]
    zs += [-z for z in zs if z]
    for _ in range(20 if tier != "thorough" else 400):
        zs.append(rng.randrange(2 ** 53, 2 ** 90) * rng.choice((1, -1)))
        zs.append(2 ** rng.randrange(53, 100) * rng.choice((1, -1)))
    fs = [1e21, 1e-7, 1.5e-6, 1e20, 0.0, -0.0, 5e-324, 123.456, 1.7976931348623157e308, -2.5e-300, 7.0, 1e16]
    others = [None, True, False, "", "a\"b\n", "\U0001F600", "\u20ac"]
    return zs + fs + others


def position_violations(pos_groups, obs):
    out = []
    for scalar, idxs in pos_groups:
        top = obs[idxs[0]]
        for (name, _, wrap), i in zip(POSITIONS[1:], idxs[1:]):
            o = obs[i]
            if "ok" in top:
                want = wrap(top["ok"])
                if o.get("ok") != want:
                    out.append(Violation(
                        "the scalar %r is written %r at top level but as %s it gives %r (expected %r)"
                        % (scalar, top["ok"][:60], name, (o.get("ok") or o.get("exc"))[:80], want[:80]),
                        {"kind": "position", "v": enc(scalar), "position": name}))
            elif o.get("exc") != top.get("exc"):
                out.append(Violation("the scalar %r is refused with %s at top level but as %s: %r"
                                     % (scalar, top.get("exc"), name, o.get("ok") or o.get("exc")),
                                     {"kind": "position", "v": enc(scalar), "position": name}))
    return out


def order_violations(groups, obs_by_index):
    out = []
    for idxs, vals in groups:
        if len(idxs) < 2 or not in_oracle_domain(vals[0]):
            continue
        base = obs_by_index[idxs[0]]
        for j, i in enumerate(idxs[1:], 1):
            o = obs_by_index[i]
            if o.get("ok") != base.get("ok") or o.get("exc") != base.get("exc"):
                out.append(Violation("output depends on member insertion order: %r vs %r" % (
                    clip(base.get("ok", base.get("exc")), o.get("ok", o.get("exc"))),
                    clip(o.get("ok", o.get("exc")), base.get("ok", base.get("exc")))),
                    {"kind": "order", "v": enc(vals[0]), "w": enc(vals[j])}))
    return out


def shrink(v, kind):
    """Greedy structural shrinking of a failing document for the single-value clauses."""
    def fails(cands):
        obs = run_cases(cands)
        return [any(k == kind for k, _ in oracle_one(c, o)) for c, o in zip(cands, obs)]

    for _ in range(12):
        cands = []
        if isinstance(v, list):
            cands += list(v) + [v[:i] + v[i + 1:] for i in range(len(v))]
        elif isinstance(v, dict):
            cands += list(v.values()) + [{k: x for k, x in v.items() if k != kk} for kk in v]
        else:
            break
        cands = cands[:60]
        if not cands:
            break
        res = fails(cands)
        nxt = [c for c, f in zip(cands, res) if f]
        if not nxt:
            break
        v = nxt[0]
    return v


PINNED_INTS = [-7, -1, 0, 1, 2, 3, 21]      # integer literals of the pinned convert2Es6Format


def boundary_numbers(ints):
    """doubles whose decimal exponent sits at / next to the given thresholds (and their negatives): where a changed
    comparison constant of convert2Es6Format first shows"""
    xs = []
    exps = set()
    for t in ints:
        for d in (-2, -1, 0, 1, 2):
            exps.update({t + d, -t + d})
    for e in sorted(exps):
        for m in ("1", "1.5", "9.999999999999999", "1.2345678901234567", "2.5"):
            for sign in ("", "-"):
                try:
                    x = float("%s%se%d" % (sign, m, e))
                except (ValueError, OverflowError):
                    continue
                if x not in (0.0, math.inf, -math.inf):
                    xs.append(x)
    return xs


def source_step(run):
    """(inside common.Lock) the source text: NumberToJson.py as a program of Model/PyMini.v, Canonicalize.py as
    facts, regenerated; then the obligations of Props/C16Src.v.  Used by C16 and by C06 (whose ids are specified
    through the RFC 8785 text).  -> the integer literals of the regenerated convert2Es6Format (or None)"""
    src_ints = None
    for name, fn, out in (("tr_numtojson", tr_numtojson.translate, "NumToJson.v"),
                          ("tr_numtojson.translate_canon", tr_numtojson.translate_canon, "CanonFacts.v")):
        try:
            text, meta = fn(common.REPO, common.PY)
            common.write_if_changed(os.path.join(common.COQ, "Gen", out), text)
            if out == "NumToJson.v":
                src_ints = sorted({int(m) for m in re.findall(r"\(IL \(?(-?\d+)\)?\)", text)})
        except Exception as e:  # noqa: BLE001 -- fail closed
            run.broken.append(Broken("translator", name, {"error": "%s: %s" % (type(e).__name__, str(e)[-800:])}))
    res2 = common.build_props("Props/C16Src.v")
    run.add_build(res2, "make -C coq Props/C16Src.vo (coqc 8.16.1, full .vo) + Print Assumptions per theorem")
    return src_ints


def check(run):
    run.coverage["rule"] = (
        "numbers: doubles by bit pattern with the exponent field uniform over 0..2046 (subnormals, mantissa edge patterns), "
        "a grid of 33 digit strings x 72 decimal exponents, every power of ten and (sampled) power of two with its two "
        "neighbours, integer-valued doubles beyond 2^53, log-uniform samples around the ES6 and repr notation switches, "
        "Python ints up to 2^53; documents: nesting to depth 6 with keys from a pool that orders differently in UTF-16 and "
        "code point order, strings over control/ASCII/BMP/astral classes, deep shuffles of member order, small streams with "
        "NaN/Infinity and lone surrogates. Each value goes through canonicalize(v, utf8=False) and the Coq model; numbers "
        "also through py_repr/es6_tostring from independently obtained shortest digits. Non-trivial = the result is a text "
        "(not an exception) and the value is not a bare null/true/false. Sizes/depths 0,1,2,9,10,11,63,64,65,100,101,255,256 for nesting, "
        "element and member counts, strings of length 0,1,255,256; canonicalize(v) with the default utf8=True must be the UTF-8 "
        "bytes of the text form. Position stream: about 100 scalars (ints beyond 2^53 and >= 1e21, floats, "
        "strings, booleans, null) in seven positions each; the top-level text must reappear verbatim in every position. "
        "History stream: a sample of the questions is asked "
        "again in one interpreter around other public calls of the package (serialize, canonicalize utf8=True, JSONEncoder "
        "with other options, convert2Es6Format and canonicalize on arguments that raise); answers must equal the fresh-interpreter ones.")
    with common.Lock():
        src_ints = source_step(run)
        res = common.build_props("Props/C16.v")
        run.add_build(res, "make -C coq Props/C16.vo Props/C16Src.vo (coqc 8.16.1, full .vo) + Print Assumptions per theorem")
    run.coverage["source_text"] = {"numtojson_int_literals": src_ints, "pinned_int_literals": PINNED_INTS}

    rng = run.rng
    numbers = gen_numbers(rng, run.tier)
    ints = gen_ints(rng, run.tier)
    groups_vals = gen_docs(rng, run.tier, numbers, ints)

    # thorough tier: numbers go through the extracted OCaml model (a sample also through the kernel route)
    exe = None
    if run.tier == "thorough":
        try:
            with common.Lock():
                exe = build_extracted()
        except (RuntimeError, OSError) as e:
            run.broken.append(Broken("obligation", "extraction of the number model (extract/c16)", {"error": str(e)[-1200:]}))
        precompute_digits(numbers, common.NCPU)
    kernel_numbers = set(range(len(numbers))) if exe is None else set(rng.sample(range(len(numbers)), min(3000, len(numbers))))
    run.coverage["routes"] = {"extracted_numbers": 0 if exe is None else len(numbers), "kernel_numbers": len(kernel_numbers)}

    values, terms, kinds = [], [], []
    for i, x in enumerate(numbers):
        values.append(x); terms.append(num_term(x) if i in kernel_numbers else None); kinds.append("num")
    for z in ints:
        values.append(z); terms.append("cj (JInt %s)" % common.coq_Z(z)); kinds.append("int")
    groups = []
    for g in groups_vals:
        idxs = []
        for v in g:
            idxs.append(len(values))
            values.append(v); terms.append("cj %s" % common.coq_jvalue(v)); kinds.append("doc")
        groups.append((idxs, g))
    # every kind of scalar in every position (top level, array element, object member value, nested)
    pos_groups = []
    for sc in gen_position_scalars(rng, run.tier):
        idxs = []
        for name, build, _ in POSITIONS:
            v = build(sc)
            idxs.append(len(values))
            values.append(v); terms.append("cj %s" % common.coq_jvalue(v)); kinds.append("pos")
        pos_groups.append((sc, idxs))
    n_model = len(values)
    # out-of-model ints: oracle only
    for z in OUT_OF_MODEL_INTS:
        values.append(z); kinds.append("bigint")
        values.append({"n": [z, -z]}); kinds.append("bigint")

    obs = run_cases(values)
    # which variant of the float() guard does the code match (witness: an int no double can hold)?
    w = run_cases([10 ** 400])[0]
    overflow_mode = {"ValueError": "refused-ValueError", "OverflowError": "propagates"}.get(w.get("exc"), "other")
    run.coverage["int_overflow_variant"] = overflow_mode
    if overflow_mode == "other":
        run.broken.append(Broken("correspondence", "canonicalize(10**400) neither ValueError nor OverflowError", {"observed": w}))

    hist = {}
    for v, o, kd in zip(values, obs, kinds):
        nontrivial = "ok" in o and not (v is None or v is True or v is False)
        run.count(enc(v), nontrivial=nontrivial)
        key = kd + (":exc:" + o["exc"] if "exc" in o else ":ok")
        hist[key] = hist.get(key, 0) + 1
    run.coverage["distribution"] = hist
    run.coverage["max_depth"] = max(depth_of(v) for v in values)
    run.coverage["order_groups"] = sum(1 for i, g in groups if len(i) > 1)
    for i in (30, len(numbers) + 5, n_model - 40):
        run.sample({"value": enc(values[i]), "impl": obs[i]})

    # ---- correspondence: model (and py_repr / es6_tostring) inside Coq
    try:
        n_num = len(numbers)
        todo = [i for i in range(n_model) if terms[i] is not None]
        klines = eval_terms("c16", HEADER, [terms[i] for i in todo])
        lines = [None] * n_model
        for i, l in zip(todo, klines):
            lines[i] = l
        if exe is not None:
            xlines = eval_numbers_extracted(exe, numbers)
            route_dis = []
            for i in range(n_num):
                if lines[i] is None:
                    lines[i] = xlines[i]
                elif lines[i] != xlines[i]:
                    route_dis.append({"float": numbers[i].hex(), "kernel": lines[i][:200], "extracted": xlines[i][:200]})
            run.coverage["route_cross_check"] = {"compared": len(kernel_numbers), "disagreements": len(route_dis)}
            if route_dis:
                run.broken.append(Broken("correspondence", "kernel route vs extracted route", {"first": route_dis[:5]}))
        dis, repr_dis, spec_dis, out_of_model = [], [], [], 0
        for i in range(n_model):
            v, o, line = values[i], obs[i], lines[i]
            impl_line = model_line_of_obs(o)
            if kinds[i] == "num" and "|" in line and not line.startswith("EXC"):
                m, pr, es = line.split("|")
                if common.ustr_unescape(pr) != repr(v):
                    repr_dis.append({"float": v.hex(), "repr": repr(v), "py_repr_model": common.ustr_unescape(pr)})
                if "ok" in o and common.ustr_unescape(es) != o["ok"]:
                    spec_dis.append({"float": v.hex(), "impl": o["ok"], "es6_tostring": common.ustr_unescape(es)})
                line = m
            ml = parse_model_line(line)
            if ml == "EXC OutOfModel":
                out_of_model += 1
                continue
            if ml != impl_line:
                if overflow_mode == "propagates" and impl_line == "EXC OverflowError" and ml == "EXC ValueError":
                    continue            # a tree without the float() guard: the OverflowError of float(z) propagates
                dis.append({"value": enc(v), "impl": impl_line[:300], "model": ml[:300]})
        run.coverage["correspondence_cases"] = n_model
        run.coverage["correspondence_disagreements"] = len(dis)
        run.coverage["out_of_model"] = out_of_model
        if dis:
            run.broken.append(Broken("correspondence", "Model/Jcs.v canon vs canonicalize(v, utf8=False)", {"first": dis[:5]}))
        if repr_dis:
            run.broken.append(Broken("correspondence", "py_repr restatement vs float.__repr__", {"first": repr_dis[:5]}))
        if spec_dis:
            run.broken.append(Broken("correspondence", "Spec es6_tostring (from independent digits) vs canonicalize", {"first": spec_dis[:5]}))
    except RuntimeError as e:
        run.broken.append(Broken("correspondence", "model evaluation failed", {"error": str(e)[-1500:]}))

    # ---- oracle on every case
    vio = violations_for(values, obs)
    vio += order_violations(groups, obs)
    vio += position_violations(pos_groups, obs)
    run.coverage["position_groups"] = len(pos_groups)

    # ---- process environment: a sample without the C accelerator of json (pure-Python string encoder), another hash seed
    try:
        pick = [i for i, k in enumerate(kinds) if k in ("doc", "pos") and "ok" in obs[i]]
        pick = rng.sample(pick, min(1500, len(pick))) + [i for i, k in enumerate(kinds) if k == "num"][:300]
        eobs = [dec_obs(o) for o in run_single_process([{"v": enc(values[i])} for i in pick],
                                                       {"VERIF_NO_JSON_ACCEL": "1", "PYTHONHASHSEED": "4242", "TZ": "JST-9"})]
        for i, o in zip(pick, eobs):
            if o.get("ok") != obs[i].get("ok") or o.get("exc") != obs[i].get("exc"):
                vio.append(Violation(
                    "the output depends on the process environment (no _json accelerator, another hash seed): %r by default, %r there"
                    % (clip(obs[i].get("ok", obs[i].get("exc")), o.get("ok", o.get("exc", ""))),
                       clip(o.get("ok", o.get("exc", "")), obs[i].get("ok", obs[i].get("exc")))),
                    {"kind": "environment", "v": enc(values[i])}))
        run.coverage["environment_cases"] = len(pick)
    except RuntimeError as e:
        run.broken.append(Broken("correspondence", "environment run failed", {"error": str(e)[-800:]}))

    # ---- history independence: the same questions after other public calls in one interpreter
    try:
        hv, n_hist, hist_ops = history_violations(values, obs, kinds, rng)
        for v in hv[:1]:
            v.replay["hist"] = shrink_history(dec(v.replay["v"]), v.replay["hist"][:200])
        vio += hv
        run.coverage["history_asks"] = n_hist
        run.coverage["history_ops"] = hist_ops
    except RuntimeError as e:
        run.broken.append(Broken("correspondence", "history run failed", {"error": str(e)[-800:]}))

    # ---- search harder when something no longer checks and the ordinary stream found nothing
    if run.broken and not vio:
        import random
        srng = random.Random(run.seed + 1)
        # first where the source text differs from the pinned one: the comparison constants that changed
        changed = sorted(set(src_ints or []) ^ set(PINNED_INTS)) or PINNED_INTS
        more = boundary_numbers(changed + PINNED_INTS) + gen_numbers(srng, "thorough")[:250000]
        mobs = run_cases(more)
        vio += violations_for(more, mobs)
        if not vio:
            gv = gen_docs(srng, "thorough", numbers, ints)[:20000]
            flat, gidx = [], []
            for g in gv:
                idxs = []
                for v in g:
                    idxs.append(len(flat)); flat.append(v)
                gidx.append((idxs, g))
            fobs = run_cases(flat)
            vio += violations_for(flat, fobs) + order_violations(gidx, fobs)
        run.coverage["search_cases"] = len(more)

    # shrink document violations (single-value clauses), keep at most a few per kind
    seen_kind = {}
    for v in vio:
        k = v.replay["kind"]
        seen_kind[k] = seen_kind.get(k, 0) + 1
        if seen_kind[k] > 3:
            continue
        if k not in ("order", "history", "position", "environment"):
            val = dec(v.replay["v"])
            if isinstance(val, (list, dict)):
                small = shrink(val, k)
                if small is not val:
                    o = run_cases([small])[0]
                    w = [what for kk, what in oracle_one(small, o) if kk == k]
                    if w:
                        v = Violation(w[0], {"kind": k, "v": enc(small)})
        run.violations.append(v)

    run.coverage["trusted_base"] += [
        "coq/Model/Jcs.v py_repr: restatement of CPython float.__repr__ layout (validated on every number case against the real repr, digits obtained from '%.{k}e' formatting)",
        "float.__repr__ yields the shortest round-trip digits (CPython guarantee; the harness's independent digits agree on every case)",
        "coq/Spec/Rfc8785.v: RFC 8785 / ECMA-262 Number::toString clauses written from memory (audited)",
        "harness/props/c16.py jcs_ref: independent RFC 8785 implementation used as the oracle",
    ]
    run.assumptions += [
        "values are JSON values: None/bool/int/float/str/list/dict with str keys; tuples, non-str keys, other objects and circular structures are outside the property",
        "Python ints with |z| > 2^53 are outside the model (the code converts every int through float()); ints not exactly representable as doubles are outside the property",
        "strings with lone surrogates are not Unicode strings: compared with the model, not judged by the oracle",
    ]


def replay(payload):
    r = payload["replay"]
    kind = r["kind"]
    v = dec(r["v"])
    if kind == "history":
        fresh = run_cases([v])[0]
        after = dec_obs(run_single_process([{"hist": x["hist"]} for x in r["hist"]] + [{"v": enc(v)}])[-1])
        print("replay history: fresh interpreter        -> %r" % (fresh.get("ok", fresh.get("exc")),))
        print("                after %3d public calls   -> %r" % (len(r["hist"]), after.get("ok", after.get("exc"))))
        for h in r["hist"][:5]:
            print("                  call: %s" % json.dumps(h["hist"])[:160])
        if fresh.get("ok") != after.get("ok") or fresh.get("exc") != after.get("exc"):
            print("VIOLATION property=C16 replay=(given)")
            return 1
        print("no violation on this input")
        return 0
    if kind == "environment":
        a = run_cases([v])[0]
        b = dec_obs(run_single_process([{"v": enc(v)}], {"VERIF_NO_JSON_ACCEL": "1", "PYTHONHASHSEED": "4242", "TZ": "JST-9"})[0])
        print("replay environment: default            -> %r" % (a.get("ok", a.get("exc")),))
        print("                    no _json, seed 4242 -> %r" % (b.get("ok", b.get("exc")),))
        ref_fail = [w for _, w in oracle_one(v, b)]
        for w in ref_fail:
            print("  " + w)
        if a.get("ok") != b.get("ok") or a.get("exc") != b.get("exc") or ref_fail:
            print("VIOLATION property=C16 replay=(given)")
            return 1
        print("no violation on this input")
        return 0
    if kind == "position":
        pos = [p for p in POSITIONS if p[0] == r["position"]][0]
        a, b = run_cases([v, pos[1](v)])
        print("replay position: %r at top level -> %r" % (v, a.get("ok", a.get("exc"))))
        print("                 as %s -> %r" % (pos[0], b.get("ok", b.get("exc"))))
        if ("ok" in a and b.get("ok") != pos[2](a["ok"])) or ("exc" in a and a.get("exc") != b.get("exc")):
            print("VIOLATION property=C16 replay=(given)")
            return 1
        print("no violation on this input")
        return 0
    if kind == "order":
        w = dec(r["w"])
        a, b = run_cases([v, w])
        print("replay order: first  -> %r" % (a.get("ok", a.get("exc")),))
        print("              second -> %r" % (b.get("ok", b.get("exc")),))
        if a.get("ok") != b.get("ok") or a.get("exc") != b.get("exc"):
            print("VIOLATION property=C16 replay=(given)")
            return 1
        print("no violation on this input")
        return 0
    o = run_cases([v])[0]
    print("replay: canonicalize(%r, utf8=False) -> %r" % (v, o))
    try:
        print("        RFC 8785 reference      -> %r" % jcs_ref(v))
    except Refuse:
        print("        RFC 8785 reference      -> refuse (NaN/Infinity)")
    fails = [what for k, what in oracle_one(v, o)]
    if fails:
        for w in fails:
            print("  " + w)
        print("VIOLATION property=C16 replay=(given)")
        return 1
    print("no violation on this input")
    return 0

"""C15 -- timestamps are written in canonical form, truncated, order-preserving.

Model: coq/Model/Calendar.v + coq/Model/Timestamp.v (hand-written, mirrors
stix2/utils.py format_datetime / parse_into_datetime / STIXdatetime and the
strptime call); theorems in coq/Props/C15.v; correspondence of the model with
format_datetime, parse_into_datetime, TimestampProperty.clean + encoder and
timestamp properties of real objects; oracle = the property text evaluated on
the implementation's output with an independent integer-arithmetic reader.
"""
import datetime as dt
import os
import re
import subprocess
from concurrent.futures import ThreadPoolExecutor
from fractions import Fraction

import common
from common import Broken, Violation

MANIFEST = {
    "text": "23 theorems (Props/C15.v) over all instants of years 1..9999 (Z microseconds), the three precisions and two "
            "constraints, about a hand-written Gallina model of format_datetime/parse_into_datetime/strptime: canonical shape "
            "with 4-digit year (full for the zero-padding variant, refuted with year 999 for the unpadded strftime variant), the "
            "text read by an independent strict reader denotes exactly floor(t) to the precision unit (never rounds), digit-count "
            "rules, injectivity, the library's own reader reads the text back as floor(t), write-read-write fixed point, "
            "monotonicity of the denoted instants, datetime/date/string inputs are written as the text of their UTC instant "
            "(whole-second offsets; both naive-datetime variants), a value cleaned at one precision and written at another is "
            "still a floor of its instant (write_as_aware, write_as_denotes, reparse_string), the civil-calendar round trip for "
            "every day number in Z, and agreement of the day number with an independent closed form (Fliegel-Van Flandern Julian "
            "Day Number) on every date of years 1..9999 (calendar_is_gregorian; the strict reader of the spec shares the calendar "
            "with the model, so this and the anchor Examples are what ties it to the real Gregorian calendar). floor_is_truncation "
            "and floor_monotone are spec-side facts about floor_to; the model-level order statement is fmt_order. "
            "5 source-text obligations (Props/C15Src.v): the precision branches of format_datetime and the truncation branches of "
            "parse_into_datetime, translated from the ast on every run into programs of a small interpreted language "
            "(Model/PyTs.v), are the programs the model mirrors and compute frac_digits / stored_trunc for every input.",
    "design_ref": "DESIGN.md 6/C15; design_notes/C15-C05.md",
    "note": "Trusted: Coq kernel + vm_compute; translators/tr_timestamp_src.py (fail-closed ast translator); the hand model is tied "
            "to /repo by a correspondence run on every check (boundary-biased datetimes, dates, fixed and zoneinfo (variable, DST, "
            "fold) UTC offsets, timestamp strings incl. lenient spellings and near-misses, STIXdatetime values re-used across "
            "precisions incl. values taken from a donor object, which must be written unchanged afterwards, values "
            "copied/deep-copied/pickled between cleaning and writing; ~3 k questions asked again in one interpreter forward and "
            "reversed; ~3 k of the cases again in workers whose "
            "process time zone is TZ=JST-9 / EST5EDT, which must give identical answers); quick: ~15 k cases through vm_compute; "
            "thorough: ~1 M cases through the model extracted to OCaml (extract/c15) with a 20 k sample also through vm_compute. "
            "CPython datetime/zoneinfo/strptime/strftime are modelled or used as given, not verified: zone conversion itself is "
            "outside the model (it starts from local fields + the true offset computed by the harness). Oracle-only: nothing; "
            "every oracle check has a theorem counterpart. Theorems assume UTC offsets that are whole seconds (write_aware; "
            "subsecond_offset_excluded shows the hypothesis is needed for code that truncates before converting); offsets with a "
            "sub-second part are generated and judged by the oracle against the input instant: since fix 64386a7 such a value is "
            "moved to UTC first, which the harness models by handing the model the UTC fields (variant probed at run time; code "
            "that truncates first is reported as C15-subsecond-utcoffset-truncated-before-utc-conversion, recorded fixed); "
            "rejected strings (7+ fraction digits) are outside 'accepted strings'. No axioms.",
    "technique": "Coq proof over a hand-written executable model + source-text translation of the digit logic + per-run correspondence with the implementation",
}

PC = [("any", "exact"), ("any", "min"), ("second", "exact"), ("second", "min"), ("millisecond", "exact"), ("millisecond", "min")]
COQ_P = {"any": "PAny", "second": "PSecond", "millisecond": "PMilli"}
COQ_C = {"exact": "CExact", "min": "CMin"}
ROUTES = {   # route -> the precision the specification gives that property
    "v20.Identity.created": ("millisecond", "exact"),
    "v21.Identity.created": ("millisecond", "min"),
    "v21.Campaign.first_seen": ("any", "exact"),
    "v20.Indicator.valid_from": ("any", "exact"),
    "v21.WindowsPEBinaryExt.time_date_stamp": ("second", "exact"),
}
YEARS = [1, 999, 1000, 1970, 9999]
YEARS2 = [2, 9, 10, 99, 100, 998, 1001, 1582, 1600, 1900, 1969, 2000, 2016, 2024, 2038, 2100, 2400, 9998]
MICROS = [0, 1, 999, 1000, 1001, 123000, 120000, 100000, 999999]
MICROS2 = [10, 100, 1500, 10000, 99999, 100001, 500000, 999000, 999499, 999500, 999900, 123456, 120001, 900000]
UNIT = {("second", "exact"): 1000000, ("millisecond", "exact"): 1000}
FINDING_YEAR = "C15-year-below-1000-not-zero-padded"
FINDING_FOLD = "C15-stixdatetime-drops-fold"
FINDING_SUBSEC = "C15-subsecond-utcoffset-truncated-before-utc-conversion"
FINDING_COPY = "C15-stixdatetime-copy-pickle-lose-precision"

HEADER = """From Coq Require Import ZArith List String.
From V Require Import Model.Timestamp.
Import ListNotations. Open Scope Z_scope.
"""


# --------------------------------------------------------------------------
# generator

def days_in_month(y, m):
    if m == 2:
        return 29 if (y % 4 == 0 and (y % 100 != 0 or y % 400 == 0)) else 28
    return 30 if m in (4, 6, 9, 11) else 31


def gen_fields(rng):
    r = rng.random()
    y = rng.choice(YEARS) if r < 0.35 else rng.choice(YEARS2) if r < 0.55 else rng.randint(1, 9999)
    r = rng.random()
    if r < 0.15:
        m, d = 1, 1
    elif r < 0.3:
        m, d = 12, 31
    elif r < 0.45:
        m = 2
        d = days_in_month(y, 2) if rng.random() < 0.7 else 28
    elif r < 0.5:
        m, d = 3, 1
    else:
        m = rng.randint(1, 12)
        d = rng.choice([1, days_in_month(y, m), rng.randint(1, days_in_month(y, m))])
    r = rng.random()
    if r < 0.2:
        hh, mm, ss = 0, 0, 0
    elif r < 0.4:
        hh, mm, ss = 23, 59, 59
    else:
        hh, mm, ss = rng.randint(0, 23), rng.randint(0, 59), rng.randint(0, 59)
    r = rng.random()
    us = rng.choice(MICROS) if r < 0.5 else rng.choice(MICROS2) if r < 0.65 else rng.randint(0, 999999)
    return [y, m, d, hh, mm, ss, us]


def gen_offset(rng, subsecond=False):
    """(offset in microseconds or None, tz kind)"""
    if subsecond:
        return rng.choice([1, -1, 999, 500000, -500000, 1500, 999999, 3600000000 + 500, -250000]), "std"
    r = rng.random()
    if r < 0.25:
        return None, "std"
    if r < 0.4:
        return 0, rng.choice(["pytz", "utc", "std"])
    if r < 0.7:
        return rng.randint(-14, 14) * 3600000000, rng.choice(["pytz", "std"])
    if r < 0.85:
        return rng.choice([19800, 20700, -34200, 45900, -12600, 50400, -50400, 86340, -86340]) * 1000000, rng.choice(["pytz", "std"])
    return rng.choice([3208, -3208, 1, -1, 86399, -86399, rng.randint(-86399, 86399)]) * 1000000, "std"


ZONES = ["America/New_York", "Europe/London", "Australia/Lord_Howe", "Asia/Kolkata", "America/St_Johns", "Pacific/Auckland"]
# wall times around the 2021 transitions of those zones (gaps, repeated hours) + ordinary summer/winter days
ZONE_TIMES = {
    "America/New_York": [[2021, 3, 14, 2, 30], [2021, 11, 7, 1, 30], [2021, 11, 7, 1, 0], [2021, 11, 7, 2, 0]],
    "Europe/London": [[2021, 3, 28, 1, 30], [2021, 10, 31, 1, 30], [2021, 10, 31, 1, 59]],
    "Australia/Lord_Howe": [[2021, 4, 4, 1, 45], [2021, 10, 3, 2, 15]],
    "Asia/Kolkata": [[1941, 10, 1, 0, 30], [1945, 10, 14, 23, 30]],
    "America/St_Johns": [[2021, 11, 7, 1, 30], [2021, 3, 14, 2, 30]],
    "Pacific/Auckland": [[2021, 4, 4, 2, 30], [2021, 9, 26, 2, 30]],
}
VIAS = ["deepcopy", "copy", "pickle"]


def zone_offsets(f, zone, fold):
    """True UTC offset (microseconds) of the wall time f in the zone for the given fold, and the one for fold=0:
    computed here with the standard library's zoneinfo, independently of the code under check."""
    import zoneinfo
    z = zoneinfo.ZoneInfo(zone)
    us = dt.timedelta(microseconds=1)
    o = dt.datetime(*f[:6], tzinfo=z, fold=fold).utcoffset() // us
    o0 = dt.datetime(*f[:6], tzinfo=z, fold=0).utcoffset() // us
    return o, o0


PYTZ_ZONES = ["US/Eastern", "Europe/London", "Australia/Lord_Howe", "America/St_Johns", "Pacific/Auckland", "Asia/Kolkata"]
PYTZ_TIMES = {     # repeated hours and gaps of 2017 / 2021, plus ordinary winter and summer days
    "US/Eastern": [[2017, 11, 5, 1, 50], [2017, 11, 5, 1, 10], [2017, 3, 12, 2, 30], [2021, 11, 7, 1, 30]],
    "Europe/London": [[2017, 10, 29, 1, 30], [2017, 3, 26, 1, 30], [2021, 10, 31, 1, 59]],
    "Australia/Lord_Howe": [[2017, 4, 2, 1, 45], [2017, 10, 1, 2, 15]],
    "America/St_Johns": [[2017, 11, 5, 1, 30], [2017, 3, 12, 2, 30]],
    "Pacific/Auckland": [[2017, 4, 2, 2, 30], [2017, 9, 24, 2, 30]],
    "Asia/Kolkata": [[1945, 10, 14, 23, 30], [2017, 6, 1, 12, 0]],
}


def pytz_offset(f, zone, kind, is_dst):
    """True UTC offset (microseconds) of the INPUT object, computed here with pytz itself before anything enters
    the library: localize(is_dst=...) for a localized datetime, the zone's first offset for tzinfo= attachment."""
    import pytz
    z = pytz.timezone(zone)
    d = z.localize(dt.datetime(*f), is_dst=is_dst) if kind == "pytzloc" else dt.datetime(*f, tzinfo=z)
    return d.utcoffset() // dt.timedelta(microseconds=1)


def pytz_input(rng):
    zone = rng.choice(PYTZ_ZONES)
    r = rng.random()
    if r < 0.55:
        y, m, d, hh, mm = rng.choice(PYTZ_TIMES[zone])
        f = [y, m, d, hh, mm, rng.choice([0, 59, rng.randint(0, 59)]), rng.choice(MICROS + MICROS2)]
    else:
        f = gen_fields(rng)
        f[0] = rng.choice([1950, 1987, 2007, 2017, 2021, 2024, 2037]) if rng.random() < 0.8 else rng.randint(1900, 2037)
        f[2] = min(f[2], 28)
        f[1] = rng.choice([1, 7, f[1]])
    kind = "pytzloc" if rng.random() < 0.85 else "pytzattach"
    is_dst = rng.random() < 0.5
    return {"dt": f, "off": pytz_offset(f, zone, kind, is_dst), "tz": kind, "zone": zone, "is_dst": is_dst}


def zone_input(rng):
    if rng.random() < 0.4:
        return pytz_input(rng)
    zone = rng.choice(ZONES)
    r = rng.random()
    if r < 0.45:
        y, m, d, hh, mm = rng.choice(ZONE_TIMES[zone])
        f = [y, m, d, hh, mm, rng.choice([0, 59, rng.randint(0, 59)]), rng.choice(MICROS + MICROS2)]
    else:
        f = gen_fields(rng)
        f[0] = rng.choice([1950, 1987, 2007, 2016, 2021, 2024, 2037, 2050]) if rng.random() < 0.8 else rng.randint(1900, 2100)
        f[2] = min(f[2], 28)
        f[1] = rng.choice([1, 7, f[1]])            # a winter and a summer month, so that one tzinfo object alternates
    fold = 1 if rng.random() < 0.4 else 0
    o, o0 = zone_offsets(f, zone, fold)
    return {"dt": f, "off": o, "off0": o0, "tz": "zone", "zone": zone, "fold": fold}


UDIGITS = [0x660, 0x6F0, 0x966, 0xFF10, 0x1D7CE, 0x1E950]


def canon_text(f, frac):
    y, m, d, hh, mm, ss, _ = f
    return "%04d-%02d-%02dT%02d:%02d:%02d%sZ" % (y, m, d, hh, mm, ss, ("." + frac) if frac is not None else "")


def gen_fraction(rng, f):
    n = rng.choice([None, 0, 1, 2, 3, 3, 4, 5, 6, 6, 7, 8, 9]) if rng.random() < 0.8 else rng.randint(1, 9)
    if n is None:
        return None
    if n == 0:
        return ""
    if n <= 6 and rng.random() < 0.5:
        return ("%06d" % f[6])[:n]
    r = rng.random()
    if r < 0.2:
        return "0" * n
    if r < 0.4:
        return "9" * n
    if r < 0.5:
        return "0" * (n - 1) + "1"
    return "".join(rng.choice("0123456789") for _ in range(n))


def gen_string(rng):
    """(string, class) -- canonical, lenient spelling, or near-miss."""
    f = gen_fields(rng)
    frac = gen_fraction(rng, f)
    s = canon_text(f, frac)
    r = rng.random()
    if r < 0.45:
        return s, "canonical"
    y, m, d, hh, mm, ss, _ = f
    fr = ("." + frac) if frac is not None else ""
    if r < 0.7:   # lenient spellings strptime is known to accept
        k = rng.randrange(8)
        if k == 0:
            return s.replace("T", "t"), "lenient"
        if k == 1:
            return s.replace("Z", "z"), "lenient"
        if k == 2:
            return "%04d-%d-%dT%d:%d:%d%sZ" % (y, m, d, hh, mm, ss, fr), "lenient"
        if k == 3:
            return "%04d-%02d-%2dT%02d:%02d:%02d%sZ" % (y, m, d, hh, mm, ss, fr), "lenient"
        if k == 4:   # one field with a single digit
            parts = ["%02d" % m, "%02d" % d, "%02d" % hh, "%02d" % mm, "%02d" % ss]
            i = rng.randrange(5)
            parts[i] = str(int(parts[i]))
            return "%04d-%s-%sT%s:%s:%s%sZ" % ((y,) + tuple(parts) + (fr,)), "lenient"
        if k == 5:   # Unicode decimal digits somewhere
            z = rng.choice(UDIGITS)
            pos = [i for i, ch in enumerate(s) if ch.isdigit()]
            i = rng.choice(pos)
            return s[:i] + chr(z + int(s[i])) + s[i + 1:], "lenient"
        if k == 6:   # all digits of the date part in another script
            z = rng.choice(UDIGITS)
            return "".join(chr(z + int(ch)) if ch.isdigit() and i < 4 else ch for i, ch in enumerate(s)), "lenient"
        return s.lower(), "lenient"
    k = rng.randrange(22)   # near misses
    alts = [
        s[:-1], s + "\n", " " + s, s + " ", s.replace("T", " "), s.replace("Z", "+00:00"),
        "%04d-%02d-%02dT%02d:%02d:60%sZ" % (y, m, d, hh, mm, fr), "%04d-%02d-%02dT24:%02d:%02d%sZ" % (y, m, d, mm, ss, fr),
        "%04d-02-30T%02d:%02d:%02d%sZ" % (y, hh, mm, ss, fr), "%04d-13-%02dT%02d:%02d:%02d%sZ" % (y, d, hh, mm, ss, fr),
        "%04d-00-%02dT%02d:%02d:%02d%sZ" % (y, d, hh, mm, ss, fr), "0000" + s[4:], "1" + s, s[1:] if s[0] == "0" else s[2:],
        s.replace(".", ".."), s.replace(".", ","), s.replace("-", "/"), s[:10] + "T" + s[10:],
        "%04d-%02d-%02dT%02d:%02d:%02d.Z" % (y, m, d, hh, mm, ss), s.replace(":", ".", 1), s.replace("Z", "ZZ"),
        "%04d-02-29T%02d:%02d:%02d%sZ" % (y, hh, mm, ss, fr),
    ]
    return alts[k], "nearmiss"


def gen_cases(run, scale):
    rng = run.rng
    cases = []

    def add(k, p, c, inp, **kw):
        d = {"k": k, "p": p, "c": c, "in": inp}
        d.update(kw)
        if k in ("parse", "prop") and rng.random() < 0.25:
            # the same arguments in another public form: enum members, upper-case names, keyword / positional
            d["af"] = rng.choice(["enum", "upper", "keyword"] if k == "parse" else ["enum", "upper", "positional"])
        cases.append(d)

    def dt_input(cls=None, subsecond=False):
        if not subsecond and rng.random() < 0.1:
            d = zone_input(rng)
        else:
            off, tz = gen_offset(rng, subsecond)
            d = {"dt": gen_fields(rng), "off": off, "tz": tz}
        if cls:
            d["cls"] = cls
        return d

    def maybe_via(kw, p=0.12):
        if rng.random() < p:
            kw["via"] = rng.choice(VIAS)
        return kw

    for _ in range(int(2500 * scale)):     # format_datetime on STIXdatetime / datetime
        if rng.random() < 0.8:
            p, c = rng.choice(PC)
            add("fmt", p, c, dt_input("stix"), **maybe_via({}))
        else:
            add("fmt", "any", "exact", dt_input())
    for _ in range(int(3000 * scale)):     # parse_into_datetime on datetimes and dates
        p, c = rng.choice(PC)
        if rng.random() < 0.12:
            f = gen_fields(rng)
            add("parse", p, c, {"date": f[:3]})
        else:
            add("parse", p, c, dt_input())
    for _ in range(int(2000 * scale)):     # TimestampProperty.clean + encoder
        p, c = rng.choice(PC)
        r = rng.random()
        if r < 0.1:
            add("prop", p, c, {"date": gen_fields(rng)[:3]})
        elif r < 0.75:
            add("prop", p, c, dt_input(), **maybe_via({}))
        else:
            add("prop", p, c, {"str": gen_string(rng)[0]}, **maybe_via({}))
    for _ in range(int(1200 * scale)):     # timestamp properties of real objects
        route = rng.choice(sorted(ROUTES))
        p, c = ROUTES[route]
        r = rng.random()
        if r < 0.7:
            add("obj", p, c, dt_input(), **maybe_via({"route": route}))
        else:
            add("obj", p, c, {"str": gen_string(rng)[0]}, **maybe_via({"route": route}))
    for _ in range(int(3000 * scale)):     # timestamp strings
        p, c = rng.choice(PC)
        s, cl = gen_string(rng)
        add("parse", p, c, {"str": s}, scls=cl)
    for sp, sc in PC:                      # STIXdatetime values parsed earlier at another precision/constraint
        for tp, tc in PC:
            for _ in range(max(1, int(12 * scale))):
                inp = dt_input()
                if inp["dt"][6] % 1000 == 0:
                    inp["dt"][6] = rng.choice([1, 999, 1001, 123456, 120001, 999999, 500500])
                inp["src"] = [sp, sc]
                donors = [rt for rt in sorted(ROUTES) if ROUTES[rt] == (sp, sc)]
                if donors and rng.random() < 0.5:
                    inp["src_route"] = rng.choice(donors)      # the value is taken from a real object (the donor)
                r = rng.random()
                if r < 0.45:
                    add("prop", tp, tc, inp)
                elif r < 0.7:
                    add("parse", tp, tc, inp)
                else:
                    routes = [rt for rt in sorted(ROUTES) if ROUTES[rt] == (tp, tc)]
                    if routes:
                        add("obj", tp, tc, inp, route=rng.choice(routes))
                    else:
                        add("prop", tp, tc, inp)
    for _ in range(int(700 * scale)):      # aware values (fixed non-UTC offsets, DST zones) that are copied, deep-copied or pickled
        p, c = rng.choice(PC)                # between cleaning and writing, or written as they are
        inp = zone_input(rng) if rng.random() < 0.6 else dt_input()
        if inp.get("off") in (None, 0):
            inp["off"], inp["tz"] = rng.choice([19800, -18000, 3600, 45900, -34200]) * 1000000, "std"
        if inp["dt"][6] % 1000 == 0 and rng.random() < 0.7:
            inp["dt"][6] = rng.choice([120000, 1, 999, 123456, 999999, 100000])
        k = rng.choice(["fmt", "prop", "prop", "obj", "parse"])
        kw = {}
        if k != "parse" and rng.random() < 0.75:
            kw["via"] = rng.choice(VIAS)
        if k == "obj":
            routes = [rt for rt in sorted(ROUTES) if ROUTES[rt] == (p, c)]
            if not routes:
                k = "prop"
            else:
                kw["route"] = rng.choice(routes)
        if k == "fmt":
            inp["cls"] = "stix"
        add(k, p, c, inp, **kw)
    for _ in range(int(150 * scale)):      # sub-second UTC offsets (legal in Python >= 3.7)
        p, c = rng.choice(PC)
        add(rng.choice(["parse", "prop"]), p, c, dt_input(subsecond=True))
    return cases


def search_cases(run):
    """Used only when an obligation or the correspondence broke: 40k more generated inputs plus a dense sweep of
    microsecond values at every precision/constraint and write route."""
    class R:      # gen_cases only needs .rng
        rng = run.rng
    cases = gen_cases(R, 2.0)
    for us in list(range(0, 3000)) + list(range(997000, 1000000)) + [run.rng.randint(0, 999999) for _ in range(3000)]:
        p, c = PC[us % 6]
        k = ("parse", "fmt", "prop")[(us // 6) % 3]
        f = [run.rng.choice(YEARS), 1, 1, 23, 59, 59, us]
        if k == "fmt":
            cases.append({"k": k, "p": p, "c": c, "in": {"dt": f, "off": None, "tz": "std", "cls": "stix"}})
        else:
            cases.append({"k": k, "p": p, "c": c, "in": {"dt": f, "off": 0, "tz": "utc"}})
    return cases


def boundary_grid():
    """Deterministic grid run on the implementation + oracle only (cheap):
    every boundary microsecond value x every precision/constraint x the
    write routes, at a few dates.  This is where a changed digit rule shows."""
    cases = []
    dates = [[1970, 1, 1, 0, 0, 0], [2016, 2, 29, 23, 59, 59], [9999, 12, 31, 23, 59, 59], [1000, 1, 1, 0, 0, 0]]
    for us in MICROS + MICROS2:
        for p, c in PC:
            for f in dates:
                cases.append({"k": "parse", "p": p, "c": c, "in": {"dt": f + [us], "off": 0, "tz": "pytz"}})
                cases.append({"k": "fmt", "p": p, "c": c, "in": {"dt": f + [us], "off": None, "tz": "std", "cls": "stix"}})
            cases.append({"k": "prop", "p": p, "c": c, "in": {"str": "2016-02-29T23:59:59.%06dZ" % us}})
        for route in sorted(ROUTES):
            p, c = ROUTES[route]
            cases.append({"k": "obj", "p": p, "c": c, "route": route, "in": {"dt": [2017, 3, 4, 5, 6, 7, us], "off": None, "tz": "std"}})
    # one tzinfo object with a variable offset used for winter and summer datetimes in both orders, repeated wall
    # times with both folds; aware values copied / deep-copied / pickled between cleaning and writing
    for zone in ZONES:
        seq = []
        for y, m, d, hh, mm in ZONE_TIMES[zone]:
            for fold in (0, 1):
                seq.append(([y, m, d, hh, mm, 0, 120000], fold))
        for f, fold in [([2021, 1, 15, 12, 0, 0, 1], 0), ([2021, 7, 15, 12, 0, 0, 999], 0)] + seq + \
                [([2021, 7, 16, 12, 0, 0, 1], 0), ([2021, 1, 16, 12, 0, 0, 999], 0)]:
            o, o0 = zone_offsets(f, zone, fold)
            inp = {"dt": f, "off": o, "off0": o0, "tz": "zone", "zone": zone, "fold": fold}
            cases.append({"k": "fmt", "p": "any", "c": "exact", "in": inp})
            cases.append({"k": "parse", "p": "millisecond", "c": "min", "in": inp})
            cases.append({"k": "obj", "p": "millisecond", "c": "exact", "route": "v20.Identity.created", "in": inp})
    # pytz zones: datetimes localized with is_dst True and False in repeated hours and gaps, and attached with tzinfo=
    for zone in PYTZ_ZONES:
        for y, m, d, hh, mm in PYTZ_TIMES[zone] + [[2017, 1, 15, 12, 0], [2017, 7, 15, 12, 0]]:
            for kind, is_dst in (("pytzloc", True), ("pytzloc", False), ("pytzattach", False)):
                f = [y, m, d, hh, mm, 0, 120000]
                inp = {"dt": f, "off": pytz_offset(f, zone, kind, is_dst), "tz": kind, "zone": zone, "is_dst": is_dst}
                cases.append({"k": "fmt", "p": "any", "c": "exact", "in": inp})
                cases.append({"k": "parse", "p": "millisecond", "c": "min", "in": inp})
                cases.append({"k": "prop", "p": "second", "c": "exact", "in": inp})
                cases.append({"k": "obj", "p": "millisecond", "c": "exact", "route": "v20.Identity.created", "in": inp})
                cases.append({"k": "obj", "p": "millisecond", "c": "min", "route": "v21.Identity.created", "via": "deepcopy", "in": inp})
    for how in VIAS:
        for p, c in PC:
            for off in (0, 19800000000, -18000000000):
                inp = {"dt": [2020, 1, 2, 12, 0, 0, 120000], "off": off, "tz": "std"}
                cases.append({"k": "prop", "p": p, "c": c, "via": how, "in": inp})
                cases.append({"k": "fmt", "p": p, "c": c, "via": how, "in": dict(inp, cls="stix")})
                for route in sorted(ROUTES):
                    if ROUTES[route] == (p, c):
                        cases.append({"k": "obj", "p": p, "c": c, "via": how, "route": route, "in": inp})
    # a timestamp cleaned at one precision/constraint handed to a property of every other one
    for us in (1, 999, 1001, 123456, 999999):
        for sp, sc in PC:
            for tp, tc in PC:
                inp = {"dt": [2016, 2, 29, 23, 59, 59, us], "off": 0, "tz": "utc", "src": [sp, sc]}
                cases.append({"k": "prop", "p": tp, "c": tc, "in": inp})
                for donor in sorted(ROUTES):
                    if ROUTES[donor] == (sp, sc) and us in (1, 123456):
                        for route in sorted(ROUTES):
                            if ROUTES[route] == (tp, tc):
                                cases.append({"k": "obj", "p": tp, "c": tc, "route": route, "in": dict(inp, src_route=donor)})
                        cases.append({"k": "prop", "p": tp, "c": tc, "in": dict(inp, src_route=donor)})
                        cases.append({"k": "parse", "p": tp, "c": tc, "in": dict(inp, src_route=donor)})
                for route in sorted(ROUTES):
                    if ROUTES[route] == (tp, tc):
                        cases.append({"k": "obj", "p": tp, "c": tc, "route": route, "in": inp})
    return cases


# --------------------------------------------------------------------------
# model terms

def coq_off(off):
    return "None" if off is None else "(Some %s)" % common.coq_Z(off)


def coq_dt(f):
    return "(dt %s)" % " ".join(common.coq_Z(x) for x in f)


def coq_input(inp, nm="NaiveKept"):
    if "src" in inp:
        plain = {k: v for k, v in inp.items() if k != "src"}
        return "(reparse %s %s %s %s)" % (nm, COQ_P[inp["src"][0]], COQ_C[inp["src"][1]], coq_input(plain))
    if "str" in inp:
        return "(InStr %s)" % common.coq_ustr(inp["str"])
    if "date" in inp:
        return "(InDate %s)" % " ".join(common.coq_Z(x) for x in inp["date"])
    return "(InDatetime %s %s)" % (coq_dt(inp["dt"]), coq_off(inp.get("off")))


class Variants:
    """What the code under check does where several behaviours are compatible with the model (selected at run time)."""

    def __init__(self, ym="Pad4", nm="NaiveUtc", fold="kept", lose=(), subsec="local_first"):
        self.ym, self.nm, self.fold, self.lose, self.subsec = ym, nm, fold, set(lose), subsec

    def describe(self):
        return {"year_mode": self.ym, "naive_mode": self.nm, "fold": self.fold, "precision_lost_by": sorted(self.lose),
                "subsecond_offsets": self.subsec}


def loses(case, V):
    how = case.get("via")
    return bool(how) and how in V.lose and not (case["k"] == "obj" and how == "copy")      # copy.copy(obj) shares the values


def effective_input(case, V):
    """The input as the model sees it: for a zone, the UTC offset the code under check will use."""
    inp = case["in"]
    if V.subsec == "utc_first" and "dt" in inp and (inp.get("off") or 0) % 1000000 != 0 and \
            (case["k"] in ("parse", "prop", "obj") or "src" in inp):
        # the repaired parse_into_datetime moves such a value to UTC before anything else: same as being given
        # the UTC fields
        try:
            f = inp["dt"]
            d = dt.datetime(*f[:6]) + dt.timedelta(microseconds=f[6] - inp["off"])
            inp = dict(inp, dt=[d.year, d.month, d.day, d.hour, d.minute, d.second, d.microsecond], off=0)
        except (OverflowError, ValueError):
            pass
        return inp
    if inp.get("tz") == "zone" and V.fold == "dropped" and \
            (case["k"] in ("parse", "prop", "obj") or "src" in inp or case.get("via") == "deepcopy"):
        inp = dict(inp)
        inp["off"] = inp["off0"]
    return inp


def model_term(case, V):
    p, c = COQ_P[case["p"]], COQ_C[case["c"]]
    inp = effective_input(case, V)
    lose = loses(case, V)
    if case["k"] == "fmt":
        pc = "PAny CExact" if lose else "%s %s" % (p, c)
        return "show_text (format_dt %s %s %s %s)" % (V.ym, pc, coq_dt(inp["dt"]), coq_off(inp.get("off")))
    if case["k"] == "parse":
        return "show_parsed %s %s %s %s %s" % (V.nm, V.ym, p, c, coq_input(inp, V.nm))
    if lose:
        return "show_text (write_as %s %s %s %s PAny CExact %s)" % (V.nm, V.ym, p, c, coq_input(inp, V.nm))
    return "show_text (write %s %s %s %s %s)" % (V.nm, V.ym, p, c, coq_input(inp, V.nm))


# --------------------------------------------------------------------------
# extraction route (thorough tier): the same model compiled to OCaml (extract/c15)

EXTRACT_DIR = os.path.join(common.VERIF, "extract", "c15")
XP = {"any": "a", "second": "s", "millisecond": "m"}
XC = {"exact": "e", "min": "m"}


def build_extracted():
    """coqc the extraction file against the built development, then ocamlopt; -> path of the executable"""
    for cmd in (["timeout", "600", "coqc", "-Q", common.COQ, "V", "Extract.v"],
                ["timeout", "600", "ocamlfind", "ocamlopt", "-w", "-a", "c15model.mli", "c15model.ml", "driver.ml", "-o", "c15model.exe"]):
        p = subprocess.run(cmd, cwd=EXTRACT_DIR, stdout=subprocess.PIPE, stderr=subprocess.STDOUT, text=True)
        if p.returncode != 0:
            raise RuntimeError("%s failed:\n%s" % (" ".join(cmd[2:4]), p.stdout[-1500:]))
    return os.path.join(EXTRACT_DIR, "c15model.exe")


def extracted_line(case, V):
    ym, nm = V.ym, V.nm
    inp = effective_input(case, V)
    k = {"fmt": 0, "parse": 1}.get(case["k"], 2)
    src = "-" if "src" not in inp else XP[inp["src"][0]] + XC[inp["src"][1]]
    if "str" in inp:
        body = "str " + (",".join(str(ord(ch)) for ch in inp["str"]) or "-")
    elif "date" in inp:
        body = "date %d %d %d" % tuple(inp["date"])
    else:
        body = "dt %s %s" % (" ".join(str(x) for x in inp["dt"]), "N" if inp.get("off") is None else inp["off"])
    return "%d %s %s %s %s %s %s %s" % (k, "K" if nm == "NaiveKept" else "U", "U" if ym == "Unpadded" else "P",
                                        XP[case["p"]], XC[case["c"]], "L" if loses(case, V) else "-", src, body)


def eval_extracted(exe, cases, V):
    lines = [extracted_line(c, V) for c in cases]
    n = max(1, common.NCPU)
    size = (len(lines) + n - 1) // n
    chunks = [lines[i:i + size] for i in range(0, len(lines), size)]

    def run(chunk):
        p = subprocess.run([exe], input="\n".join(chunk) + "\n", stdout=subprocess.PIPE, stderr=subprocess.PIPE, text=True)
        out = p.stdout.split("\n")
        if out and out[-1] == "":
            out.pop()
        if p.returncode != 0 or len(out) != len(chunk):
            raise RuntimeError("extracted model failed: rc=%s, %d results for %d cases\n%s"
                               % (p.returncode, len(out), len(chunk), p.stderr[-800:]))
        return out

    res = []
    with ThreadPoolExecutor(max_workers=n) as ex:
        for part in ex.map(run, chunks):
            res.extend(part)
    return res


# --------------------------------------------------------------------------
# the property, evaluated on the implementation's observable output

CANON = re.compile(r"^(\d{4})-(\d{2})-(\d{2})T(\d{2}):(\d{2}):(\d{2})(?:\.(\d+))?Z$", re.ASCII)
RELAXED_YEAR = re.compile(r"^(\d{1,4})-(\d{2})-(\d{2})T(\d{2}):(\d{2}):(\d{2})(?:\.(\d+))?Z$", re.ASCII)
LENIENT_IN = re.compile(r"^(\d{4})-(\d\d?)-( ?\d\d?)[Tt](\d\d?):(\d\d?):(\d\d?)(?:\.(\d+))?[Zz]$")


def instant(y, m, d, hh, mm, ss, frac):
    """Exact instant in microseconds since 0001-01-01 (Fraction), or None if
    the fields are not a date/time of the proleptic Gregorian calendar."""
    if not (1 <= y <= 9999 and 1 <= m <= 12 and 1 <= d <= days_in_month(y, m) and hh < 24 and mm < 60 and ss < 60):
        return None
    days = dt.date(y, m, d).toordinal() - 1
    t = Fraction(((days * 24 + hh) * 60 + mm) * 60 + ss) * 1000000
    if frac:
        t += Fraction(int(frac) * 1000000, 10 ** len(frac))
    return t


def read_written(text):
    """(strictly canonical?, instant, fraction digits) of an output text."""
    m = CANON.match(text)
    strict = bool(m)
    if not m:
        m = RELAXED_YEAR.match(text)
        if not m:
            return False, None, None
    g = m.groups()
    return strict, instant(*[int(x) for x in g[:6]], g[6]), g[6] or ""


def input_instant(inp):
    """The UTC instant the input denotes, by integer arithmetic independent of
    the library; None when the input is a string that is no timestamp."""
    if "str" in inp:
        m = LENIENT_IN.match(inp["str"])
        if not m:
            return None
        g = m.groups()
        try:
            return instant(*[int(x) for x in g[:6]], g[6])
        except ValueError:
            return None
    if "date" in inp:
        return instant(*inp["date"], 0, 0, 0, None)
    f = inp["dt"]
    t = instant(*f[:6], None) + f[6]
    if "src" in inp:        # already truncated once, at the precision it was first parsed with
        u = UNIT.get(tuple(inp["src"]), 1)
        t = (t // u) * u
    return t - (inp.get("off") or 0)


def split_result(res):
    """(answer, second write) -- a trailing ` || DONOR before after` section is read by donor_of"""
    parts = res.split(" || ")
    return parts[0], (parts[1] if len(parts) > 1 else "")


def donor_of(res):
    for part in res.split(" || ")[2:]:
        if part.startswith("DONOR "):
            x = part.split(" ")
            if len(x) == 3:
                return x[1], x[2]
    return None


def written_text(case, out):
    """The timestamp text the library wrote for this case, or None."""
    if not out.startswith("OK "):
        return None
    if case["k"] == "parse":
        parts = out.split(" ", 3)
        t = parts[3] if len(parts) > 3 else ""
        if t.endswith(" PRECISION-LOST"):
            t = t[:-len(" PRECISION-LOST")]
        return None if t.startswith("EXC ") else t
    return out[3:]


def digits_ok(p, c, frac, exact_us):
    """The digit-count rule of the precision; exact_us = microsecond part of the written instant."""
    if (p, c) == ("second", "exact"):
        return frac == ""
    if (p, c) == ("millisecond", "exact"):
        return len(frac) == 3
    if (p, c) == ("millisecond", "min"):
        return len(frac) >= 3 and (len(frac) == 3 or not frac.endswith("0"))
    # any / second-or-better: no fraction for whole seconds, otherwise minimal digits
    return (frac == "") if exact_us == 0 else (frac != "" and not frac.endswith("0"))


def oracle(cases, results, stats=None):
    stats = {} if stats is None else stats
    out = []
    groups = {}
    for case, res in zip(cases, results):
      try:
          o, again = split_result(res)
          text = written_text(case, o)
          if text is None:
              continue
          p, c = case["p"], case["c"]
          t_in = input_instant(case["in"])
          strict, t_out, frac = read_written(text)
          off = case["in"].get("off") or 0
          subsec = off % 1000000 != 0
          year_class = (not strict and t_out is not None and re.match(r"^\d{1,3}-", text) is not None)

          inp = case["in"]
          # narrow classes of the two defects of STIXdatetime: a repeated wall time (fold=1) whose offset differs from the
          # fold=0 one, on a route that rebuilds the value from a datetime; a value copied / pickled before it is written
          fold_class = inp.get("tz") == "zone" and inp.get("fold") == 1 and inp.get("off") != inp.get("off0") and \
              (case["k"] in ("parse", "prop", "obj") or "src" in inp or case.get("via") == "deepcopy")
          copy_class = case.get("via") in ("copy", "pickle")

          def viol(what, finding=None):
              out.append(Violation("%s: %s" % (what, describe(case, text)), {"cases": [case], "check": what}, finding))

          if not strict:
              viol("not of the form YYYY-MM-DDTHH:MM:SS[.fraction]Z with a four-digit year", FINDING_YEAR if year_class else None)
          if t_out is None:
              continue
          if t_in is not None:
              unit = UNIT.get((p, c), 1)
              want = (t_in // unit) * unit
              if subsec:
                  stats["subsecond_offset_cases"] = stats.get("subsecond_offset_cases", 0) + 1
                  stats["subsecond_offset_deviating"] = stats.get("subsecond_offset_deviating", 0) + int(t_out != want)
              if subsec and t_out != want and t_out == ((((t_in + off) // unit) * unit - off) // unit) * unit:
                  # truncated in the value's own zone, converted to UTC, truncated again when written
                  viol("written instant is not the input instant truncated to the precision (written %s us, expected %s us)"
                       % (t_out, want), FINDING_SUBSEC)
              elif t_out != want:
                  f = None
                  if fold_class and t_out == ((t_in + inp["off"] - inp["off0"]) // unit) * unit:
                      f = FINDING_FOLD          # written with the offset of the first occurrence of the wall time
                  elif copy_class and t_out == t_in:
                      f = FINDING_COPY          # written untruncated: the copy has forgotten its precision
                  viol("written instant is not the input instant truncated to the precision (written %s us, expected %s us)"
                       % (t_out, want), f)
              if not digits_ok(p, c, frac, t_out % 1000000):
                  viol("wrong number of fractional digits for precision %s/%s" % (p, c), FINDING_COPY if copy_class else None)
              if not ((fold_class or copy_class or subsec) and t_out != want):      # already reported above
                  groups.setdefault((p, c), []).append((t_in, t_out, case, text))
          dn = donor_of(res)
          if dn is not None and dn[0] != dn[1]:
              viol("handing the value to this property changed how its first owner is written (before %s, after %s)" % dn)
          if again != text:
              viol("write-read-write is not a fixed point (second write gives %s)" % again,
                   FINDING_YEAR if year_class else FINDING_COPY if (copy_class and strict) else None)
      except Exception as e:  # noqa: BLE001 -- the oracle must never stop the check: report the case instead
        out.append(Violation("the oracle could not judge this case (%s: %s): %s" % (type(e).__name__, e, str(res)[:200]),
                             {"cases": [case], "check": "oracle error"}, None))
    for (p, c), g in groups.items():      # later instants are never written as earlier ones
        g.sort(key=lambda x: x[0])
        best = None
        for t_in, t_out, case, text in g:
            if best is not None and t_out < best[1] and t_in > best[0]:
                out.append(Violation("a later instant is written as an earlier one: %s then %s" % (describe(best[2], best[3]), describe(case, text)),
                                     {"cases": [best[2], case], "check": "monotone"}, None))
            if best is None or t_out > best[1]:
                best = (t_in, t_out, case, text)
    return out


def describe(case, text):
    return "%s(%s, %s/%s) wrote %r" % (case["k"] + (":" + case["route"] if "route" in case else "") +
                                       ("+" + case["via"] if case.get("via") else ""), case["in"], case["p"], case["c"], text)


# --------------------------------------------------------------------------

WITNESS = {"k": "fmt", "p": "any", "c": "exact", "in": {"dt": [999, 1, 2, 3, 4, 5, 0], "off": None, "tz": "std"}}


NAIVE_PROBE = {"k": "parse", "p": "any", "c": "exact", "in": {"dt": [2020, 1, 2, 3, 4, 5, 6], "off": None, "tz": "std"}}


FOLD_PROBE = {"k": "parse", "p": "any", "c": "exact",
              "in": {"dt": [2021, 11, 7, 1, 30, 0, 0], "off": -18000000000, "off0": -14400000000, "tz": "zone",
                     "zone": "America/New_York", "fold": 1}}


SUBSEC_PROBE = {"k": "parse", "p": "millisecond", "c": "exact", "in": {"dt": [2020, 1, 1, 12, 0, 0, 700], "off": 500, "tz": "std"}}


def copy_probe(how):
    return {"k": "prop", "p": "millisecond", "c": "exact", "via": how,
            "in": {"dt": [2020, 1, 2, 3, 4, 5, 120000], "off": 0, "tz": "utc"}}


def select_variant(run):
    """Probes on the implementation: the witness of fmt_canonical_refuted (year mode); a naive datetime through
    parse_into_datetime (kept naive / localised: both satisfy the property); a repeated wall time with fold=1
    (fold kept / dropped when a STIXdatetime is built from a datetime); a cleaned value copied, deep-copied,
    pickled before it is written (precision attributes kept / lost)."""
    probes = [WITNESS, NAIVE_PROBE, FOLD_PROBE] + [copy_probe(h) for h in VIAS] + [SUBSEC_PROBE]
    res = common.run_impl("c15_impl", probes, procs=1)
    V = Variants()
    o, _ = split_result(res[0])
    if o == "OK 999-01-02T03:04:05Z":
        V.ym = "Unpadded"
    elif o != "OK 0999-01-02T03:04:05Z":
        run.broken.append(Broken("correspondence", "year-mode witness matches neither variant", {"observed": o}))
    parts = split_result(res[1])[0].split(" ")
    if len(parts) >= 3 and parts[0] == "OK" and parts[2] == "naive":
        V.nm = "NaiveKept"
    elif not (len(parts) >= 3 and parts[0] == "OK" and parts[2] == "0"):
        run.broken.append(Broken("correspondence", "naive-datetime probe matches neither variant", {"observed": res[1]}))
    parts = split_result(res[2])[0].split(" ")
    if len(parts) >= 3 and parts[0] == "OK" and parts[2] == "-14400000000":
        V.fold = "dropped"
    elif not (len(parts) >= 3 and parts[0] == "OK" and parts[2] == "-18000000000"):
        run.broken.append(Broken("correspondence", "fold probe matches neither variant", {"observed": res[2]}))
    o, _ = split_result(res[-1])
    if o.endswith(" 2020-01-01T12:00:00.000Z"):
        V.subsec = "utc_first"
    elif not o.endswith(" 2020-01-01T11:59:59.999Z"):
        run.broken.append(Broken("correspondence", "sub-second offset probe matches neither variant", {"observed": res[-1]}))
    for how, r in zip(VIAS, res[3:]):
        o, _ = split_result(r)
        if o == "OK 2020-01-02T03:04:05.12Z":
            V.lose.add(how)
        elif o != "OK 2020-01-02T03:04:05.120Z":
            run.broken.append(Broken("correspondence", "%s probe matches neither variant" % how, {"observed": r}))
    return V, probes, res


def check(run):
    thorough = run.tier == "thorough"
    scale = 80.0 if thorough else 1.0
    run.coverage["rule"] = (
        "boundary-biased datetimes (years {1,999,1000,1970,9999}+random, boundary microseconds, naive/aware, UTC offsets "
        "-14h..+14h incl. odd-second and sub-second ones, date objects) and timestamp strings (fraction lengths 0-9, "
        "lenient spellings, near-misses) through format_datetime, parse_into_datetime, TimestampProperty.clean+encoder and "
        "real object properties, at every precision/constraint; a case is non-trivial when the implementation wrote a timestamp "
        "(was not rejected)")
    import time
    t0 = time.time()
    phases = run.coverage.setdefault("phase_s", {})
    with common.Lock():
        phases["lock_wait"] = round(time.time() - t0, 1)
        res = common.build_props("Props/C15.v")
        run.add_build(res, "make -C coq Props/C15.vo Props/C15Src.vo (coqc 8.16.1, full .vo) + Print Assumptions per theorem")
        # the source-text tie: the digit logic of utils.py as programs of Model/PyTs.v, and the obligations on them
        try:
            import tr_timestamp_src
            text, srcinfo = tr_timestamp_src.translate(common.REPO, common.PY, common.VERIF)
            common.write_if_changed(os.path.join(common.COQ, "Gen", "TimestampSrc.v"), text)
            res2 = common.build_props("Props/C15Src.v")
            run.add_build(res2, "make -C coq Props/C15.vo Props/C15Src.vo (coqc 8.16.1, full .vo) + Print Assumptions per theorem")
        except Exception as e:  # noqa: BLE001
            run.broken.append(Broken("translator", "tr_timestamp_src", {"error": "%s: %s" % (type(e).__name__, str(e)[-800:])}))
            run.coverage["obligations"] += len(common.theorems_in("Props/C15Src.v"))
    phases["build"] = round(time.time() - t0, 1)
    V, probes, probe_res = select_variant(run)
    ym, nm = V.ym, V.nm
    run.coverage["variant_selected"] = V.describe()
    cases = gen_cases(run, scale)
    procs_main = min(common.NCPU, max(1, len(cases) // 50))
    impl = common.run_impl("c15_impl", cases, procs=procs_main)
    phases["impl"] = round(time.time() - t0, 1)
    hist = {}
    for c, r in zip(cases, impl):
        o, _ = split_result(r)
        nt = written_text(c, o) is not None
        run.count(c, nontrivial=nt)
        key = "%s/%s" % (c["k"], "str" if "str" in c["in"] else "date" if "date" in c["in"] else "datetime")
        h = hist.setdefault(key, {"cases": 0, "written": 0})
        h["cases"] += 1
        h["written"] += int(nt)
    run.coverage["distribution"] = hist
    for i in (0, len(cases) // 3, len(cases) // 2, len(cases) - 400, len(cases) - 1):
        run.sample({"case": cases[i], "impl": impl[i]})
    def compare(model, which, subset=None):
        idx = range(len(cases)) if subset is None else subset
        # (a donor object that cannot even be written -- conversion out of years 1..9999 -- gives no case)
        dis = [(cases[i], impl[i], m) for i, m in zip(idx, model) if split_result(impl[i])[0] != m
               and not (impl[i].startswith("BADCASE") and cases[i]["in"].get("src_route"))]
        run.coverage["correspondence_cases_" + which] = len(model)
        run.coverage["correspondence_disagreements"] = run.coverage.get("correspondence_disagreements", 0) + len(dis)
        if dis:
            run.coverage["correspondence_first_disagreements"] = [{"case": c, "impl": i, "model": m} for c, i, m in dis[:5]]
            run.broken.append(Broken("correspondence", "Model/Timestamp.v (%s, %s, %s route) vs stix2.utils / TimestampProperty" % (ym, nm, which),
                                     {"first": [{"case": c, "impl": i, "model": m} for c, i, m in dis[:8]]}))

    try:
        if thorough:
            # volume through the extracted OCaml model; a sample of the same cases through the kernel so that
            # the two evaluation routes check each other
            exe = build_extracted()
            xmodel = eval_extracted(exe, cases, V)
            compare(xmodel, "extracted")
            step = max(1, len(cases) // 20000)
            sample = list(range(0, len(cases), step))
            kmodel = common.coq_eval_lines("c15m", HEADER, [model_term(cases[i], V) for i in sample], shard=450)
            compare(kmodel, "kernel", sample)
            rd = [(cases[i], k, xmodel[i]) for i, k in zip(sample, kmodel) if k != xmodel[i]]
            run.coverage["routes"] = {"extracted": len(xmodel), "kernel_sample": len(kmodel), "route_disagreements": len(rd)}
            if rd:
                run.broken.append(Broken("correspondence", "kernel route vs extracted route",
                                         {"first": [{"case": c, "kernel": k, "extracted": x} for c, k, x in rd[:5]]}))
        else:
            model = common.coq_eval_lines("c15m", HEADER, [model_term(c, V) for c in cases], shard=450)
            compare(model, "kernel")
        run.coverage["correspondence_cases"] = len(cases)
        run.coverage.setdefault("correspondence_disagreements", 0)
    except RuntimeError as e:
        run.broken.append(Broken("correspondence", "model evaluation failed", {"error": str(e)[-1500:]}))
    phases["model"] = round(time.time() - t0, 1)
    # the property itself on the implementation: the variant witness first (so that it is the replay when the
    # unpadded variant is back), then the deterministic boundary grid and every generated case
    stats = {}
    grid = probes + boundary_grid()
    grid_impl = common.run_impl("c15_impl", grid, procs=4)
    for c in grid:
        run.count(c, nontrivial=True)
    vg = oracle(grid, grid_impl, stats)
    vc = oracle(cases, impl, stats)
    for v in vg:
        v.batch = (grid, 4)
    for v in vc:
        v.batch = (cases, procs_main)
    run.violations += vg + vc
    run.violations += local_zone_runs(run, cases, impl, stats)
    run.violations += repeat_runs(run, cases, impl, stats)
    run.coverage["oracle_cases"] = len(cases) + len(grid)
    if run.broken and not run.violations:
        # something no longer checks but no generated input fails the property: search at higher volume
        # (implementation + oracle only, no model needed) around the places a changed rule shows
        extra = search_cases(run)
        extra_impl = common.run_impl("c15_impl", extra)
        run.violations += oracle(extra, extra_impl, stats)
        run.coverage["search_cases"] = len(extra)
    run.coverage["out_of_domain"] = stats
    run.coverage["failing_cases_found"] = len(run.violations)
    run.violations[:] = [reproducible(v) for v in first_per_kind(run.violations)]
    run.coverage["trusted_base"] += [
        "coq/Model/Timestamp.v, coq/Model/Calendar.v: hand-written model of stix2/utils.py timestamp code and of CPython datetime/strptime/strftime (correspondence-checked each run)",
        "coq/Spec/TimestampSpec.v: strict reader of YYYY-MM-DDTHH:MM:SS[.d+]Z (the specification the model is proved against)",
        "Unicode 15.0 decimal-digit table (nd_zeros) copied from CPython 3.12's unicodedata",
    ]
    run.assumptions += [
        "instants are those of years 1..9999 (Python datetime range); conversions that leave it raise OverflowError and write nothing",
        "theorems: UTC offsets are whole seconds (theorem write_aware needs the offset to be a multiple of the precision unit; "
        "subsecond_offset_excluded shows the hypothesis cannot be dropped). Sub-second offsets exist only as hand-built "
        "datetime.timezone(timedelta(microseconds=..)) objects; they are generated for the correspondence (the model reproduces "
        "the code on them) but are outside the oracle; counts under coverage.out_of_domain",
        "strings the parser rejects (e.g. 7+ fractional digits) are outside 'accepted timestamp strings' (acceptance is C03's concern)",
    ]


TZ_ZONES = ["JST-9", "EST5EDT"]          # POSIX TZ strings: no tz database needed


def impl_run(cases, procs=None, tz=None):
    """common.run_impl, the workers' process time zone set to `tz` (None: as inherited)."""
    if tz is None:
        return common.run_impl("c15_impl", cases, procs=procs)
    old = os.environ.get("TZ")
    os.environ["TZ"] = tz
    try:
        return common.run_impl("c15_impl", cases, procs=procs)
    finally:
        if old is None:
            os.environ.pop("TZ", None)
        else:
            os.environ["TZ"] = old


def local_zone_runs(run, cases, impl, stats):
    """A share of the cases again in workers whose process time zone is not UTC: a naive datetime is UTC by the
    library's rule, an aware one carries its own offset, so every answer must be the same as in the first run."""
    idx = [i for i, c in enumerate(cases) if "dt" in c["in"] and c["in"].get("off") is None]
    idx = idx[:1500] + list(range(0, len(cases), max(1, len(cases) // 1500)))
    idx = sorted(set(idx))
    sub = [cases[i] for i in idx]
    out = []
    for tz in TZ_ZONES:
        res = impl_run(sub, procs=min(common.NCPU, 8), tz=tz)
        nd = 0
        for i, c, r in zip(idx, sub, res):
            if r != impl[i]:
                nd += 1
                if nd <= 20:
                    v = Violation("the answer depends on the time zone of the process (TZ=%s gives %s, TZ unset/UTC gives %s): %s"
                                  % (tz, r, impl[i], describe(c, split_result(r)[0])),
                                  {"cases": [c], "check": "process time zone", "tz": tz, "utc_answer": impl[i]}, None)
                    out.append(v)
        for v in oracle(sub, res, stats):
            v.replay["tz"] = tz
            out.append(v)
        stats["local_zone_cases_" + tz] = len(sub)
        stats["local_zone_differences_" + tz] = nd
    return out


def repeat_runs(run, cases, impl, stats):
    """History / order: a sample of the cases asked again, twice in one interpreter -- in the original order and
    then reversed (so each question comes after different unrelated and failed calls): same answers every time."""
    idx = list(range(0, len(cases), max(1, len(cases) // 1600)))
    out = []
    nd = 0
    for b in range(0, len(idx), 400):
        part = idx[b:b + 400]
        seq = part + part[::-1]
        batch = [cases[i] for i in seq]
        res = impl_run(batch, procs=1)
        for pos, (i, c, r) in enumerate(zip(seq, batch, res)):
            if r != impl[i]:
                nd += 1
                if nd <= 3:
                    # replay: everything this interpreter had handled up to here, then the same question in a fresh
                    # state is the first element of a second group (replay() compares equal questions)
                    out.append(Violation("the answer depends on what the interpreter handled before (asked again: %s, first: %s): %s"
                                         % (r, impl[i], describe(c, split_result(r)[0])),
                                         {"cases": batch[:pos + 1], "check": "history", "expected_last": impl[i]}, None))
        for v in oracle(batch, res, stats):
            v.batch = (batch, 1)
            out.append(v)
    stats["asked_again"] = 2 * len(idx)
    stats["asked_again_differences"] = nd
    return out


def reproducible(v):
    """A replay is run in a fresh interpreter.  If the failure does not show there on its own (it depended on what
    the same worker process had handled before, e.g. a tzinfo object seen earlier), the replay gets the cases that
    preceded it in that process: first only those sharing its time zone, else all of them."""
    batch = getattr(v, "batch", None)
    kind = str(v.replay.get("check")).split(" (")[0].split(": ")[0]

    tz = v.replay.get("tz")

    def shows(cs):
        try:
            res = impl_run(cs, procs=1, tz=tz)
        except RuntimeError:
            return False
        if kind == "process time zone":
            return any(r != v.replay.get("utc_answer") for r in res[-1:])
        if kind == "history":
            return res[-1] != v.replay.get("expected_last")
        return any(str(x.replay.get("check")).split(" (")[0].split(": ")[0] == kind for x in oracle(cs, res))

    cs = v.replay["cases"]
    if shows(cs) or batch is None:
        return v
    allc, procs = batch
    try:
        idx = max(next(i for i, c in enumerate(allc) if c is x) for x in cs)
    except StopIteration:
        return v
    before = [allc[j] for j in range(idx % procs, idx, procs)]
    zones = {c["in"].get("zone") for c in cs if c["in"].get("zone")}
    for pre in ([c for c in before if c["in"].get("zone") in zones] if zones else None, before):
        if pre is None:
            continue
        cand = pre + [c for c in cs if not any(c is b for b in pre)]
        if shows(cand):
            v.replay["cases"] = cand
            v.replay["note"] = "order-dependent: the first %d cases prepare the interpreter state" % len(pre)
            return v
    return v


def first_per_kind(violations):
    """One replay per kind of failure is enough (the first found); the count of the others goes to the evidence."""
    seen, out = set(), []
    for v in violations:
        k = (str(v.replay.get("check")).split(" (")[0].split(": ")[0].split(" '")[0], v.finding)
        if k not in seen:
            seen.add(k)
            out.append(v)
    return out


def replay(payload):
    r = payload["replay"]
    cases = r["cases"]
    impl = impl_run(cases, procs=1, tz=r.get("tz"))
    for c, i in zip(cases, impl):
        print("replay%s %s %s/%s %s -> %s" % (" TZ=" + r["tz"] if r.get("tz") else "", c["k"], c["p"], c["c"], c["in"], i))
    v = oracle(cases, impl)
    if r.get("check") == "history":
        alone = impl_run(cases[-1:], procs=1)
        if alone[0] != impl[-1]:
            print("  the last question gets %s after the others and %s in a fresh interpreter" % (impl[-1], alone[0]))
            print("VIOLATION property=C15 replay=(given)")
            return 1
    if r.get("tz") and r.get("check") == "process time zone":
        utc = impl_run(cases, procs=1, tz="UTC")
        if utc != impl:
            print("  the answers differ from those of a process in UTC: %s" % utc)
            print("VIOLATION property=C15 replay=(given)")
            return 1
    if v:
        for x in v[:3]:
            print("  " + x.what)
        print("VIOLATION property=C15 replay=(given)")
        return 1
    print("no violation on this input")
    return 0

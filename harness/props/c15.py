"""C15 -- timestamps are written in canonical form, truncated, order-preserving.

Model: coq/Model/Calendar.v + coq/Model/Timestamp.v (hand-written, mirrors
stix2/utils.py format_datetime / parse_into_datetime / STIXdatetime and the
strptime call); theorems in coq/Props/C15.v; correspondence of the model with
format_datetime, parse_into_datetime, TimestampProperty.clean + encoder and
timestamp properties of real objects; oracle = the property text evaluated on
the implementation's output with an independent integer-arithmetic reader.
"""
import datetime as dt
import os
import re
import subprocess
from concurrent.futures import ThreadPoolExecutor
from fractions import Fraction

import common
from common import Broken, Violation

MANIFEST = {
    "text": "18 theorems over all instants of years 1..9999 (Z microseconds), the three precisions and two constraints, about "
            "a hand-written Gallina model of format_datetime/parse_into_datetime/strptime: canonical shape with 4-digit year "
            "(full for the zero-padding variant, refuted with year 999 for the unpadded strftime variant), the text read by an "
            "independent strict reader denotes exactly floor(t) to the precision unit (never rounds), digit-count rules, the "
            "library's own reader reads the text back as floor(t), write-read-write fixed point, monotonicity of the denoted "
            "instants, datetime/date/string inputs are written as the text of their UTC instant (whole-second offsets), "
            "and the civil-calendar round trip for every day number in Z.",
    "design_ref": "DESIGN.md 6/C15",
    "note": "Trusted: Coq kernel + vm_compute; the hand model is tied to /repo by a correspondence run on every check "
            "(boundary-biased datetimes, dates, UTC offsets, timestamp strings incl. lenient spellings and near-misses); "
            "CPython datetime/strptime/strftime are modelled, not verified. No axioms. UTC offsets that are not a whole "
            "number of seconds (constructible only by hand with datetime.timezone(timedelta(microseconds=..)); no tz "
            "database has them) are outside the theorems (Props/C15.v subsecond_offset_excluded shows why) and outside the oracle.",
    "technique": "Coq proof over a hand-written executable model + per-run correspondence with the implementation",
}

PC = [("any", "exact"), ("any", "min"), ("second", "exact"), ("second", "min"), ("millisecond", "exact"), ("millisecond", "min")]
COQ_P = {"any": "PAny", "second": "PSecond", "millisecond": "PMilli"}
COQ_C = {"exact": "CExact", "min": "CMin"}
ROUTES = {   # route -> the precision the specification gives that property
    "v20.Identity.created": ("millisecond", "exact"),
    "v21.Identity.created": ("millisecond", "min"),
    "v21.Campaign.first_seen": ("any", "exact"),
    "v20.Indicator.valid_from": ("any", "exact"),
    "v21.WindowsPEBinaryExt.time_date_stamp": ("second", "exact"),
}
YEARS = [1, 999, 1000, 1970, 9999]
YEARS2 = [2, 9, 10, 99, 100, 998, 1001, 1582, 1600, 1900, 1969, 2000, 2016, 2024, 2038, 2100, 2400, 9998]
MICROS = [0, 1, 999, 1000, 1001, 123000, 120000, 100000, 999999]
MICROS2 = [10, 100, 1500, 10000, 99999, 100001, 500000, 999000, 999499, 999500, 999900, 123456, 120001, 900000]
UNIT = {("second", "exact"): 1000000, ("millisecond", "exact"): 1000}
FINDING_YEAR = "C15-year-below-1000-not-zero-padded"

HEADER = """From Coq Require Import ZArith List String.
From V Require Import Model.Timestamp.
Import ListNotations. Open Scope Z_scope.
"""


# --------------------------------------------------------------------------
# generator

def days_in_month(y, m):
    if m == 2:
        return 29 if (y % 4 == 0 and (y % 100 != 0 or y % 400 == 0)) else 28
    return 30 if m in (4, 6, 9, 11) else 31


def gen_fields(rng):
    r = rng.random()
    y = rng.choice(YEARS) if r < 0.35 else rng.choice(YEARS2) if r < 0.55 else rng.randint(1, 9999)
    r = rng.random()
    if r < 0.15:
        m, d = 1, 1
    elif r < 0.3:
        m, d = 12, 31
    elif r < 0.45:
        m = 2
        d = days_in_month(y, 2) if rng.random() < 0.7 else 28
    elif r < 0.5:
        m, d = 3, 1
    else:
        m = rng.randint(1, 12)
        d = rng.choice([1, days_in_month(y, m), rng.randint(1, days_in_month(y, m))])
    r = rng.random()
    if r < 0.2:
        hh, mm, ss = 0, 0, 0
    elif r < 0.4:
        hh, mm, ss = 23, 59, 59
    else:
        hh, mm, ss = rng.randint(0, 23), rng.randint(0, 59), rng.randint(0, 59)
    r = rng.random()
    us = rng.choice(MICROS) if r < 0.5 else rng.choice(MICROS2) if r < 0.65 else rng.randint(0, 999999)
    return [y, m, d, hh, mm, ss, us]


def gen_offset(rng, subsecond=False):
    """(offset in microseconds or None, tz kind)"""
    if subsecond:
        return rng.choice([1, -1, 999, 500000, -500000, 1500, 999999, 3600000000 + 500, -250000]), "std"
    r = rng.random()
    if r < 0.25:
        return None, "std"
    if r < 0.4:
        return 0, rng.choice(["pytz", "utc", "std"])
    if r < 0.7:
        return rng.randint(-14, 14) * 3600000000, rng.choice(["pytz", "std"])
    if r < 0.85:
        return rng.choice([19800, 20700, -34200, 45900, -12600, 50400, -50400, 86340, -86340]) * 1000000, rng.choice(["pytz", "std"])
    return rng.choice([3208, -3208, 1, -1, 86399, -86399, rng.randint(-86399, 86399)]) * 1000000, "std"


UDIGITS = [0x660, 0x6F0, 0x966, 0xFF10, 0x1D7CE, 0x1E950]


def canon_text(f, frac):
    y, m, d, hh, mm, ss, _ = f
    return "%04d-%02d-%02dT%02d:%02d:%02d%sZ" % (y, m, d, hh, mm, ss, ("." + frac) if frac is not None else "")


def gen_fraction(rng, f):
    n = rng.choice([None, 0, 1, 2, 3, 3, 4, 5, 6, 6, 7, 8, 9]) if rng.random() < 0.8 else rng.randint(1, 9)
    if n is None:
        return None
    if n == 0:
        return ""
    if n <= 6 and rng.random() < 0.5:
        return ("%06d" % f[6])[:n]
    r = rng.random()
    if r < 0.2:
        return "0" * n
    if r < 0.4:
        return "9" * n
    if r < 0.5:
        return "0" * (n - 1) + "1"
    return "".join(rng.choice("0123456789") for _ in range(n))


def gen_string(rng):
    """(string, class) -- canonical, lenient spelling, or near-miss."""
    f = gen_fields(rng)
    frac = gen_fraction(rng, f)
    s = canon_text(f, frac)
    r = rng.random()
    if r < 0.45:
        return s, "canonical"
    y, m, d, hh, mm, ss, _ = f
    fr = ("." + frac) if frac is not None else ""
    if r < 0.7:   # lenient spellings strptime is known to accept
        k = rng.randrange(8)
        if k == 0:
            return s.replace("T", "t"), "lenient"
        if k == 1:
            return s.replace("Z", "z"), "lenient"
        if k == 2:
            return "%04d-%d-%dT%d:%d:%d%sZ" % (y, m, d, hh, mm, ss, fr), "lenient"
        if k == 3:
            return "%04d-%02d-%2dT%02d:%02d:%02d%sZ" % (y, m, d, hh, mm, ss, fr), "lenient"
        if k == 4:   # one field with a single digit
            parts = ["%02d" % m, "%02d" % d, "%02d" % hh, "%02d" % mm, "%02d" % ss]
            i = rng.randrange(5)
            parts[i] = str(int(parts[i]))
            return "%04d-%s-%sT%s:%s:%s%sZ" % ((y,) + tuple(parts) + (fr,)), "lenient"
        if k == 5:   # Unicode decimal digits somewhere
            z = rng.choice(UDIGITS)
            pos = [i for i, ch in enumerate(s) if ch.isdigit()]
            i = rng.choice(pos)
            return s[:i] + chr(z + int(s[i])) + s[i + 1:], "lenient"
        if k == 6:   # all digits of the date part in another script
            z = rng.choice(UDIGITS)
            return "".join(chr(z + int(ch)) if ch.isdigit() and i < 4 else ch for i, ch in enumerate(s)), "lenient"
        return s.lower(), "lenient"
    k = rng.randrange(22)   # near misses
    alts = [
        s[:-1], s + "\n", " " + s, s + " ", s.replace("T", " "), s.replace("Z", "+00:00"),
        "%04d-%02d-%02dT%02d:%02d:60%sZ" % (y, m, d, hh, mm, fr), "%04d-%02d-%02dT24:%02d:%02d%sZ" % (y, m, d, mm, ss, fr),
        "%04d-02-30T%02d:%02d:%02d%sZ" % (y, hh, mm, ss, fr), "%04d-13-%02dT%02d:%02d:%02d%sZ" % (y, d, hh, mm, ss, fr),
        "%04d-00-%02dT%02d:%02d:%02d%sZ" % (y, d, hh, mm, ss, fr), "0000" + s[4:], "1" + s, s[1:] if s[0] == "0" else s[2:],
        s.replace(".", ".."), s.replace(".", ","), s.replace("-", "/"), s[:10] + "T" + s[10:],
        "%04d-%02d-%02dT%02d:%02d:%02d.Z" % (y, m, d, hh, mm, ss), s.replace(":", ".", 1), s.replace("Z", "ZZ"),
        "%04d-02-29T%02d:%02d:%02d%sZ" % (y, hh, mm, ss, fr),
    ]
    return alts[k], "nearmiss"


def gen_cases(run, scale):
    rng = run.rng
    cases = []

    def add(k, p, c, inp, **kw):
        d = {"k": k, "p": p, "c": c, "in": inp}
        d.update(kw)
        cases.append(d)

    def dt_input(cls=None, subsecond=False):
        off, tz = gen_offset(rng, subsecond)
        d = {"dt": gen_fields(rng), "off": off, "tz": tz}
        if cls:
            d["cls"] = cls
        return d

    for _ in range(int(2500 * scale)):     # format_datetime on STIXdatetime / datetime
        if rng.random() < 0.8:
            p, c = rng.choice(PC)
            add("fmt", p, c, dt_input("stix"))
        else:
            add("fmt", "any", "exact", dt_input())
    for _ in range(int(3000 * scale)):     # parse_into_datetime on datetimes and dates
        p, c = rng.choice(PC)
        if rng.random() < 0.12:
            f = gen_fields(rng)
            add("parse", p, c, {"date": f[:3]})
        else:
            add("parse", p, c, dt_input())
    for _ in range(int(2000 * scale)):     # TimestampProperty.clean + encoder
        p, c = rng.choice(PC)
        r = rng.random()
        if r < 0.1:
            add("prop", p, c, {"date": gen_fields(rng)[:3]})
        elif r < 0.75:
            add("prop", p, c, dt_input())
        else:
            add("prop", p, c, {"str": gen_string(rng)[0]})
    for _ in range(int(1200 * scale)):     # timestamp properties of real objects
        route = rng.choice(sorted(ROUTES))
        p, c = ROUTES[route]
        r = rng.random()
        if r < 0.7:
            add("obj", p, c, dt_input(), route=route)
        else:
            add("obj", p, c, {"str": gen_string(rng)[0]}, route=route)
    for _ in range(int(3000 * scale)):     # timestamp strings
        p, c = rng.choice(PC)
        s, cl = gen_string(rng)
        add("parse", p, c, {"str": s}, scls=cl)
    for sp, sc in PC:                      # STIXdatetime values parsed earlier at another precision/constraint
        for tp, tc in PC:
            for _ in range(max(1, int(12 * scale))):
                inp = dt_input()
                if inp["dt"][6] % 1000 == 0:
                    inp["dt"][6] = rng.choice([1, 999, 1001, 123456, 120001, 999999, 500500])
                inp["src"] = [sp, sc]
                r = rng.random()
                if r < 0.45:
                    add("prop", tp, tc, inp)
                elif r < 0.7:
                    add("parse", tp, tc, inp)
                else:
                    routes = [rt for rt in sorted(ROUTES) if ROUTES[rt] == (tp, tc)]
                    if routes:
                        add("obj", tp, tc, inp, route=rng.choice(routes))
                    else:
                        add("prop", tp, tc, inp)
    for _ in range(int(150 * scale)):      # sub-second UTC offsets (legal in Python >= 3.7)
        p, c = rng.choice(PC)
        add(rng.choice(["parse", "prop"]), p, c, dt_input(subsecond=True))
    return cases


def search_cases(run):
    """Used only when an obligation or the correspondence broke: 40k more generated inputs plus a dense sweep of
    microsecond values at every precision/constraint and write route."""
    class R:      # gen_cases only needs .rng
        rng = run.rng
    cases = gen_cases(R, 2.0)
    for us in list(range(0, 3000)) + list(range(997000, 1000000)) + [run.rng.randint(0, 999999) for _ in range(3000)]:
        p, c = PC[us % 6]
        k = ("parse", "fmt", "prop")[(us // 6) % 3]
        f = [run.rng.choice(YEARS), 1, 1, 23, 59, 59, us]
        if k == "fmt":
            cases.append({"k": k, "p": p, "c": c, "in": {"dt": f, "off": None, "tz": "std", "cls": "stix"}})
        else:
            cases.append({"k": k, "p": p, "c": c, "in": {"dt": f, "off": 0, "tz": "utc"}})
    return cases


def boundary_grid():
    """Deterministic grid run on the implementation + oracle only (cheap):
    every boundary microsecond value x every precision/constraint x the
    write routes, at a few dates.  This is where a changed digit rule shows."""
    cases = []
    dates = [[1970, 1, 1, 0, 0, 0], [2016, 2, 29, 23, 59, 59], [9999, 12, 31, 23, 59, 59], [1000, 1, 1, 0, 0, 0]]
    for us in MICROS + MICROS2:
        for p, c in PC:
            for f in dates:
                cases.append({"k": "parse", "p": p, "c": c, "in": {"dt": f + [us], "off": 0, "tz": "pytz"}})
                cases.append({"k": "fmt", "p": p, "c": c, "in": {"dt": f + [us], "off": None, "tz": "std", "cls": "stix"}})
            cases.append({"k": "prop", "p": p, "c": c, "in": {"str": "2016-02-29T23:59:59.%06dZ" % us}})
        for route in sorted(ROUTES):
            p, c = ROUTES[route]
            cases.append({"k": "obj", "p": p, "c": c, "route": route, "in": {"dt": [2017, 3, 4, 5, 6, 7, us], "off": None, "tz": "std"}})
    # a timestamp cleaned at one precision/constraint handed to a property of every other one
    for us in (1, 999, 1001, 123456, 999999):
        for sp, sc in PC:
            for tp, tc in PC:
                inp = {"dt": [2016, 2, 29, 23, 59, 59, us], "off": 0, "tz": "utc", "src": [sp, sc]}
                cases.append({"k": "prop", "p": tp, "c": tc, "in": inp})
                for route in sorted(ROUTES):
                    if ROUTES[route] == (tp, tc):
                        cases.append({"k": "obj", "p": tp, "c": tc, "route": route, "in": inp})
    return cases


# --------------------------------------------------------------------------
# model terms

def coq_off(off):
    return "None" if off is None else "(Some %s)" % common.coq_Z(off)


def coq_dt(f):
    return "(dt %s)" % " ".join(common.coq_Z(x) for x in f)


def coq_input(inp, nm="NaiveKept"):
    if "src" in inp:
        plain = {k: v for k, v in inp.items() if k != "src"}
        return "(reparse %s %s %s %s)" % (nm, COQ_P[inp["src"][0]], COQ_C[inp["src"][1]], coq_input(plain))
    if "str" in inp:
        return "(InStr %s)" % common.coq_ustr(inp["str"])
    if "date" in inp:
        return "(InDate %s)" % " ".join(common.coq_Z(x) for x in inp["date"])
    return "(InDatetime %s %s)" % (coq_dt(inp["dt"]), coq_off(inp.get("off")))


def model_term(case, ym, nm="NaiveKept"):
    p, c = COQ_P[case["p"]], COQ_C[case["c"]]
    if case["k"] == "fmt":
        return "show_text (format_dt %s %s %s %s %s)" % (ym, p, c, coq_dt(case["in"]["dt"]), coq_off(case["in"].get("off")))
    if case["k"] == "parse":
        return "show_parsed %s %s %s %s %s" % (nm, ym, p, c, coq_input(case["in"], nm))
    return "show_text (write %s %s %s %s %s)" % (nm, ym, p, c, coq_input(case["in"], nm))


# --------------------------------------------------------------------------
# extraction route (thorough tier): the same model compiled to OCaml (extract/c15)

EXTRACT_DIR = os.path.join(common.VERIF, "extract", "c15")
XP = {"any": "a", "second": "s", "millisecond": "m"}
XC = {"exact": "e", "min": "m"}


def build_extracted():
    """coqc the extraction file against the built development, then ocamlopt; -> path of the executable"""
    for cmd in (["timeout", "600", "coqc", "-Q", common.COQ, "V", "Extract.v"],
                ["timeout", "600", "ocamlfind", "ocamlopt", "-w", "-a", "c15model.mli", "c15model.ml", "driver.ml", "-o", "c15model.exe"]):
        p = subprocess.run(cmd, cwd=EXTRACT_DIR, stdout=subprocess.PIPE, stderr=subprocess.STDOUT, text=True)
        if p.returncode != 0:
            raise RuntimeError("%s failed:\n%s" % (" ".join(cmd[2:4]), p.stdout[-1500:]))
    return os.path.join(EXTRACT_DIR, "c15model.exe")


def extracted_line(case, ym, nm):
    inp = case["in"]
    k = {"fmt": 0, "parse": 1}.get(case["k"], 2)
    src = "-" if "src" not in inp else XP[inp["src"][0]] + XC[inp["src"][1]]
    if "str" in inp:
        body = "str " + (",".join(str(ord(ch)) for ch in inp["str"]) or "-")
    elif "date" in inp:
        body = "date %d %d %d" % tuple(inp["date"])
    else:
        body = "dt %s %s" % (" ".join(str(x) for x in inp["dt"]), "N" if inp.get("off") is None else inp["off"])
    return "%d %s %s %s %s %s %s" % (k, "K" if nm == "NaiveKept" else "U", "U" if ym == "Unpadded" else "P",
                                     XP[case["p"]], XC[case["c"]], src, body)


def eval_extracted(exe, cases, ym, nm):
    lines = [extracted_line(c, ym, nm) for c in cases]
    n = max(1, common.NCPU)
    size = (len(lines) + n - 1) // n
    chunks = [lines[i:i + size] for i in range(0, len(lines), size)]

    def run(chunk):
        p = subprocess.run([exe], input="\n".join(chunk) + "\n", stdout=subprocess.PIPE, stderr=subprocess.PIPE, text=True)
        out = p.stdout.split("\n")
        if out and out[-1] == "":
            out.pop()
        if p.returncode != 0 or len(out) != len(chunk):
            raise RuntimeError("extracted model failed: rc=%s, %d results for %d cases\n%s"
                               % (p.returncode, len(out), len(chunk), p.stderr[-800:]))
        return out

    res = []
    with ThreadPoolExecutor(max_workers=n) as ex:
        for part in ex.map(run, chunks):
            res.extend(part)
    return res


# --------------------------------------------------------------------------
# the property, evaluated on the implementation's observable output

CANON = re.compile(r"^(\d{4})-(\d{2})-(\d{2})T(\d{2}):(\d{2}):(\d{2})(?:\.(\d+))?Z$", re.ASCII)
RELAXED_YEAR = re.compile(r"^(\d{1,4})-(\d{2})-(\d{2})T(\d{2}):(\d{2}):(\d{2})(?:\.(\d+))?Z$", re.ASCII)
LENIENT_IN = re.compile(r"^(\d{4})-(\d\d?)-( ?\d\d?)[Tt](\d\d?):(\d\d?):(\d\d?)(?:\.(\d+))?[Zz]$")


def instant(y, m, d, hh, mm, ss, frac):
    """Exact instant in microseconds since 0001-01-01 (Fraction), or None if
    the fields are not a date/time of the proleptic Gregorian calendar."""
    if not (1 <= y <= 9999 and 1 <= m <= 12 and 1 <= d <= days_in_month(y, m) and hh < 24 and mm < 60 and ss < 60):
        return None
    days = dt.date(y, m, d).toordinal() - 1
    t = Fraction(((days * 24 + hh) * 60 + mm) * 60 + ss) * 1000000
    if frac:
        t += Fraction(int(frac) * 1000000, 10 ** len(frac))
    return t


def read_written(text):
    """(strictly canonical?, instant, fraction digits) of an output text."""
    m = CANON.match(text)
    strict = bool(m)
    if not m:
        m = RELAXED_YEAR.match(text)
        if not m:
            return False, None, None
    g = m.groups()
    return strict, instant(*[int(x) for x in g[:6]], g[6]), g[6] or ""


def input_instant(inp):
    """The UTC instant the input denotes, by integer arithmetic independent of
    the library; None when the input is a string that is no timestamp."""
    if "str" in inp:
        m = LENIENT_IN.match(inp["str"])
        if not m:
            return None
        g = m.groups()
        try:
            return instant(*[int(x) for x in g[:6]], g[6])
        except ValueError:
            return None
    if "date" in inp:
        return instant(*inp["date"], 0, 0, 0, None)
    f = inp["dt"]
    t = instant(*f[:6], None) + f[6]
    if "src" in inp:        # already truncated once, at the precision it was first parsed with
        u = UNIT.get(tuple(inp["src"]), 1)
        t = (t // u) * u
    return t - (inp.get("off") or 0)


def split_result(res):
    out, _, again = res.partition(" || ")
    return out, again


def written_text(case, out):
    """The timestamp text the library wrote for this case, or None."""
    if not out.startswith("OK "):
        return None
    if case["k"] == "parse":
        parts = out.split(" ", 3)
        t = parts[3] if len(parts) > 3 else ""
        if t.endswith(" PRECISION-LOST"):
            t = t[:-len(" PRECISION-LOST")]
        return None if t.startswith("EXC ") else t
    return out[3:]


def digits_ok(p, c, frac, exact_us):
    """The digit-count rule of the precision; exact_us = microsecond part of the written instant."""
    if (p, c) == ("second", "exact"):
        return frac == ""
    if (p, c) == ("millisecond", "exact"):
        return len(frac) == 3
    if (p, c) == ("millisecond", "min"):
        return len(frac) >= 3 and (len(frac) == 3 or not frac.endswith("0"))
    # any / second-or-better: no fraction for whole seconds, otherwise minimal digits
    return (frac == "") if exact_us == 0 else (frac != "" and not frac.endswith("0"))


def oracle(cases, results, stats=None):
    stats = {} if stats is None else stats
    out = []
    groups = {}
    for case, res in zip(cases, results):
        o, again = split_result(res)
        text = written_text(case, o)
        if text is None:
            continue
        p, c = case["p"], case["c"]
        t_in = input_instant(case["in"])
        strict, t_out, frac = read_written(text)
        off = case["in"].get("off") or 0
        subsec = off % 1000000 != 0
        year_class = (not strict and t_out is not None and re.match(r"^\d{1,3}-", text) is not None)

        def viol(what, finding=None):
            out.append(Violation("%s: %s" % (what, describe(case, text)), {"cases": [case], "check": what}, finding))

        if not strict:
            viol("not of the form YYYY-MM-DDTHH:MM:SS[.fraction]Z with a four-digit year", FINDING_YEAR if year_class else None)
        if t_out is None:
            continue
        if t_in is not None:
            unit = UNIT.get((p, c), 1)
            want = (t_in // unit) * unit
            if subsec:
                # out of the property's realistic domain (see MANIFEST note): only counted
                stats["subsecond_offset_cases"] = stats.get("subsecond_offset_cases", 0) + 1
                stats["subsecond_offset_deviating"] = stats.get("subsecond_offset_deviating", 0) + int(t_out != want)
            elif t_out != want:
                viol("written instant is not the input instant truncated to the precision (written %s us, expected %s us)"
                     % (t_out, want))
            if not digits_ok(p, c, frac, t_out % 1000000):
                viol("wrong number of fractional digits for precision %s/%s" % (p, c))
            if not subsec:
                groups.setdefault((p, c), []).append((t_in, t_out, case, text))
        if again != text:
            viol("write-read-write is not a fixed point (second write gives %s)" % again, FINDING_YEAR if year_class else None)
    for (p, c), g in groups.items():      # later instants are never written as earlier ones
        g.sort(key=lambda x: x[0])
        best = None
        for t_in, t_out, case, text in g:
            if best is not None and t_out < best[1] and t_in > best[0]:
                out.append(Violation("a later instant is written as an earlier one: %s then %s" % (describe(best[2], best[3]), describe(case, text)),
                                     {"cases": [best[2], case], "check": "monotone"}, None))
            if best is None or t_out > best[1]:
                best = (t_in, t_out, case, text)
    return out


def describe(case, text):
    return "%s(%s, %s/%s) wrote %r" % (case["k"] + (":" + case["route"] if "route" in case else ""), case["in"], case["p"], case["c"], text)


# --------------------------------------------------------------------------

WITNESS = {"k": "fmt", "p": "any", "c": "exact", "in": {"dt": [999, 1, 2, 3, 4, 5, 0], "off": None, "tz": "std"}}


NAIVE_PROBE = {"k": "parse", "p": "any", "c": "exact", "in": {"dt": [2020, 1, 2, 3, 4, 5, 6], "off": None, "tz": "std"}}


def select_variant(run):
    """Run the witness of fmt_canonical_refuted on the implementation (year mode), and a naive datetime
    through parse_into_datetime (kept naive, or localised to UTC: both satisfy the property)."""
    res, res2 = common.run_impl("c15_impl", [WITNESS, NAIVE_PROBE], procs=1)
    o, _ = split_result(res)
    if o == "OK 999-01-02T03:04:05Z":
        ym = "Unpadded"
    elif o == "OK 0999-01-02T03:04:05Z":
        ym = "Pad4"
    else:
        run.broken.append(Broken("correspondence", "year-mode witness matches neither variant", {"observed": o}))
        ym = "Pad4"
    parts = split_result(res2)[0].split(" ")
    if len(parts) >= 3 and parts[0] == "OK" and parts[2] == "naive":
        nm = "NaiveKept"
    elif len(parts) >= 3 and parts[0] == "OK" and parts[2] == "0":
        nm = "NaiveUtc"
    else:
        run.broken.append(Broken("correspondence", "naive-datetime probe matches neither variant", {"observed": res2}))
        nm = "NaiveUtc"
    return ym, nm


def check(run):
    thorough = run.tier == "thorough"
    scale = 80.0 if thorough else 1.0
    run.coverage["rule"] = (
        "boundary-biased datetimes (years {1,999,1000,1970,9999}+random, boundary microseconds, naive/aware, UTC offsets "
        "-14h..+14h incl. odd-second and sub-second ones, date objects) and timestamp strings (fraction lengths 0-9, "
        "lenient spellings, near-misses) through format_datetime, parse_into_datetime, TimestampProperty.clean+encoder and "
        "real object properties, at every precision/constraint; a case is non-trivial when the implementation wrote a timestamp "
        "(was not rejected)")
    import time
    t0 = time.time()
    phases = run.coverage.setdefault("phase_s", {})
    with common.Lock():
        phases["lock_wait"] = round(time.time() - t0, 1)
        res = common.build_props("Props/C15.v")
        run.add_build(res, "make -C coq Props/C15.vo (coqc 8.16.1, full .vo) + Print Assumptions per theorem")
    phases["build"] = round(time.time() - t0, 1)
    ym, nm = select_variant(run)
    run.coverage["variant_selected"] = {"year_mode": ym, "naive_mode": nm}
    cases = gen_cases(run, scale)
    impl = common.run_impl("c15_impl", cases)
    phases["impl"] = round(time.time() - t0, 1)
    hist = {}
    for c, r in zip(cases, impl):
        o, _ = split_result(r)
        nt = written_text(c, o) is not None
        run.count(c, nontrivial=nt)
        key = "%s/%s" % (c["k"], "str" if "str" in c["in"] else "date" if "date" in c["in"] else "datetime")
        h = hist.setdefault(key, {"cases": 0, "written": 0})
        h["cases"] += 1
        h["written"] += int(nt)
    run.coverage["distribution"] = hist
    for i in (0, len(cases) // 3, len(cases) // 2, len(cases) - 400, len(cases) - 1):
        run.sample({"case": cases[i], "impl": impl[i]})
    def compare(model, which, subset=None):
        idx = range(len(cases)) if subset is None else subset
        dis = [(cases[i], impl[i], m) for i, m in zip(idx, model) if split_result(impl[i])[0] != m]
        run.coverage["correspondence_cases_" + which] = len(model)
        run.coverage["correspondence_disagreements"] = run.coverage.get("correspondence_disagreements", 0) + len(dis)
        if dis:
            run.coverage["correspondence_first_disagreements"] = [{"case": c, "impl": i, "model": m} for c, i, m in dis[:5]]
            run.broken.append(Broken("correspondence", "Model/Timestamp.v (%s, %s, %s route) vs stix2.utils / TimestampProperty" % (ym, nm, which),
                                     {"first": [{"case": c, "impl": i, "model": m} for c, i, m in dis[:8]]}))

    try:
        if thorough:
            # volume through the extracted OCaml model; a sample of the same cases through the kernel so that
            # the two evaluation routes check each other
            exe = build_extracted()
            xmodel = eval_extracted(exe, cases, ym, nm)
            compare(xmodel, "extracted")
            step = max(1, len(cases) // 20000)
            sample = list(range(0, len(cases), step))
            kmodel = common.coq_eval_lines("c15m", HEADER, [model_term(cases[i], ym, nm) for i in sample], shard=450)
            compare(kmodel, "kernel", sample)
            rd = [(cases[i], k, xmodel[i]) for i, k in zip(sample, kmodel) if k != xmodel[i]]
            run.coverage["routes"] = {"extracted": len(xmodel), "kernel_sample": len(kmodel), "route_disagreements": len(rd)}
            if rd:
                run.broken.append(Broken("correspondence", "kernel route vs extracted route",
                                         {"first": [{"case": c, "kernel": k, "extracted": x} for c, k, x in rd[:5]]}))
        else:
            model = common.coq_eval_lines("c15m", HEADER, [model_term(c, ym, nm) for c in cases], shard=450)
            compare(model, "kernel")
        run.coverage["correspondence_cases"] = len(cases)
        run.coverage.setdefault("correspondence_disagreements", 0)
    except RuntimeError as e:
        run.broken.append(Broken("correspondence", "model evaluation failed", {"error": str(e)[-1500:]}))
    phases["model"] = round(time.time() - t0, 1)
    # the property itself on the implementation: the variant witness first (so that it is the replay when the
    # unpadded variant is back), then the deterministic boundary grid and every generated case
    stats = {}
    grid = [WITNESS] + boundary_grid()
    grid_impl = common.run_impl("c15_impl", grid, procs=4)
    for c in grid:
        run.count(c, nontrivial=True)
    run.violations += oracle(grid + cases, grid_impl + impl, stats)
    run.coverage["oracle_cases"] = len(cases) + len(grid)
    if run.broken and not run.violations:
        # something no longer checks but no generated input fails the property: search at higher volume
        # (implementation + oracle only, no model needed) around the places a changed rule shows
        extra = search_cases(run)
        extra_impl = common.run_impl("c15_impl", extra)
        run.violations += oracle(extra, extra_impl, stats)
        run.coverage["search_cases"] = len(extra)
    run.coverage["out_of_domain"] = stats
    run.coverage["failing_cases_found"] = len(run.violations)
    run.violations[:] = first_per_kind(run.violations)
    run.coverage["trusted_base"] += [
        "coq/Model/Timestamp.v, coq/Model/Calendar.v: hand-written model of stix2/utils.py timestamp code and of CPython datetime/strptime/strftime (correspondence-checked each run)",
        "coq/Spec/TimestampSpec.v: strict reader of YYYY-MM-DDTHH:MM:SS[.d+]Z (the specification the model is proved against)",
        "Unicode 15.0 decimal-digit table (nd_zeros) copied from CPython 3.12's unicodedata",
    ]
    run.assumptions += [
        "instants are those of years 1..9999 (Python datetime range); conversions that leave it raise OverflowError and write nothing",
        "UTC offsets are whole seconds (theorem write_aware needs the offset to be a multiple of the precision unit; "
        "subsecond_offset_excluded shows the hypothesis cannot be dropped). Sub-second offsets exist only as hand-built "
        "datetime.timezone(timedelta(microseconds=..)) objects; they are generated for the correspondence (the model reproduces "
        "the code on them) but are outside the oracle; counts under coverage.out_of_domain",
        "strings the parser rejects (e.g. 7+ fractional digits) are outside 'accepted timestamp strings' (acceptance is C03's concern)",
    ]


def first_per_kind(violations):
    """One replay per kind of failure is enough (the first found); the count of the others goes to the evidence."""
    seen, out = set(), []
    for v in violations:
        k = (str(v.replay.get("check")).split(" (")[0].split(": ")[0].split(" '")[0], v.finding)
        if k not in seen:
            seen.add(k)
            out.append(v)
    return out


def replay(payload):
    r = payload["replay"]
    cases = r["cases"]
    impl = common.run_impl("c15_impl", cases, procs=1)
    for c, i in zip(cases, impl):
        print("replay %s %s/%s %s -> %s" % (c["k"], c["p"], c["c"], c["in"], i))
    v = oracle(cases, impl)
    if v:
        for x in v[:3]:
            print("  " + x.what)
        print("VIOLATION property=C15 replay=(given)")
        return 1
    print("no violation on this input")
    return 0

"""C01 -- serialize/parse round trip is lossless for every object and option set.

Oracle (harness/impl/c01_impl.py): generated objects of every registered
class of both spec versions, through parse() and through the constructor, with
and without custom content; under every sampled combination of serialization
options the text parses back (no version named) to the same class, `==` the
original, re-serializes byte-identically; all option sets denote one JSON
value up to omitted default-valued optionals; pretty output keeps the
top-level specification order (frozen tables).
Model: coq/Model/Serialize.v over the shared schema interpreter; theorems in
coq/Props/C01.v.
"""
import copy
import json
import os
import sys

import common
from common import Broken, Violation
import stixgen
from props import schema_common as sc

MANIFEST = {
    "text": "Coq theorems over the schema-interpreter model, all fuels. SCOPE OF EVERY ROUND-TRIP THEOREM: (i) the model variant "
            "must have vr_year_pad = true (years written with four digits), and the class lists below are evaluated by the "
            "kernel at variant_repaired, i.e. they also rely on vr_positional_none (positional __init__ drops only None), "
            "vr_md20_default_ms (2.0 MarkingDefinition clock default at millisecond precision) and vr_bundle20_recheck (2.0 "
            "Bundle re-checks parsed members) -- on a tree without those repairs the corresponding classes fall out; (ii) the "
            "input must be 'plain' (plain_dict / plain_json): NO member named `extensions` or `custom_properties` at any depth "
            "and no null / [] member value -- so no object carrying any extension (registered or custom) is covered by a "
            "theorem, although the property says 'with or without custom content'; custom PROPERTIES (x_foo ...) are covered, "
            "extensions only by the oracle; (iii) a 2.1 observable must be given with its id. Theorems: clean_encode_idem "
            "(re-cleaning an encoded value is the identity, per property kind); roundtrip_equal_partial / "
            "reserialize_identical_partial (constructor level: the constructor returns the same object from the object's own "
            "encoding, hence the same ordered members under every option set) for 119 of the 123 generated classes incl. "
            "Relationship, Sighting, both MarkingDefinition classes and 2.1 Indicator; roundtrip_equal_parse_partial: the same at "
            "stix2.parse level (no version named) for 89 entry-point classes incl. MarkingDefinition and 2.1 Indicator; "
            "roundtrip_equal_bundle_partial (constructor level): both Bundle classes, every member a dictionary stored as an "
            "object of one of those 89 classes (a member of an unregistered type, or an ObservedData / Bundle member, is "
            "outside); roundtrip_equal_observed_partial: 2.1/ObservedData without an `objects` member; "
            "roundtrip_equal_observed20_partial: 2.0/ObservedData with its objects dictionary. 'Every one of the 123 classes "
            "has a theorem' is a CONSTRUCTOR-LEVEL statement: at stix2.parse level -- the level the property speaks about -- "
            "Bundle and both ObservedData classes are outside (89 of 123), as is 2.1/ObservedData given the deprecated objects "
            "dictionary at either level. Serialization layer: options_same_value (sort_keys / pretty only permute members, at "
            "every depth), pretty_toplevel_order and pretty_toplevel_spec_order_partial (for a constructed object of a covered "
            "class the pretty top-level order is the class's specification order followed by the custom names, which form a "
            "usort-fixpoint, i.e. are sorted and duplicate-free); indent_compact_irrelevant and encoders_differ_by_defaulted are "
            "DEFINITIONAL facts of the model (serialize_value ignores indent/separators by construction; the second re-reads "
            "the defaulted test of `encode`): they say nothing about the JSON text, which is abstract here. Positive instances "
            "(Examples in Props/C01.v): a 2.1 identity, a 2.1 bundle with it, a 2.0 observed-data with file + directory. "
            "Model tied to /repo by regenerated class tables and a correspondence run of serialize under every option; the "
            "property itself is evaluated on the real library for generated objects of every class (with extensions, custom "
            "content, derived objects) under sampled option sets.",
    "design_ref": "DESIGN.md 6/C02,C03,C04,C01 (T C01)",
    "note": "Trusted: Coq kernel + vm_compute, tr_tables translator, frozen spec tables, simplejson text layer (abstract: "
            "byte identity of texts is checked by the oracle only), the generator. Python-only values (datetime) inside custom "
            "properties are outside the statement (DESIGN 6). Theorem hypotheses not discharged for the pinned tree: "
            "vr_year_pad, vr_positional_none, vr_md20_default_ms, vr_bundle20_recheck (all fixed in /repo HEAD; detected per run). "
            "The oracle worker runs under the POSIX zone IST-5:30 and a PYTHONHASHSEED other than the driver's; an exception of "
            "the oracle itself is reported per case (oracle-could-not-evaluate-the-case), never swallowed. Open known findings "
            "(known_findings.d/C01.json): a MarkingDefinition whose definition OBJECT carries custom content cannot be read "
            "back; a registered toplevel-property-extension given without extension_type does not read back equal (fix proposed).",
    "technique": "Coq proof over an executable model + correspondence run + property oracle on the implementation",
}

# ------------------------------------------------------------------ option sets


def all_option_sets():
    out = []
    for pretty in (False, True):
        for incl in (False, True):
            for sk in (False, True):
                for indent in (None, 2):
                    for compact in (False, True):
                        o = {}
                        if pretty:
                            o["pretty"] = True
                        if incl:
                            o["include_optional_defaults"] = True
                        if sk:
                            o["sort_keys"] = True
                        if indent is not None:
                            o["indent"] = indent
                        if compact:
                            o["separators"] = [",", ":"]
                        out.append(o)
    out.append({"ensure_ascii": False})
    out.append({"ensure_ascii": False, "pretty": True, "include_optional_defaults": True})
    return out


ALL_OPTS = all_option_sets()
CORE_OPTS = [{}, {"include_optional_defaults": True}, {"pretty": True}, {"pretty": True, "include_optional_defaults": True},
             {"sort_keys": True}, {"separators": [",", ":"]}]


def pick_opts(rng, full):
    if full:
        return list(ALL_OPTS)
    rest = [o for o in ALL_OPTS if o not in CORE_OPTS]
    return CORE_OPTS + rng.sample(rest, 3)


# ------------------------------------------------------------------ custom content (JSON-representable)

CUSTOM_VALUES = [
    "v", "", "café \U0001F600", "line\nbreak\ttab\u0000nul\u007f", 0, 1, -1, 2 ** 63, 2 ** 70, True, False, 1.5, -0.0, 1e21, 1e-7,
    0.1, 123456.789, ["a", 1, 2.5, True, None], {"k": "v"}, {"0": "zero", "10": "ten", "2": "two"},
    {"name": "nested name", "id": "nested id", "type": "nested type"}, [{"b": 1, "a": 2}, {"a": 3, "b": 4}],
    {"zeta": {"alpha": 1, "Beta": 2}, "alpha": [1, {"z": 1, "a": 2}]},
    "2016-01-01T00:00:00Z", "2016-01-01T00:00:00.000000Z",
]
# sizes / depths on both sides of plausible bounds, numbers at representation boundaries, text shapes
def _nest(depth):
    v = {"leaf": 1}
    for i in range(depth):
        v = {"k%d" % (i % 3): v, "a": i} if i % 2 else [v, i]
    return v


CUSTOM_VALUES += [list(range(n)) for n in (2, 9, 10, 11, 63, 64, 65, 100, 101, 255, 256)]
CUSTOM_VALUES += [{("k%03d" % i): i for i in range(n)} for n in (10, 11, 64, 65)]
CUSTOM_VALUES += [_nest(d) for d in (2, 9, 10, 11, 30)]
CUSTOM_VALUES += ["x" * n for n in (1, 255, 256)]
CUSTOM_VALUES += [7.0, -7.0, 2 ** 53 + 1, -(2 ** 53) - 1, 10 ** 21, 10 ** 22 + 1, 10 ** 400, 1e22, 1e16, 1.5e300, 5e-324, 2.5e-5,
                  123456789.12345678, 0.1 + 0.2, 100.0, 1e2, -1e-7]
CUSTOM_VALUES += ["quote \" and \\ backslash / slash", "multi__under___score", "UPPER-hex-ABCDEF", "a\u2028b\u2029c", "\U0001F600\U0001F9EA",
                  "2016-01-01T00:00:00.5Z", "2016-01-01T00:00:00.250Z", "0999-01-01T00:00:00Z"]
CUSTOM_NAMES21 = ["x_foo", "x_a", "foo", "zzz_last", "abc", "x_created", "name_x", "x__double", "x_a_b_c", "spec_version_x", "x_type"]
CUSTOM_NAMES20 = CUSTOM_NAMES21 + ["X_upper", "_lead", "0", "7", "x-dash"]


def inject_custom(gen, cid, o):
    """JSON-representable custom content added to a generated object (allow_custom=True cases)."""
    r = gen.rng
    c = gen.classes[cid]
    names = CUSTOM_NAMES20 if c["ver"] == "2.0" else CUSTOM_NAMES21
    slot_names = {s["name"] for s in c["slots"]}
    for n in r.sample(names, r.choice([1, 1, 2, 3])):
        if n in slot_names:
            continue
        v = copy.deepcopy(r.choice(CUSTOM_VALUES))
        if isinstance(v, dict) and "name" in v and r.random() < 0.7:
            # a nested member equal to a top-level member (find_property_index looks keys up by name and value)
            for k in list(v):
                if k in o and isinstance(o[k], str):
                    v[k] = o[k]
        o[n] = v
    # custom content deeper down
    if isinstance(o.get("external_references"), list) and r.random() < 0.4:
        o["external_references"][0]["x_ref_extra"] = r.choice(["v", 1, {"a": [1]}])
    for hk in ("hashes",):
        if isinstance(o.get(hk), dict) and r.random() < 0.4:
            o[hk]["FOO-HASH"] = "abcd"
    if any(s["name"] == "extensions" for s in c["slots"]) and r.random() < 0.3:
        ext = o.setdefault("extensions", {})
        if isinstance(ext, dict):
            ext["x-c01-ext"] = {"k": r.choice(["v", 1, [1, 2]]), "a": {"z": 1, "b": 2}}
    if c["ver"] == "2.1" and any(s["name"] == "extensions" for s in c["slots"]) and r.random() < 0.35:
        # an unregistered top-level property extension: every extra member is then an extension property
        ext = o.setdefault("extensions", {})
        if isinstance(ext, dict):
            ext["extension-definition--" + gen.uuid()] = {"extension_type": "toplevel-property-extension"}
            for n in r.sample(["rank", "toxicity", "b_y", "aa", "zz_top", "m1", "m2", "q_long_property_name", "k9"], r.randint(1, 6)):
                o[n] = r.choice([1, "v", True, [1, 2], {"a": 1}])



# ------------------------------------------------------------------ correspondence with Model/Serialize.v

def coq_sopts(o):
    ind = o.get("indent")
    return "(O %s %s %s %s %s)" % (common.coq_bool(bool(o.get("pretty"))), common.coq_bool(bool(o.get("include_optional_defaults"))),
                                   common.coq_bool(bool(o.get("sort_keys"))), common.coq_bool("separators" in o),
                                   "None" if ind is None else "(Some %d%%nat)" % ind)


CORR_HEADER_EXTRA = (
    "From V Require Import Model.Serialize.\n"
    "Definition O (p i s c : bool) (n : option nat) : sopts :=\n"
    "  {| o_pretty := p; o_incl := i; o_sort_keys := s; o_indent := n; o_compact := c |}.\n"
    "Definition SL (os : list sopts) (r : request) : string :=\n"
    "  show_serialized_all os (run VR sentinel_env lib (pat_ok OK20 OK21) (sel_ok MC) %d r).\n" % sc.FUEL)


def corr_term(c):
    allow = common.coq_bool(c.get("allow", False))
    os_ = common.coq_list([coq_sopts(o) for o in c["opts"]])
    if c["op"] == "parse":
        return "SL %s (RParse %s false None %s)" % (os_, allow, sc.members(c["data"]))
    return "SL %s (RConstruct %s %s false %s None)" % (os_, common.coq_ustr(c["cid"]), allow, sc.members(c["data"]))


def has_nonascii_digit_key(x):
    if isinstance(x, dict):
        return any((k.isdigit() and not k.isascii()) or has_nonascii_digit_key(v) for k, v in x.items())
    if isinstance(x, list):
        return any(has_nonascii_digit_key(e) for e in x)
    return False


SORTED_EXT_ORDER = [False]


def probe_ext_order():
    """does the code store the extra properties next to an unregistered toplevel-property-extension sorted?"""
    names = ["zz", "b_y", "aa", "m2", "k9", "q_long", "toxicity", "x_foo"]
    d = {"type": "identity", "spec_version": "2.1", "id": "identity--00000000-0000-4000-8000-000000000005",
         "created": "2020-01-01T00:00:00.000Z", "modified": "2020-01-01T00:00:00.000Z", "name": "n",
         "extensions": {"extension-definition--00000000-0000-4000-8000-000000000006": {"extension_type": "toplevel-property-extension"}}}
    for n in names:
        d[n] = 1
    try:
        res = common.run_impl("c01_corr_impl", [{"op": "parse", "cid": "2.1/Identity", "data": d, "allow": False, "opts": [{}]}], procs=1)[0]
    except RuntimeError:
        return True     # the probe could not run (worker failed): the repaired behaviour is assumed, the cases still run
    if not isinstance(res, str):
        return True
    import re
    got = [m for m in re.findall(r"([a-z_0-9]+):i1,", res)]
    return got == sorted(names)


def correspondence(run, cases, variants):
    """Model (run + serialize_value under each option set) against the library, ordered members compared."""
    ccases = []
    for c in cases:
        if c.get("derive") or c["cid"].startswith("custom/"):
            continue        # derived objects / types registered in the oracle worker are not inputs of the model
        if has_unregistered_toplevel_ext(c["data"]) and not SORTED_EXT_ORDER[0]:
            continue        # the pinned code stores these properties in Python set order (C01-extension-property-order-...)
        if has_unregistered_toplevel_ext(c["data"]) and "custom_properties" in c["data"]:
            continue        # the shared model keeps extension properties and custom_properties entries in two sorted runs
        opts = [o for o in c["opts"] if "ensure_ascii" not in o]
        ccases.append({"op": "parse" if c["route"] == "parse" else "construct", "cid": c["cid"], "data": c["data"],
                       "allow": c.get("allow", False), "opts": opts})
    impl = common.run_impl("c01_corr_impl", ccases)
    pats = sc.pattern_lists(ccases)
    hdr = sc.header(variants, pats) + CORR_HEADER_EXTRA
    model = sc.sharded_eval("c01c", hdr, [corr_term(c) for c in ccases])
    dis, unm = [], 0
    for i, (c, m, r) in enumerate(zip(ccases, model, impl)):
        if m == "UNMODELLED":
            unm += 1
            continue
        if m == r:
            continue
        if m.startswith("ERR ") and r.startswith("ERR ") and sc.lines_agree(m, r):
            continue
        dis.append(i)
    run.coverage["correspondence_cases"] = len(ccases)
    run.coverage["correspondence_serializations"] = sum(len(c["opts"]) for c in ccases)
    run.coverage["correspondence_unmodelled"] = unm
    run.coverage["correspondence_disagreements"] = len(dis)
    if dis:
        def first_diff(a, b):
            pa, pb = a.split(" ## "), b.split(" ## ")
            for k, (x, y) in enumerate(zip(pa, pb)):
                if x != y:
                    return k, x[:500], y[:500]
            return -1, a[:300], b[:300]
        run.broken.append(Broken("correspondence", "Model/Serialize.v + Model/Schema.v vs obj.serialize(**options)", {
            "count": len(dis),
            "first": [{"case": ccases[i], "diff(option index, model, impl)": first_diff(model[i], impl[i])} for i in dis[:4]]}))
    return [ccases[i] for i in dis]

# ------------------------------------------------------------------ cases


def gen_cases(run, per_class):
    gen = stixgen.Gen(run.rng)
    r = run.rng
    cases = []
    for cid in gen.toplevel_ids():
        for i in range(per_class):
            try:
                o = gen.obj(cid, optional_p=r.choice([0.0, 0.3, 0.55, 0.8, 1.0]) if i else 1.0)
            except (IndexError, ValueError, KeyError):
                continue
            if r.random() < 0.3:
                gen.add_granular_markings(cid, o)
            cl = gen.classes[cid]
            if cl["family"] == "sco" and cl["ver"] == "2.0":
                # a 2.0 observable outside an observed-data container has no valid object references
                for s in cl["slots"]:
                    k = s["kind"]
                    if k["k"] == "objref" or (k["k"] == "list" and k["of"]["k"] == "objref"):
                        o.pop(s["name"], None)
                if cl["name"] == "NetworkTraffic" and not ({"src_ref", "dst_ref"} & o.keys()):
                    continue
                if cl["name"] == "EmailMessage" and o.get("is_multipart"):
                    o["is_multipart"] = False
                    o.pop("body_multipart", None)
            if cid == "2.0/Bundle":
                o["spec_version"] = "2.0"
            if cid == "2.0/File" and not o.get("is_encrypted"):
                o.pop("encryption_algorithm", None)
                o.pop("decryption_key", None)
            if cl["family"] == "sco" and cl["ver"] == "2.1" and "id" not in o and "spec_version" not in o and r.random() < 0.8:
                o["spec_version"] = "2.1"      # without id and spec_version the data denotes a 2.0 observable
            # properties at their default value (the defaulted-optional bookkeeping)
            for s in gen.classes[cid]["slots"]:
                d = s.get("default") or {}
                if d.get("d") == "const" and r.random() < 0.6:
                    o[s["name"]] = d["v"] if r.random() < 0.7 else (not d["v"] if isinstance(d["v"], bool) else d["v"])
            if r.random() < 0.25:
                # let the library fill in what it can: the constructor's clock and fresh identifiers
                for sl in gen.classes[cid]["slots"]:
                    if (sl.get("default") or {}).get("d") in ("now", "uuid4"):
                        o.pop(sl["name"], None)
            if r.random() < 0.3:
                # timestamps with every number of fraction digits the reader accepts (0, 1, 2, 3, 4, 6) and values like .250 / .5
                for sl in gen.classes[cid]["slots"]:
                    v = o.get(sl["name"])
                    if sl["kind"]["k"] == "time" and isinstance(v, str) and v.endswith("Z") and "T" in v and r.random() < 0.7:
                        base = v[:-1].split(".")[0]
                        o[sl["name"]] = base + r.choice(["", ".5", ".25", ".250", ".123", ".1234", ".123456", ".000001", ".100000", ".000"]) + "Z"
            custom = r.random() < 0.35
            if custom:
                inject_custom(gen, cid, o)
            route = "parse" if r.random() < 0.6 else "construct"
            if custom and route == "construct" and r.random() < 0.3:
                # the constructor's custom_properties= argument (legacy spelling of custom properties)
                o["custom_properties"] = {n: copy.deepcopy(r.choice(CUSTOM_VALUES)) for n in r.sample(CUSTOM_NAMES21, 2)
                                          if n not in o}
            if route == "construct" and cid.endswith("/Bundle") and isinstance(o.get("objects"), list) and r.random() < 0.5:
                route = "construct_positional"      # Bundle(*members, **rest)
            case = {"route": route, "cid": cid, "data": o, "allow": custom or r.random() < 0.15,
                    "opts": pick_opts(r, full=(i % 5 == 0))}
            if r.random() < 0.12:
                # the same input again after other objects of the class were built in the same process
                between = []
                for _ in range(2):
                    try:
                        ob = gen.obj(cid, optional_p=r.choice([0.0, 0.5, 1.0]))
                        if r.random() < 0.5:
                            inject_custom(gen, cid, ob)
                        between.append({"route": "parse", "cid": cid, "data": ob, "allow": True})
                    except (IndexError, ValueError, KeyError):
                        pass
                # ... and a call that FAILS in between (wrong type of the identifier)
                between.append({"route": "parse", "cid": cid, "data": dict(o, id=12345), "allow": False})
                slots = {sl["name"] for sl in gen.classes[cid]["slots"]}
                fixed_text = all(k in o for k in ("id", "created", "modified") if k in slots) and \
                    not any((sl.get("default") or {}).get("d") in ("now", "uuid4") and sl["name"] not in o for sl in gen.classes[cid]["slots"])
                case = dict(case, twice={"between": between, "compare_text": fixed_text})
            cases.append(case)
            # objects the library derives from that object's Python values (not from JSON-like data)
            once = {k: v for k, v in case.items() if k != "twice"}
            if r.random() < 0.3 and "custom_properties" not in o:
                cases.extend(nested_custom_cases(gen, cid, o, once["opts"][:4]))
            if r.random() < 0.5:
                how = r.choice(["deepcopy", "rebuild", "other-version", "new-version", "revoke", "copy", "pickle", "zone:" + r.choice(ZONES),
                                "micro:%d" % r.choice(MICROS)])
                cases.append(dict(once, derive=how, opts=CORE_OPTS[:4] + [r.choice(ALL_OPTS)]))
            if i == 0:
                # every class once with its timestamps given as aware datetimes of another zone
                cases.append(dict(once, derive="zone:" + r.choice(ZONES), opts=CORE_OPTS[:2]))
            # timestamps given as datetime OBJECTS whose microsecond part lies on both sides of the millisecond (1, 500, 999 |
            # 1000, 1001) and at the ends (0, 999999): the first objects of every class, every object of a class with a
            # slot whose shape depends on another property (kind "marking": one object does not show all shapes)
            poly = any(sl["kind"]["k"] == "marking" for sl in gen.classes[cid]["slots"])
            if i < 3 or poly:
                cases.append(dict(once, derive="micro:%d" % MICROS[(i + r.randrange(2) * 3) % len(MICROS)], opts=CORE_OPTS[:2]))
                if poly:
                    cases.append(dict(once, derive="micro:%d" % r.choice(MICROS), opts=CORE_OPTS[:2]))
    return cases


DEEP_SHAPES = ["dict-chain", "list-chain", "dict-list"]
DEEP_DEPTHS = [63, 64, 65, 100, 101, 255, 256, 300, 450, 600]


def deep_cases(gen, n):
    """a custom property nesting 63 .. 600 levels (dictionary chain, list chain, dictionary-with-list tree): whatever the
    constructor accepted and serialize wrote under an option set must be read back equal (an option set whose writer
    runs out of stack at that depth is not observed)"""
    r = gen.rng
    out = []
    cids = [c for c in gen.toplevel_ids() if gen.classes[c]["family"] in ("sdo", "sro") and not c.endswith("/Bundle")]
    combos = [(sh, d) for sh in DEEP_SHAPES for d in DEEP_DEPTHS]
    r.shuffle(combos)
    # the largest depth of every shape always, the rest sampled
    picked = [(sh, DEEP_DEPTHS[-1]) for sh in DEEP_SHAPES] + [c for c in combos if c[1] != DEEP_DEPTHS[-1]][:max(0, n - len(DEEP_SHAPES))]
    for sh, d in picked:
        cid = r.choice(cids)
        try:
            o = gen.obj(cid, optional_p=r.choice([0.0, 0.5]))
        except (IndexError, ValueError, KeyError):
            continue
        out.append({"route": "construct", "cid": cid, "data": o, "allow": True,
                    "deep": {"name": "x_deep", "shape": sh, "depth": d, "leaf": r.choice([1, "v", 0.5, True])},
                    "opts": [{}, {"pretty": True}, {"sort_keys": True}, {"indent": 2}, {"include_optional_defaults": True}],
                    "site": "custom property nesting %d levels (%s)" % (d, sh)})
    return out


def nested_custom_cases(gen, cid, o, opts):
    """custom content at the nested object positions the frozen tables give (embedded object, list element, extension,
    observable, bundle member, marking definition -- the C04 site walk): as data (parse / constructor with
    customization allowed) and with the nested value handed over as a library OBJECT built beforehand"""
    from props import c04 as c04gen
    r = gen.rng
    sites = []
    c04gen.walk(gen, cid, o, [], sites)
    nested = [(path, ex) for kind, path, ex in sites if kind == "object" and path and "/<" not in ex["cid"]]
    out = []
    for path, ex in r.sample(nested, min(2, len(nested))):
        x = copy.deepcopy(o)
        names = CUSTOM_NAMES20 if gen.classes[cid]["ver"] == "2.0" else CUSTOM_NAMES21
        slots = {s0["name"] for s0 in gen.classes[ex["cid"]]["slots"]}
        name = r.choice([n for n in names if n not in slots])
        try:
            c04gen.at(x, path)[name] = copy.deepcopy(r.choice(CUSTOM_VALUES))
        except (KeyError, IndexError, TypeError):
            continue
        site = "custom property %s at %s (%s)" % (name, "/".join(str(p0) for p0 in path), ex["cid"])
        out.append({"route": r.choice(["parse", "construct"]), "cid": cid, "data": x, "allow": True, "opts": opts, "site": site})
        out.append({"route": "construct", "cid": cid, "data": x, "allow": True, "opts": opts, "site": "pre-built: " + site,
                    "prebuilt": [{"path": list(path), "cid": ex["cid"]}]})
    return out


MICROS = [500, 1, 999, 1000, 1001, 999999, 0]


# zones for timestamps given as aware datetimes: fixed offsets and named zones (with daylight saving)
ZONES = ["+05:30", "-04:00", "+14:00", "-09:30", "US/Eastern", "Europe/Berlin", "Asia/Kolkata", "Australia/Lord_Howe"]


EXT_TLA = "extension-definition--5a1f7c2e-3b4d-4e6f-8a9b-0c1d2e3f4a5b"
EXT_TLB = "extension-definition--6b2a8d3f-4c5e-4f70-9bac-1d2e3f4a5b6c"


def toplevel_ext_cases(gen, n):
    """objects carrying one or both of the two toplevel-property-extensions registered in the worker, each preceded
    (in the same process) by an object of another combination: what one object's construction leaves behind in the
    extension classes must not reach the next"""
    r = gen.rng
    out = []
    cids = [c for c in gen.toplevel_ids() if c.startswith("2.1/") and gen.classes[c]["family"] in ("sdo", "sro")
            and any(s["name"] == "extensions" for s in gen.classes[c]["slots"])]

    def with_ext(o, which, bare=False):
        x = copy.deepcopy(o)
        x.pop("extensions", None)
        ext = {}
        if "A" in which:
            # bare: the registered extension given without its extension_type (the registered class fills it in)
            ext[EXT_TLA] = {} if bare else {"extension_type": "toplevel-property-extension"}
            x["a_rank"] = 3
            if r.random() < 0.5:
                x["a_note"] = "n"
        if "B" in which:
            ext[EXT_TLB] = {"extension_type": "toplevel-property-extension"}
            x["b_req"] = "b"
            if r.random() < 0.5:
                x["b_num"] = 7
        x["extensions"] = ext
        return x

    for i in range(n):
        cid = r.choice(cids)
        try:
            o = gen.obj(cid, optional_p=r.choice([0.3, 0.8]))
        except (IndexError, ValueError, KeyError):
            continue
        which, before = r.choice([("A", "AB"), ("A", "AB"), ("B", "AB"), ("AB", "A"), ("A", "B"), ("AB", "B")])
        route = r.choice(["parse", "construct"])
        bdata = with_ext(o, before)
        data = with_ext(o, which)
        if route == "construct":
            data.pop("type", None)
        if "A" in which and r.random() < 0.35:
            bare = with_ext(o, which, bare=True)
            bare["a_note"] = "n"                       # two declared properties: declared order differs from sorted order
            if r.random() < 0.5:
                bare["a_rank"] = "3"                   # a value the declared property cleans (text of an integer)
            if route == "construct":
                bare.pop("type", None)
            out.append({"route": route, "cid": cid, "data": bare, "allow": True, "opts": CORE_OPTS[:3],
                        "site": "registered toplevel-property-extension given without extension_type"})
        out.append({"route": route, "cid": cid, "data": data, "allow": False, "opts": CORE_OPTS[:3], "expect_created": True,
                    "control": {"route": "parse", "cid": cid, "data": o, "allow": False},
                    "before": [{"route": "parse", "cid": cid, "data": bdata, "allow": False}]})
    return out


def late_cases(gen, n):
    """custom types that are looked up (parsed as unknown) before they are registered in the worker, then used"""
    r = gen.rng
    out = []
    t0 = "2016-01-01T00:00:00.000Z"
    for i in range(n):
        ver = r.choice(["2.0", "2.1"])
        kind = r.choice(["obj", "obj", "obs"])
        t = "x-c01-late-%s%s-%04d" % (kind, ver.replace(".", ""), r.randrange(10000))
        d = {"type": t}
        if kind == "obj":
            d.update({"id": t + "--" + gen.uuid(), "created": t0, "modified": t0, "x_foo": gen.string(True) or "v"})
            if ver == "2.1":
                d["spec_version"] = "2.1"
        else:
            d["value"] = gen.string(True) or "v"
            if ver == "2.1":
                if r.random() < 0.5:
                    d["id"] = t + "--" + gen.uuid(5)
                else:
                    d["spec_version"] = "2.1"
        route = r.choice(["construct", "parse"])
        data = {k: v for k, v in d.items() if not (route == "construct" and k == "type")}
        if kind == "obs" and ver == "2.0" and r.random() < 0.6:
            # the late type as a member of a 2.0 observed-data container (members go through parse_observable)
            od = {"type": "observed-data", "id": "observed-data--" + gen.uuid(), "created": t0, "modified": t0,
                  "first_observed": t0, "last_observed": t0, "number_observed": 1, "objects": {"0": dict(d)}}
            out.append({"route": "parse", "cid": "2.0/ObservedData", "data": od, "allow": False,
                        "late": {"type": t, "ver": ver, "kind": kind, "member": True, "probe": dict(d),
                                 "cid": "custom/%s/%s" % (ver, t)}, "opts": CORE_OPTS[:3], "expect_created": True})
            continue
        out.append({"route": route, "cid": "custom/%s/%s" % (ver, t), "data": data, "allow": False,
                    "late": {"type": t, "ver": ver, "kind": kind}, "opts": CORE_OPTS[:3], "expect_created": True})
    return out


EXT_OBJ = "extension-definition--a932fcc6-e032-476c-826f-cb970a5a1ade"
EXT_OBS = "extension-definition--b1c2d3e4-0a1b-4c2d-8e3f-1a2b3c4d5e6f"


def custom_type_cases(gen):
    """Objects of the custom types the oracle worker registers (plain, and 2.1 ones declared with
    extension_name=): constructor and parse routes, with and without user-given extensions and x_ properties."""
    r = gen.rng
    out = []
    t0 = "2016-01-01T00:00:00.000Z"
    for cid, ver, kind, ext in (("custom/2.0/x-c01-object", "2.0", "obj", None), ("custom/2.1/x-c01-object", "2.1", "obj", None),
                                ("custom/2.1/x-c01-new-thing", "2.1", "obj", EXT_OBJ),
                                ("custom/2.0/x-c01-observable", "2.0", "obs", None), ("custom/2.1/x-c01-observable", "2.1", "obs", None),
                                ("custom/2.1/x-c01-new-observable", "2.1", "obs", EXT_OBS)):
        t = cid.split("/")[2]
        # the product: extensions given by the user (none / another one / another one + the declared one) x an UNDECLARED
        # custom property (no / yes) x how many of the declared optional properties are populated (none / some / all)
        ext_forms = [0] if ver == "2.0" else [0, 1] if not ext else [0, 1, 2]
        for extgiven in ext_forms:
            for undeclared in (False, True):
                for density in (0.0, 0.6, 1.0):
                    d = {"type": t}
                    if kind == "obj":
                        d.update({"id": t + "--" + gen.uuid(), "created": t0, "modified": t0})
                        if ver == "2.1":
                            d["spec_version"] = "2.1"
                        for n, v in (("x_foo", gen.string(True) or "v"), ("x_num", 7), ("bar_value", 3), ("zeta", ["b", "a"])):
                            if n in ("bar_value", "zeta") and "new-thing" not in t or n == "x_num" and "new-thing" in t:
                                continue
                            if r.random() < density:
                                d[n] = v
                        if r.random() < density:
                            d["labels"] = ["l1"]
                    else:
                        d["value"] = gen.string(True) or "v"
                        if ver == "2.1" and r.random() < 0.5:
                            d["id"] = t + "--" + gen.uuid(5)
                        if ver == "2.1" and "id" not in d:
                            d["spec_version"] = "2.1"
                        if r.random() < density:
                            d["x_more"] = 5
                        if "new-observable" in t and r.random() < density:
                            d["a_first"] = "a"
                    if extgiven:
                        # user-given extensions next to the declared one
                        d["extensions"] = {"extension-definition--" + gen.uuid(): {"extension_type": "property-extension", "rank": 1}}
                        if extgiven == 2:
                            d["extensions"][ext] = {"extension_type": "new-sdo" if kind == "obj" else "new-sco"}
                    if undeclared:
                        d[r.choice(["x_custom_extra", "x_other", "a_undeclared", "zz_undeclared"])] = r.choice([1, "v", [1, 2]])
                    route = r.choice(["construct", "parse"])
                    data = {k: v for k, v in d.items() if not (route == "construct" and k == "type")}
                    out.append({"route": route, "cid": cid, "data": data, "allow": undeclared, "opts": CORE_OPTS[:4] + [r.choice(ALL_OPTS)]})
    return out


FIXED_CASES = [
    # an empty 2.1 bundle (constructible; its text has no "objects")
    {"route": "construct", "cid": "2.1/Bundle", "data": {"id": "bundle--00000000-0000-4000-8000-000000000001"},
     "allow": False, "opts": [{}, {"pretty": True}]},
    # a 2.0 statement marking whose `created` has a fraction, rebuilt from its own values
    {"route": "parse", "cid": "2.0/MarkingDefinition", "derive": "deepcopy",
     "data": {"type": "marking-definition", "id": "marking-definition--00000000-0000-4000-8000-000000000003",
              "created": "2023-03-28T08:24:21.1Z", "definition_type": "statement", "definition": {"statement": "x"}},
     "allow": False, "opts": [{}, {"pretty": True}]},
    # a 2.0 bundle given an observable dictionary with an id (which parse() takes for a 2.1 observable)
    {"route": "construct", "cid": "2.0/Bundle",
     "data": {"id": "bundle--00000000-0000-4000-8000-000000000004", "spec_version": "2.0",
              "objects": [{"type": "ipv4-addr", "id": "ipv4-addr--ff26c055-6336-5bc5-b98d-13d6226742dd", "value": "198.51.100.3"}]},
     "allow": False, "opts": [{}, {"pretty": True}]},
    # a 2.0 statement marking whose creation time is taken from the clock
    {"route": "construct", "cid": "2.0/MarkingDefinition",
     "data": {"definition_type": "statement", "definition": {"statement": "x"}}, "allow": False, "opts": [{}, {"pretty": True}]},
    # a year below 1000 (C15's zero padding)
    {"route": "parse", "cid": "2.1/Identity",
     "data": {"type": "identity", "spec_version": "2.1", "id": "identity--00000000-0000-4000-8000-000000000002",
              "created": "0999-01-02T03:04:05.000Z", "modified": "0999-01-02T03:04:05.000Z", "name": "old"},
     "allow": False, "opts": [{}, {"pretty": True}]},
]


def has_unregistered_toplevel_ext(d):
    ext = d.get("extensions")
    return isinstance(ext, dict) and any(
        k.startswith("extension-definition--") and isinstance(v, dict) and v.get("extension_type") == "toplevel-property-extension"
        for k, v in ext.items())


def classify(case, res, f):
    """Narrow finding ids for defects of the unchanged code."""
    d = case["data"]
    if (f["kind"] == "reparse-refused" and case["cid"].endswith("/MarkingDefinition") and not case.get("derive")
            and any(sp.get("path") == ["definition"] for sp in case.get("prebuilt") or [])
            and str(case.get("site", "")).startswith("pre-built: custom property ")
            and "Unexpected properties for " in json.dumps(f.get("detail", ""))):
        # the definition handed over as a StatementMarking / TLPMarking OBJECT that carries a custom property
        return "C01-marking-definition-with-custom-definition-object-not-reparsed"
    if (f["kind"] in ("not-equal", "reserialize-differs") and not case.get("derive")
            and str(case.get("site", "")) == "registered toplevel-property-extension given without extension_type"
            and isinstance(d.get("extensions"), dict) and d["extensions"].get(EXT_TLA) == {}):
        return "C01-registered-toplevel-extension-without-extension-type-not-reparsed-equal"
    if (f["kind"] in ("not-equal", "reserialize-differs") and res.get("cls") == "2.0/MarkingDefinition"
            and str(case.get("derive", "")).startswith("zone:")
            and isinstance(d.get("created"), str) and "." in d["created"] and d.get("definition_type") != "tlp"):
        # `created` reaches the constructor as a plain datetime with a sub-second part
        return "C01-v20-marking-created-plain-datetime-with-fraction-not-reparsed-equal"
    if (f["kind"] == "reserialize-differs" and res.get("cls") == "2.0/MarkingDefinition" and case.get("derive")
            and isinstance(d.get("created"), str) and "." in d["created"] and d.get("definition_type") != "tlp"):
        return "C01-v20-marking-created-precision-lost-on-rebuild"
    if (f["kind"] in ("not-equal", "reserialize-differs") and res.get("cls") == "2.0/MarkingDefinition"
            and "created" not in d and d.get("definition_type") != "tlp"):
        return "C01-v20-marking-default-created-not-reparsed-equal"
    if f["kind"] == "reserialize-differs" and has_unregistered_toplevel_ext(d):
        return "C01-extension-property-order-is-set-iteration-order"
    if f["kind"] == "reparse-refused" and case["cid"] == "2.0/Bundle" and any(
            isinstance(m, dict) and "id" in m and "spec_version" not in m for m in (d.get("objects") or []) if isinstance(d.get("objects"), list)):
        return "C01-v20-bundle-admits-member-it-cannot-reparse"
    if f["kind"] == "reparse-refused" and case["cid"] == "2.1/Bundle" and "objects" not in case["data"]:
        return "C01-empty-bundle-21-not-reparsed"
    return None


def check(run):
    per_class = 60 if run.tier == "thorough" else 8
    run.coverage["rule"] = (
        "for every registered object/observable class of STIX 2.0 and 2.1 (frozen registries): %d generated objects "
        "(optional-property density 0..1, defaults set explicitly, granular markings, custom content in 35%%), made through "
        "parse() or the constructor, serialized under 9 sampled option sets (all 34 for every 5th object); objects derived from "
        "Python values (deepcopy, rebuilt from values, other spec version, new_version, every timestamp at every depth given as "
        "an aware datetime of another zone: fixed offsets and named zones), custom types registered in the worker up front "
        "and custom types first looked up while unknown and registered afterwards (also as members of a 2.0 observed-data "
        "container); objects carrying one or both of two registered toplevel-property-extensions, each preceded in the same "
        "process by an object of another combination; for the first option sets: the same text given to parse() as dictionary, "
        "text stream, bytes and with the version named; fp_serialize and str() against serialize(); serialize() repeated on "
        "the already serialized object with the same option names and other values against a never-serialized copy; the "
        "pretty top-level order against the plain one; timestamps with 0-6 fraction digits; custom values of bounded sizes / "
        "depths / number and text shapes (lists of 2..256 elements, 9..30 levels, 7.0, 2^53+1, 10^21, 401-digit integers, "
        "quotes, non-BMP); a custom property at the nested object positions of the tables, also with the nested value as a "
        "pre-built library object; a custom property nesting 63..600 levels in three shapes (an option set whose writer runs "
        "out of stack there is not observed); parse() with interoperability=True, with the object itself, without the "
        "allow_custom argument; serialize options given with their default values, positionally, through the module-level "
        "function; a registered toplevel-property-extension given without extension_type; a failing call among the calls made "
        "between two observations; the oracle workers run under a non-UTC process time zone (IST-5:30) and another hash seed; "
        "non-trivial = the object was created" % per_class)
    model_ok = sc.translate_and_build(run, "Props/C01.v")
    variants = sc.detect_variants(run)
    SORTED_EXT_ORDER[0] = probe_ext_order()
    if model_ok:
        # which classes of the regenerated tables the round-trip theorems cover (kernel-evaluated)
        try:
            hdr = ("From Coq Require Import List String.\nFrom V Require Import Base.UString Model.SchemaTypes "
                   "Proofs.C01LibInstance Gen.Tables.\nImport ListNotations. Open Scope string_scope.\n"
                   "Definition names (l : list ustring) : string := fold_right (fun x acc => append (show_ustr x) (append \" \" acc)) \"\" l.\n")
            cov = common.coq_eval_lines("c01cov", hdr, ["names lib_proved_idsw", "names lib_unproved_ids", "names lib_bundle_ids", "names lib_observed_ids",
                                                       "names lib_observed20_ids"])
            run.coverage["roundtrip_theorem_classes_proved_by_observed20_theorem"] = cov[4].split()
            run.coverage["roundtrip_theorem_classes_proved_without_objects_member"] = cov[3].split()
            run.coverage["roundtrip_theorem_classes_proved"] = len(cov[0].split()) + len(cov[2].split()) + len(cov[4].split())
            run.coverage["roundtrip_theorem_classes_proved_by_bundle_theorem"] = cov[2].split()
            run.coverage["roundtrip_theorem_classes_unproved"] = cov[1].split()
        except RuntimeError as e:
            run.notes.append("could not evaluate lib_proved_ids: %s" % str(e)[-300:])
    run.coverage["extension_property_order_sorted"] = SORTED_EXT_ORDER[0]
    cases = FIXED_CASES + gen_cases(run, per_class)
    cases += custom_type_cases(stixgen.Gen(run.rng))
    cases += late_cases(stixgen.Gen(run.rng), 40 if run.tier == "thorough" else 12)
    cases += toplevel_ext_cases(stixgen.Gen(run.rng), 40 if run.tier == "thorough" else 10)
    cases += deep_cases(stixgen.Gen(run.rng), 30 if run.tier == "thorough" else 9)
    results = common.run_impl("c01_impl", cases)
    created = 0
    hist = {}
    for c, res in zip(cases, results):
        run.count(c, nontrivial=bool(res.get("created")))
        if res.get("created"):
            created += 1
            hist[res["cls"]] = hist.get(res["cls"], 0) + 1
        else:
            hist["not-created:" + str(res.get("err"))] = hist.get("not-created:" + str(res.get("err")), 0) + 1
        for f in res.get("fails", []):
            run.violations.append(Violation(
                "%s (%s route%s, %s, options %s): %s" % (f["kind"], c["route"], (" then " + c["derive"]) if c.get("derive") else "",
                                                       c["cid"], json.dumps(f["opts"]), json.dumps(f["detail"])[:300]),
                {"case": dict(c, opts=[f["opts"]] + ([{"include_optional_defaults": True}, {}] if f["kind"] in (
                    "non-default-property-omitted", "defaults-option-changes-value", "options-disagree") else [])),
                 "kind": f["kind"]},
                finding=classify(c, res, f)))
    run.coverage["created"] = created
    # correspondence: the model's ordered members under each option set against the library
    if model_ok:
        n_corr = 1200 if run.tier == "thorough" else 260
        sel = [c for c, r in zip(cases, results) if r.get("created")]
        run.rng.shuffle(sel)
        try:
            bad = correspondence(run, sel[:n_corr], variants)
        except RuntimeError as e:
            run.broken.append(Broken("correspondence", "model evaluation failed", {"error": str(e)[-1500:]}))
            bad = []
        # search around a disagreement: the property oracle on the disagreeing objects under every option set
        if bad:
            again = [{"route": "parse" if c["op"] == "parse" else "construct", "cid": c["cid"], "data": c["data"],
                      "allow": c["allow"], "opts": list(ALL_OPTS)} for c in bad[:50]]
            for c, res in zip(again, common.run_impl("c01_impl", again)):
                for f in res.get("fails", []):
                    run.violations.append(Violation(
                        "%s (%s route, %s, options %s): %s" % (f["kind"], c["route"], c["cid"], json.dumps(f["opts"]), json.dumps(f["detail"])[:300]),
                        {"case": dict(c, opts=[f["opts"], {"include_optional_defaults": True}, {}]), "kind": f["kind"]},
                        finding=classify(c, res, f)))
    run.coverage["serializations_checked"] = sum(len(r.get("obs", [])) for r in results)
    run.coverage["classes_created"] = len([k for k in hist if not k.startswith("not-created")])
    run.coverage["not_created"] = {k: v for k, v in hist.items() if k.startswith("not-created")}
    for c, res in list(zip(cases, results))[2:5]:
        run.sample({"cid": c["cid"], "route": c["route"], "created": res.get("created"), "n_opts": len(c["opts"])})
    run.coverage["trusted_base"] += [
        "harness/stixgen.py generator over the frozen tables /verif/spec/stix_tables.json (order of properties, constant defaults)",
        "simplejson text layer: json.loads of the library's own output is taken as the denoted JSON value",
    ]
    run.assumptions += [
        "custom-property values are JSON-representable (a datetime put into a custom property comes back as text; DESIGN 6)",
        "round trip is stated for parse entry points (registered object/observable types); embedded classes travel inside them",
        "the reparse uses the allow_custom setting the object was made with",
    ]


def replay(payload):
    if "replay" not in payload:
        return replay_unlocated(payload)
    r = payload["replay"]
    case = r["case"]
    res = common.run_impl("c01_impl", [case], procs=1)[0]
    print("replay %s route=%s allow=%s: created=%s %s" % (case["cid"], case["route"], case.get("allow"), res.get("created"), res.get("err", "")))
    bad = 0
    for f in res.get("fails", []):
        print("  %s options=%s %s" % (f["kind"], json.dumps(f["opts"]), json.dumps(f["detail"])[:500]))
        bad += 1
    if bad:
        print("VIOLATION property=C01 replay=(given)")
        return 1
    print("no violation on this input")
    return 0


def replay_unlocated(payload):
    """A replay file written when something no longer checked but no failing input was found: it names the
    obligation / correspondence; the inputs of the stored disagreements are run through the property oracle."""
    bad = 0
    for b in payload.get("no_longer_checks", []):
        print("no longer checks: %s %s" % (b.get("kind"), b.get("name")))
        for ent in (b.get("detail") or {}).get("first", []) or []:
            c = ent.get("case") or {}
            if "data" not in c:
                continue
            case = {"route": "parse" if c.get("op", c.get("route")) == "parse" else "construct", "cid": c["cid"], "data": c["data"],
                    "allow": c.get("allow", False), "opts": list(ALL_OPTS)}
            res = common.run_impl("c01_impl", [case], procs=1)[0]
            print("  %s: oracle failures: %s" % (case["cid"], [f["kind"] for f in res.get("fails", [])][:6]))
            bad += len(res.get("fails", []))
    if bad:
        print("VIOLATION property=C01 replay=(given)")
        return 1
    print("no failing input among the stored disagreements (the file records what stopped checking)")
    return 0

"""C19 -- custom type registration is exact, exclusive and version-scoped;
naming rules enforced; registered custom types enjoy the same guarantees.

Model: coq/Model/Registry.v (hand-written, executable), instantiated at what
translators/tr_regex.py reads from the current source (regex texts, shape of
_validate_type, the live built-in registries): coq/Gen/Regexes.v,
coq/Model/RegistryInit.v.  Theorems: coq/Props/C19.v.

Tie: (1) obligations of Props/C19.v on the generated constants (regex texts
are texts the recognisers were proved for; the built-in registry is a partial
function); (2) correspondence: registration histories (each in a FRESH
interpreter -- the registries are process-global) and name strings, on the
implementation and on the model; (3) the variant (defect) parameters of the
model are selected from the regex texts and confirmed by witnesses run on the
implementation through the public decorators.

Oracle: the property itself on the implementation's observations -- a
reference dictionary (built-ins + the registrations the implementation
reported as successful, first one wins) decides what every lookup / parse must
give; names outside the certain part of the naming rules must be refused,
fully valid registrations of free names must succeed; registered custom types
round-trip, validate and version like built-in ones.
"""
import json
import os
import uuid

import common
from common import Broken, Violation
import tr_regex
import tr_regflow

MANIFEST = {
    "text": "Executable Gallina model of registration.py / registry.py / custom.py / the Custom* decorators / "
            "_validate_type / parse dispatch (Model/Registry.v). PROVED for every variant of the model, every registry and "
            "every history (induction): reg_exact (+frame), reg_exclusive, reg_version_scoped, the registry is a growing "
            "partial function, the first registration sticks for ever, built-ins are never displaced; dispatch (model "
            "level): a registered custom object / observable parses to its class with an explicit version AND on the "
            "default path (version=None, utils.detect_spec_version: 2.1 data carrying spec_version, 2.0 data without; a "
            "bundle's own version detection is DUnmodelled and left to C14), a registered marking / extension is what "
            "MarkingDefinition.__init__ / ExtensionsProperty.clean dispatch to. Naming: recognisers <-> declarative rules "
            "(type, extension and property names) are conditional on the variant in Props/C19.v (with *_refuted witnesses "
            "for the defective variants) and DISCHARGED AT THE CURRENT SOURCE in Props/C19Src.v "
            "(source_variant_is_repaired, source_naming_rules, source_invalid_names_refused); invalid names are refused "
            "with the registry unchanged. Props/C19Src.v also: the control flow of registration.py's _register_* (order "
            "checks / duplicate test / write, map and version key), the shape of _validate_props, class_for_type's "
            "exclusive category dispatch, _validate_ref_props' last-underscore rule, _get_properties_dict's copy and the "
            "wrappers' unconditional extension_name= "
            "registration, read from the source by tr_regflow (fail-closed), are what the model transcribes (an "
            "interpreter of the source's step lists IS the model's register_* function). Custom types inherit: the class "
            "table each decorator builds (Model/RegistryBuilder.v, schema family's vocabulary, compared with the dumped "
            "live class every run) has distinct names, the standard properties intact around the user's, equal slot for "
            "slot to the specification's common properties, and keeps the C02 side condition world_refines for the "
            "extended world; C02 strict soundness (Props/C19InheritC02.v) and the C01 round-trip theorems "
            "(Props/C19InheritC01.v) are instantiated at the library world extended by a registered custom type, MODULO "
            "the owning builders' coverage predicates (below). Correspondence: histories in fresh interpreters + name "
            "strings + dumped live custom classes vs the model. Oracle (implementation only): reference dictionary, "
            "naming rules, round trip byte for byte, validation, new_version, other extensions kept on instances, "
            "version-dependent validation compared with a built-in type, class tables unchanged when the caller mutates "
            "the properties object it passed, marking-definition accepts a definition object only of the class "
            "registered under its definition_type, a registration passes / fails validation alike after a history and "
            "alone in a fresh interpreter, construct vs parse with allow_custom and an undeclared property, every "
            "declared property is in the registered class table, extension instances do not cross versions, the 2.1 "
            "extension-name suffix rule.",
    "design_ref": "DESIGN.md 6/C19, 7 row C19; design_notes/C19.md",
    "note": "Trusted: Coq kernel + vm_compute; tr_regex (regex TEXTS are tied; the recognisers restate Python's re "
            "semantics by hand and are compared with re on generated names every run); tr_regflow (normalised statement "
            "forms); coq/Spec/NamingSpec.v written from the normative text (character sets, lengths, no double hyphen: "
            "certain; leading letter in 2.1: what the library and the 2.1 schema demand). Coverage predicates / premises "
            "that remain: custom_type_strict_sound(_wide) carries the schema family's class_proved / class_proved2, and "
            "the C01 instances carry closed_okw / registry_ok / parse_class_ok -- each is shown TRUE by kernel evaluation "
            "for six example custom types (2.1 and 2.0 object, 2.1 and 2.0 observable, 2.1 property-extension, marking; "
            "string, bounded integer, reference, list properties) and stays a premise for an arbitrary custom type; user "
            "property kinds must be reflexive for kind_refines (no bare Property()); the registered name must be a legal "
            "type name (registered_name_ok: it is, under the repaired recognisers). NOT proved: C05 (versioning) "
            "inheritance -- C05's theorems are universally quantified over its tables T and so apply to any T, but no T is "
            "built from a registration here; new_version on custom types, validation compared with built-in types, "
            "extensions kept, marking definition objects, and the post-construction effect of extension_name= are "
            "ORACLE-ONLY. The decorated class is assumed to have an empty body (no __init__ / constraints of its own). "
            "Dependencies: Props/C19.v and Props/C19Src.v depend only on C19 files and the schema family's TYPES "
            "(Model/SchemaTypes.v); Props/C19Inherit.v, Props/C19InheritC02.v and Props/C19InheritC01.v depend on the "
            "schema family's and the C01 builder's files (Spec/SchemaRefine.v, Spec/StixValid.v, Gen/Tables.v, "
            "Gen/SpecTables.v, Proofs/Schema*.v, Proofs/C01*.v): when one of THOSE does not compile these files are not "
            "attempted-and-claimed (a note, coverage.inherit_tables and coverage.not_claimed say so; obligations then "
            "count only what was built); when a C19 file fails it is a broken obligation. Regex running time is outside "
            "the model (measured with a time limit). No axioms.",
    "technique": "Coq proof over a hand-written executable model + translators for regex texts / built-in registry / "
                 "registration control flow + fresh-interpreter correspondence of registration histories and class tables",
}

HEADER = """From Coq Require Import NArith List String.
From V Require Import Base.UString Model.Registry Model.RegistryInit.
Import ListNotations. Open Scope string_scope.
Definition vt : variant := match source_variant with Some v => v | None => as_found end.
Definition R (k : category) (V : version) (n : ustring) (ps : list (ustring * propkind)) (cls : ustring)
             (xt : option exttype) (xn : option ustring) : op :=
  Register {| r_kind := k; r_ver := V; r_name := n; r_props := ps; r_cls := cls; r_exttype := xt; r_extname := xn |}.
"""

LOWER = "abcdefghijklmnopqrstuvwxyz"
DIGITS = "0123456789"
TYPE_CHARS = set(LOWER + DIGITS + "-")
PROP_CHARS = set(LOWER + DIGITS + "_")
EXTDEF = "extension-definition--"
CATS = ["objects", "observables", "markings", "extensions"]
KIND_CAT = {"object": "objects", "observable": "observables", "marking": "markings", "extension": "extensions"}
KIND_COQ = {"object": "Objects", "observable": "Observables", "marking": "Markings", "extension": "Extensions"}
PK_COQ = {"plain": "KPlain", "int": "KPlain", "ref": "KRef", "reflist": "KRefList", "objref": "KObjRef",
          "objreflist": "KObjRefList", "listplain": "KListPlain"}
XT_COQ = {"new-sdo": "XNewSdo", "new-sco": "XNewSco", "new-sro": "XNewSro", "property-extension": "XPropertyExt",
          "toplevel-property-extension": "XToplevel"}

F_PROP21 = "C19-property-name-rule-not-enforced-21"
F_PROP20 = "C19-property-name-rule-not-enforced-20"
F_NEWLINE = "C19-type-name-trailing-newline"
F_DHYPHEN = "C19-type-name-double-hyphen-21"
F_BACKTRACK = "C19-type-name-21-regex-backtracking"


def eval_lines(tag, header, terms, shard=400):
    """common.coq_eval_lines, retried once after rebuilding the model files when a dependency was recompiled
    under our feet (the tree is shared with other checks: `inconsistent assumptions`)."""
    try:
        return common.coq_eval_lines(tag, header, terms, shard=shard)
    except RuntimeError as e:
        if "inconsistent assumptions" not in str(e) and "Cannot find a physical path" not in str(e) \
                and "not found in loadpath" not in str(e):
            raise
        with common.Lock():
            common.make(["Model/RegistryInit.vo", "Model/RegistryBuilder.vo"])
        return common.coq_eval_lines(tag, header, terms, shard=shard)


# ------------------------------------------------------------------ the naming rules (oracle side, Python)

def type_must(s):
    """The part of the type-name rule that is certain: a-z 0-9 hyphen, 3..250, no two hyphens in a row."""
    return 3 <= len(s) <= 250 and all(c in TYPE_CHARS for c in s) and "--" not in s


def type_fully_valid(s, ver):
    """Names every reading accepts (so a registration under them must succeed): in addition a leading
    letter and no leading / trailing hyphen."""
    return type_must(s) and s[0] in LOWER and s[-1] != "-"


def prop_must(s):
    return s == "id" or (3 <= len(s) <= 250 and all(c in PROP_CHARS for c in s))


def prop_fully_valid(s):
    return prop_must(s) and s[0] in LOWER and s != "id"


def ext_name_must(s, ver):
    if ver == "2.1" and s.startswith(EXTDEF):
        return len(s) <= 250 and all(c in TYPE_CHARS for c in s)
    return type_must(s)


def classify_type_name(s, ver):
    """Finding id for an accepted type name that breaks type_must, or None (unclassified)."""
    core = s[:-1] if s.endswith("\n") else s
    if not (3 <= len(s) <= 250) or not all(c in TYPE_CHARS for c in core) or not core:
        return None
    if "--" in core:
        return F_DHYPHEN if ver == "2.1" else None
    if s.endswith("\n"):
        return F_NEWLINE
    return None


def classify_prop_name(s, ver):
    if ver == "2.0":
        return F_PROP20
    if s and s[0] in LOWER:
        return F_PROP21
    return None


def impl_safe(s, nested, dollar21):
    """TYPE_21_REGEX of the code as found (nested quantifiers) backtracks exponentially in the length of the
    prefix before the first character it cannot match; while the implementation has that regex (the time-limited
    probe did not come back) names sent to it keep that prefix short.  With a `$` anchor the final newline is
    no such character."""
    if not nested:
        return True
    for i, c in enumerate(s):
        if c not in TYPE_CHARS:
            if c == "\n" and i == len(s) - 1 and dollar21:
                return True
            return i <= 14
    return True


# ------------------------------------------------------------------ generators

WORDS = ["foo", "bar", "new", "type", "x", "acme", "obs", "mark", "v2", "a1", "zz9", "animal", "ext"]


def gen_valid_type(rng):
    n = rng.choice([1, 2, 2, 3, 4])
    return "-".join(rng.choice(WORDS) for _ in range(n)) if n > 1 or rng.random() < 0.5 else rng.choice(WORDS) + "zz"


def gen_names(run, n):
    rng = run.rng
    out = ["", "a", "ab", "abc", "id", "x-a", "x--a", "x-a-", "-xa", "a--", "--a", "x---y", "7x-a", "x_a", "X-a", "x-A",
           "abc\n", "x-a\n", "abc\n\n", "abc\r\n", "\nabc", "ab\n", "x--d\n", "a b", "aB", "q", "a-b", "a.b", "abc ", " abc",
           "ref", "_ref", "foo_ref", "foo_refs", "x_foo", "a_b", "_abc", "1abc", "abc_", "a__b", "abé", "ａbc",
           "abc\u0000", "x-" + "a" * 248, "x-" + "a" * 249, "a" * 250, "a" * 251, "a" * 249 + "\n", "a" * 250 + "\n",
           "a" * 249 + "-", "a" * 248 + "--", "a_" * 125, "a_" * 125 + "b", "p" * 250, "p" * 251, "9" * 250, "-" * 3, "---a",
           EXTDEF + "d83fce45-ef58-4c6c-a3f4-1fbc32e98c6e", "extension-definition", "x-foo-ext", "-ext"]
    bad_chars = ["_", "A", "Z", " ", ".", "\n", "\t", "é", "а", "－", "/", "@", "`", "{", ":", "‐", "\x00"]
    while len(out) < n:
        k = rng.random()
        if k < 0.25:                                   # valid type-like
            s = gen_valid_type(rng)
        elif k < 0.40:                                 # valid property-like
            s = "_".join(rng.choice(WORDS) for _ in range(rng.choice([1, 2, 3])))
            if rng.random() < 0.3:
                s += rng.choice(["_ref", "_refs"])
        elif k < 0.60:                                 # one bad character somewhere early
            s = gen_valid_type(rng) if rng.random() < 0.5 else "_".join(rng.choice(WORDS) for _ in range(2))
            i = rng.randrange(0, min(len(s), 12) + 1)
            s = s[:i] + rng.choice(bad_chars) + s[i + (1 if rng.random() < 0.5 else 0):]
        elif k < 0.72:                                 # hyphen / underscore structure
            parts = [rng.choice(WORDS) for _ in range(rng.choice([2, 3]))]
            sep = rng.choice(["--", "---", "-", "_", "__", "-_"])
            s = sep.join(parts)
            s = rng.choice(["", "-", "_", "--"]) + s + rng.choice(["", "-", "_", "--", "\n"])
        elif k < 0.84:                                 # length boundaries
            ln = rng.choice([0, 1, 2, 3, 4, 249, 250, 251, 252, 300])
            alphabet = rng.choice([LOWER, LOWER + DIGITS, LOWER + "-", LOWER + "_", DIGITS])
            s = "".join(rng.choice(alphabet) for _ in range(ln))
            if rng.random() < 0.2:
                s += "\n"
        elif k < 0.92:                                 # leading character
            s = rng.choice(list(DIGITS + "-_A")) + gen_valid_type(rng)
        else:                                          # random short soup
            s = "".join(rng.choice(LOWER + DIGITS + "-_-_ A\n") for _ in range(rng.randrange(1, 9)))
        out.append(s)
    return list(dict.fromkeys(out))


def new_uuid(rng):
    return str(uuid.UUID(int=rng.getrandbits(128), version=4))


PROP_POOL_VALID = [["prop1", "plain"], ["count_it", "int"], ["some_ref", "ref"], ["more_refs", "reflist"],
                   ["tags", "listplain"], ["x_extra", "plain"], ["x_aaa", "int"], ["name2", "plain"],
                   ["xref_count", "int"], ["xa1", "plain"]]
PROP_POOL_BAD_NAME = [["q", "plain"], ["aB", "plain"], ["a b", "plain"], ["a-b", "plain"], ["ab", "int"],
                      ["Abc", "plain"], ["1abc", "plain"], ["_abc", "plain"], ["abc\n", "plain"], ["p" * 251, "plain"],
                      ["abé", "plain"]]
PROP_POOL_BAD_REF = [["foo_ref", "plain"], ["foo_refs", "reflist_wrong"], ["bar_refs", "plain"], ["baz_ref", "reflist"],
                     ["src_host_ref", "plain"], ["x_owner_ref", "int"], ["related_host_refs", "listplain"],
                     ["a_b_c_refs", "reflist_wrong"], ["x_my_host_ref", "reflist"]]

# the _ref / _refs rule of _validate_ref_props looks at what follows the LAST underscore: names with 0..3 underscores,
# the suffix at the end, in the middle and at the front
REF_RULE_NAMES = ["ref", "refs", "hostref", "hostrefs",
                  "host_ref", "host_refs", "ref_host", "refs_host", "host_reference", "x_ref", "x_refs",
                  "src_host_ref", "x_owner_ref", "related_host_refs", "x_more_refs", "a_ref_b", "a_refs_b", "ref_a_ref", "x_ref_refs",
                  "x_my_host_ref", "a_b_c_refs", "a_ref_b_c", "a_b_ref_c", "ref_a_b_refs"]
REF_RULE_KINDS = ["plain", "int", "listplain", "ref", "reflist", "objref", "objreflist"]


def ref_rule_ok(name, kind, obs20):
    """registration._validate_ref_props, restated: the text after the last underscore decides."""
    tail = name.rsplit("_", 1)[-1]
    if tail == "ref":
        return kind == ("objref" if obs20 else "ref")
    if tail == "refs":
        return kind == ("objreflist" if obs20 else "reflist")
    return True


def gen_ref_grid(run, first_id, thorough):
    """One history per registration kind and version: registrations of fresh type names, each with one property of
    the grid REF_RULE_NAMES x REF_RULE_KINDS (all of it in the thorough tier, a sample in the quick tier)."""
    rng = run.rng
    grid = [(n, k) for n in REF_RULE_NAMES for k in REF_RULE_KINDS]
    out = []
    for kind in KIND_CAT:
        for ver in ("2.0", "2.1"):
            pairs = grid if thorough else rng.sample(grid, 26)
            ops = []
            for j, (pn, pk) in enumerate(pairs):
                name = "x-rr%d-%s" % (j, gen_valid_type(rng)) + ("-ext" if kind == "extension" else "")
                ops.append({"op": "reg", "kind": kind, "ver": ver, "name": name, "cls": "R%d" % j,
                            "props": [["prop1", "plain"], [pn, pk]]})
                if j % 9 == 0:
                    ops.append({"op": "cft", "name": name, "ver": ver, "cat": KIND_CAT[kind]})
            ops.append({"op": "tables"})
            out.append({"k": "history", "id": first_id + len(out), "ops": ops})
    return out
# names in the symmetric difference of the two versions' rules (2.0 admits a leading digit / hyphen, 2.1 does not)
VERSION_ONLY_TYPE_NAMES = ["7x-early", "-lead-hyphen", "9abc", "0-a-b", "42-types"]
VERSION_ONLY_PROP_NAMES = [["1abc", "plain"], ["9_lives", "int"], ["_under", "plain"]]
BAD_TYPE_NAMES = ["x_bad", "X-up", "ab", "x--double", "x-nl\n", "7x-lead", "-lead", "x-" + "a" * 249, "a b", "x-é"]
BUILTIN_NAMES = {"object": ["identity", "malware", "bundle"], "observable": ["file", "ipv4-addr", "url"],
                 "marking": ["tlp", "statement"], "extension": ["archive-ext", "ntfs-ext"]}
EXTTYPES = [None, None, "property-extension", "toplevel-property-extension", "new-sdo", "new-sco", "new-sro"]


def gen_props(rng, kind, ver):
    ps = [list(p) for p in rng.sample(PROP_POOL_VALID, rng.randrange(1, 4))]
    if rng.random() < 0.08:
        ps = []
    r = rng.random()
    if r < 0.22:
        ps.insert(rng.randrange(len(ps) + 1), list(rng.choice(PROP_POOL_BAD_NAME)))
    elif r < 0.32:
        ps.insert(rng.randrange(len(ps) + 1), list(rng.choice(PROP_POOL_BAD_REF)))
    out = []
    for name, k in ps:
        if k == "reflist_wrong":
            k = "objreflist" if not (kind == "observable" and ver == "2.0") else "reflist"
        elif kind == "observable" and ver == "2.0" and k in ("ref", "reflist") and name in ("some_ref", "more_refs"):
            k = {"ref": "objref", "reflist": "objreflist"}[k]      # what a valid 2.0 observable needs
        out.append([name, k] + ([True] if rng.random() < 0.25 and k != "int" else []))
    if rng.random() < 0.06 and out:
        out.append(list(out[0]))                                    # a repeated property name
    return out


def gen_history(run, idx, max_regs=8):
    rng = run.rng
    pool = {k: [] for k in KIND_CAT}
    base = [gen_valid_type(rng) for _ in range(3)]
    for k in KIND_CAT:
        names = ["x-" + b for b in base[:2]] + [rng.choice(BUILTIN_NAMES[k])]
        if k == "extension":
            names = ["x-" + base[0] + "-ext", "x-" + base[1] + "-ext", "x-" + base[2], EXTDEF + new_uuid(rng),
                     rng.choice(BUILTIN_NAMES[k])]
        pool[k] = names
    # '-ext' in the middle / followed by more characters (the 2.1 rule wants it at the END)
    pool["extension"].append(rng.choice(["x-%s-extra", "x-ext-%s", "x-%s-ext-", "x-%s-ext-data", "x-%s-extension"]) % base[1])
    pool["object"].append(rng.choice(["grouping", "note", "opinion", "incident", "location"]))   # built-in in 2.1 only: free in 2.0
    extpool = [pool["extension"][3], EXTDEF + new_uuid(rng)]      # extension ids shared by extension_name= and CustomExtension
    pool["extension"].append(extpool[1])
    ops, regs = [], []
    nreg = rng.randrange(2, max_regs + 1)
    clsno = 0
    for _ in range(nreg):
        if regs and rng.random() < 0.38:                               # aim at a name already used
            prev = rng.choice(regs)
            kind, name = prev["kind"], prev["name"]
            ver = prev["ver"] if rng.random() < 0.6 else rng.choice(["2.0", "2.1"])
            if rng.random() < 0.25:
                kind = rng.choice(list(KIND_CAT))                      # same name, other category
        else:
            kind = rng.choice(list(KIND_CAT))
            ver = rng.choice(["2.0", "2.1"])
            name = rng.choice(pool[kind]) if rng.random() < 0.82 else rng.choice(BAD_TYPE_NAMES)
        clsno += 1
        op = {"op": "reg", "kind": kind, "ver": ver, "name": name, "props": gen_props(rng, kind, ver),
              "cls": "C%d" % clsno}
        if kind == "extension":
            xt = rng.choice(EXTTYPES)
            if xt:
                op["exttype"] = xt
        if kind in ("object", "observable") and ver == "2.1" and rng.random() < 0.3:   # v20 decorators have no such parameter
            op["extname"] = rng.choice(extpool) if rng.random() < 0.6 else rng.choice(
                [EXTDEF + new_uuid(rng), "x-side-ext", "", "x-nodash", EXTDEF + "1-2--3"])
        if kind in ("marking", "extension") and rng.random() < 0.6:   # (the object / observable wrappers want a list of pairs)
            op["props_as"] = "dict"
        if rng.random() < 0.3:
            op["call"] = "keywords"                                    # Custom*(type=..., properties=...) instead of positionally
        if rng.random() < 0.25:
            ops.append(gen_lookup(rng, [op], pool))                    # asked BEFORE the registration (a negative answer must not stick)                                    # the caller hands over its own dictionary
        ops.append(op)
        regs.append(op)
        if rng.random() < 0.3:                                         # ... and goes on using a properties object it passed earlier
            ops.append({"op": "mutate", "target": rng.choice(regs)["cls"],
                        "prop": rng.choice([["later_prop", "plain"], ["Bad-Name", "plain"], ["x", "int"], ["zz_more", "listplain"]])})
        for _ in range(rng.choice([0, 1, 1, 2, 3])):
            ops.append(gen_lookup(rng, regs, pool))
    if rng.random() < 0.35:
        # the same request under both versions, in either order, with a name (or a property name) that only ONE of the
        # two versions' rules admits: what one version accepted must not make the other version accept it
        kind = rng.choice(list(KIND_CAT))
        name = rng.choice(VERSION_ONLY_TYPE_NAMES) if rng.random() < 0.7 else "x-" + base[0] + "-both"
        if kind == "extension":
            name += "-ext"
        props = [["prop1", "plain"]] + ([list(rng.choice(VERSION_ONLY_PROP_NAMES))] if rng.random() < 0.5 else [])
        first, second = rng.choice([("2.0", "2.1"), ("2.1", "2.0")])
        for ver in (first, second):
            clsno += 1
            op = {"op": "reg", "kind": kind, "ver": ver, "name": name, "props": [list(p) for p in props], "cls": "C%d" % clsno}
            ops.append(op)
            regs.append(op)
            if rng.random() < 0.5:
                ops.append(gen_lookup(rng, regs, pool))
    for _ in range(rng.randrange(2, 7)):
        ops.append(gen_lookup(rng, regs, pool))
    ops.append({"op": "tables"})                                       # did any registered class table change since its registration?
    for o in ops:
        if o["op"] in ("parse", "parse_obs") and rng.random() < 0.3:
            o["as_text"] = True                                        # the same data as JSON text
    case = {"k": "history", "id": idx, "ops": ops}
    if idx % 4 == 3:
        case["env"] = {"TZ": rng.choice(["JST-9", "EST5EDT"]), "PYTHONHASHSEED": str(rng.randrange(1, 10000))}
    return case


def gen_lookup(rng, regs, pool):
    if regs and rng.random() < 0.8:
        t = rng.choice(regs)
        name, ver, kind = t["name"], t["ver"], t["kind"]
        if t.get("extname") and rng.random() < 0.3:
            name, kind = t["extname"], "extension"
    else:
        kind = rng.choice(list(KIND_CAT))
        name, ver = rng.choice(pool[kind] + ["x-never-registered"]), rng.choice(["2.0", "2.1"])
    if rng.random() < 0.35:
        ver = "2.0" if ver == "2.1" else "2.1"                          # the other version
    r = rng.random()
    if r < 0.34:
        cat = rng.choice([KIND_CAT[kind], KIND_CAT[kind], None, rng.choice(CATS), "", "nonsense"])
        v = ver if rng.random() < 0.9 else rng.choice(["2.2", "", "21"])
        return {"op": "cft", "name": name, "ver": v, "cat": cat}
    if r < 0.60 or kind == "object":
        return {"op": "parse", "name": name, "specv": rng.choice([None, None, "2.1", "2.0"]), "has_id": rng.random() < 0.7,
                "version": rng.choice([ver, ver, ver, None, "2.2"]), "allow_custom": rng.random() < 0.3,
                "exts": rng.choice([[], [], [], [[EXTDEF + new_uuid(rng), "new-sdo"]], [[EXTDEF + new_uuid(rng), "property-extension"]],
                                    [["x-foo-ext", ""]], [[EXTDEF + new_uuid(rng), ""]]])}
    if kind == "observable":
        return {"op": "parse_obs", "name": name, "specv": rng.choice([None, None, "2.1"]), "has_id": rng.random() < 0.5,
                "version": rng.choice([ver, ver, None]), "allow_custom": rng.random() < 0.3}
    if kind == "marking":
        return {"op": "marking", "ver": ver, "name": name}
    return {"op": "ext", "ver": ver, "name": name, "allow_custom": rng.random() < 0.4}


def gen_guarantee(run, idx):
    """A handful of fully valid registrations whose types are then exercised."""
    rng = run.rng
    regs = []
    for j in range(rng.randrange(2, 5)):
        kind = rng.choice(list(KIND_CAT))
        ver = rng.choice(["2.0", "2.1"])
        name = "x-g%d-%s" % (j, gen_valid_type(rng)) + ("-ext" if kind == "extension" else "")
        props = []
        for pn, pk in rng.sample(PROP_POOL_VALID, rng.randrange(1, 5)):
            if kind == "observable" and ver == "2.0" and pk in ("ref", "reflist"):
                continue                                                # would need observed-data scaffolding
            props.append([pn, pk] + ([True] if pk != "int" and rng.random() < 0.4 else []))
        if not props:
            props = [["prop1", "plain", True]]
        op = {"op": "reg", "kind": kind, "ver": ver, "name": name, "props": props, "cls": "G%d" % j}
        if kind in ("object", "observable") and ver == "2.1" and rng.random() < 0.35:
            op["extname"] = EXTDEF + new_uuid(rng)
        regs.append(op)
    return {"k": "guarantee", "id": idx, "regs": regs}


# ------------------------------------------------------------------ model terms

def ou(s):
    return common.coq_option(None if s is None else common.coq_ustr(s))


def coq_ver(v):
    return {"2.0": "V20", "2.1": "V21"}[v]


def op_term(o):
    k = o["op"]
    if k == "reg":
        props = common.coq_list(["(%s, %s)" % (common.coq_ustr(p[0]), PK_COQ[p[1]]) for p in o["props"]])
        xt = "None" if not o.get("exttype") else "(Some %s)" % XT_COQ[o["exttype"]]
        return "R %s %s %s %s %s %s %s" % (KIND_COQ[o["kind"]], coq_ver(o["ver"]), common.coq_ustr(o["name"]), props,
                                         common.coq_ustr("stix2.custom." + o["cls"]), xt, ou(o.get("extname")))
    if k == "cft":
        return "ClassForType %s %s %s" % (common.coq_ustr(o["name"]), common.coq_ustr(o["ver"]), ou(o.get("cat")))
    if k == "parse":
        exts = common.coq_list(["(%s, %s)" % (common.coq_ustr(a), common.coq_ustr(b)) for a, b in o.get("exts") or []])
        return "Parse %s %s %s %s %s %s" % (common.coq_ustr(o["name"]), ou(o.get("specv")), common.coq_bool(o["has_id"]),
                                          ou(o.get("version")), common.coq_bool(o["allow_custom"]), exts)
    if k == "parse_obs":
        return "ParseObservable %s %s %s %s %s" % (common.coq_ustr(o["name"]), ou(o.get("specv")), common.coq_bool(o["has_id"]),
                                                 ou(o.get("version")), common.coq_bool(o["allow_custom"]))
    if k == "marking":
        return "MarkingDispatch %s %s" % (coq_ver(o["ver"]), common.coq_ustr(o["name"]))
    if k == "ext":
        return "ExtensionDispatch %s %s %s %s" % (coq_ver(o["ver"]), common.coq_ustr(o["name"]),
                                                 common.coq_bool(o["allow_custom"]), common.coq_bool(uuid_ok(o["name"], o["ver"])))
    raise ValueError(k)


def uuid_ok(name, ver):
    """What properties._check_uuid decides for the text after "extension-definition--" (CPython's uuid.UUID)."""
    if not name.startswith(EXTDEF):
        return False
    try:
        x = uuid.UUID(name[len(EXTDEF):])
    except ValueError:
        return False
    ok = x.variant == uuid.RFC_4122
    if ok and ver == "2.0":
        ok = x.version == 4
    return ok


HARNESS_ONLY = {"mutate": "ok", "tables": "same"}     # no counterpart in the model (its classes are values): what must be observed


def history_term(case):
    return "show_history vt builtin_registry %s" % common.coq_list([op_term(o) for o in case["ops"] if o["op"] not in HARNESS_ONLY])


def model_observations(case, line):
    """The model's line, with the observations the harness-only operations must give put in their places."""
    ms = line.split("|") if line else []
    if sum(1 for o in case["ops"] if o["op"] not in HARNESS_ONLY) == 0:
        ms = []
    out, i = [], 0
    for o in case["ops"]:
        if o["op"] in HARNESS_ONLY:
            out.append(HARNESS_ONLY[o["op"]])
        else:
            out.append(ms[i] if i < len(ms) else "MISSING")
            i += 1
    return out


def names_term(s):
    return "show_name_verdicts vt %s" % common.coq_ustr(s)


# ------------------------------------------------------------------ the oracle

ANY = object()


def reg_expect_valid(o):
    """True when every reading of the rules says this registration is fine (then a free name must be accepted)."""
    kind, ver, name = o["kind"], o["ver"], o["name"]
    if o.get("extname"):
        return False                                                    # the side extension has rules of its own
    if kind == "extension":
        if ver == "2.1" and name.startswith(EXTDEF):
            if not uuid_ok(name, "2.1"):
                return False
        elif not type_fully_valid(name, ver) or (ver == "2.1" and not name.endswith("-ext")):
            return False
        if not o["props"]:
            return False
    elif not type_fully_valid(name, ver):
        return False
    names = [p[0] for p in o["props"]]
    if len(set(names)) != len(names):
        return False
    obs20 = kind == "observable" and ver == "2.0"
    for p in o["props"]:
        if not prop_fully_valid(p[0]):
            return False
        tail = p[0].rsplit("_", 1)[-1]
        if tail == "ref" and p[1] != ("objref" if obs20 else "ref"):
            return False
        if tail == "refs" and p[1] != ("objreflist" if obs20 else "reflist"):
            return False
        if p[0] in ("type", "id", "created", "modified", "extensions", "spec_version", "extension_type"):
            return False
    return True


def oracle_history(case, obs, builtin):
    """Reference dictionary over the implementation's own observations."""
    out = []
    taken = dict(builtin)
    unsure = set()

    def viol(what, i, finding=None, tag=""):
        v = Violation(what, {"kind": "history", "case": case, "at": i, "observed": obs, "tag": tag}, finding)
        v.tag = tag
        out.append(v)

    for i, (o, ob) in enumerate(zip(case["ops"], obs)):
        k = o["op"]
        if k == "reg":
            key = (o["ver"], KIND_CAT[o["kind"]], o["name"])
            side = None
            if o["ver"] == "2.1" and o["kind"] in ("object", "observable") and o.get("extname"):
                side = ("2.1", "extensions", o["extname"])
            if ob == "ok":
                if side and side in taken and side not in unsure:
                    viol("registration of %r (%s %s) with extension_name=%r accepted although an extension is already registered "
                         "under that name" % (o["name"], o["ver"], o["kind"], o["extname"]), i, tag="dup-accepted")
                if key in taken and key not in unsure:
                    viol("registration of %r as %s %s accepted although the name was taken (by %s)"
                         % (o["name"], o["ver"], o["kind"], "a built-in" if key in builtin else "an earlier registration"), i, tag="dup-accepted")
                if o["kind"] == "extension":
                    if o["ver"] == "2.1" and not (o["name"].endswith("-ext") or o["name"].startswith(EXTDEF)):
                        viol("2.1 extension name %r neither ends with '-ext' nor starts with 'extension-definition--' and was "
                             "accepted" % o["name"], i, tag="bad-ext-suffix-accepted")
                    if not ext_name_must(o["name"], o["ver"]):
                        viol("extension name %r (%s) breaks the naming rule and was accepted" % (o["name"], o["ver"]), i,
                             classify_type_name(o["name"], o["ver"]), tag="bad-type-accepted")
                elif not type_must(o["name"]):
                    viol("type name %r (%s %s) breaks the naming rule and was accepted" % (o["name"], o["ver"], o["kind"]), i,
                         classify_type_name(o["name"], o["ver"]), tag="bad-type-accepted")
                for p in o["props"]:
                    if not prop_must(p[0]):
                        viol("property name %r (%s %s %r) breaks the naming rule and was accepted"
                             % (p[0], o["ver"], o["kind"], o["name"]), i, classify_prop_name(p[0], o["ver"]), tag="bad-prop-accepted")
                obs20 = o["kind"] == "observable" and o["ver"] == "2.0"
                final = dict((p[0], p[1]) for p in o["props"])              # a repeated name keeps its last value
                for pn, pk in final.items():
                    if not ref_rule_ok(pn, pk, obs20):
                        viol("property %r of kind %s (%s %s %r) is named like a reference%s property but is not one, and was "
                             "accepted" % (pn, pk, o["ver"], o["kind"], o["name"], " list" if pn.endswith("s") else ""), i,
                             tag="bad-ref-accepted")
                taken.setdefault(key, "stix2.custom." + o["cls"])
                if side:
                    taken.setdefault(side, ANY)
            else:
                if side and side not in taken:
                    unsure.add(side)                                    # may or may not have been registered before the failure
                if key not in taken and key not in unsure and reg_expect_valid(o):
                    viol("valid registration of %r as %s %s refused: %s" % (o["name"], o["ver"], o["kind"], ob), i, tag="valid-refused")
            continue
        if k == "mutate":
            continue
        if k == "tables":
            if ob != "same":
                viol("the class table of registered type(s) %s changed after registration (the caller went on using the "
                     "properties object it had passed)" % ob.split(":", 1)[-1], i, tag="table-changed")
            continue
        # lookups
        name = o["name"]

        def expect(ver, cats):
            for c in cats:
                if (ver, c, name) in unsure:
                    return "skip"
                if (ver, c, name) in taken:
                    return taken[(ver, c, name)]
            return None

        if k == "cft":
            if o["ver"] not in ("2.0", "2.1"):
                want = None
            elif o.get("cat"):
                want = expect(o["ver"], [o["cat"]]) if o["cat"] in CATS else None
            else:
                want = expect(o["ver"], CATS)
            what = "class_for_type(%r, %r, %r)" % (name, o["ver"], o.get("cat"))
        elif k == "parse":
            if o.get("version") not in ("2.0", "2.1"):
                continue                                                # version detection heuristics are not in the property
            want = expect(o["version"], ["objects", "observables"])
            what = "parse(type=%r, version=%r)" % (name, o["version"])
        elif k == "parse_obs":
            if o.get("version") not in ("2.0", "2.1"):
                continue
            want = expect(o["version"], ["observables"])
            what = "parse_observable(type=%r, version=%r)" % (name, o["version"])
        elif k == "marking":
            want = expect(o["ver"], ["markings"])
            what = "marking-definition with definition_type=%r (%s)" % (name, o["ver"])
        else:
            want = expect(o["ver"], ["extensions"])
            what = "extension %r on a %s object" % (name, o["ver"])
        if want == "skip":
            continue
        if want is None:
            if ob.startswith("cls:"):
                viol("%s dispatches to %s although nothing is registered under that name for that version" % (what, ob[4:]), i,
                     tag="lookup-unregistered")
        elif want is ANY:
            if not ob.startswith("cls:"):
                viol("%s gives %s although an extension was registered under that name" % (what, ob), i, tag="lookup-missing")
        elif ob != "cls:" + want:
            viol("%s gives %s, registered class is %s" % (what, ob, want), i, tag="lookup-wrong")
    return out


def oracle_guarantee(case, res):
    out = []

    def viol(what, r):
        out.append(Violation(what, {"kind": "guarantee", "case": case, "observed": r}))

    if not isinstance(res, list):
        return [Violation("guarantee case did not run: %s" % json.dumps(res)[:300], {"kind": "guarantee", "case": case, "observed": res})]
    for r in res:
        tag = "%s %s %r" % (r.get("ver"), r.get("kind"), r.get("name"))
        if r.get("registered") != "ok":
            viol("valid registration refused (%s): %s" % (tag, r.get("registered")), r)
            continue
        if r.get("parse") != "ok":
            viol("a document of registered type %s does not parse: %s" % (tag, r.get("parse")), r)
            continue
        if r.get("dispatch") != r.get("expected_class"):
            viol("registered type %s parses to %s, not to the registered class" % (tag, r.get("dispatch")), r)
        if r.get("roundtrip_equal") is not True or r.get("roundtrip_text_equal") is not True or r.get("values_kept") is not True \
                or r.get("roundtrip_same_class") is not True:
            viol("registered type %s does not round-trip (== %s, text byte for byte %s, values kept %s, same class %s)"
                 % (tag, r.get("roundtrip_equal"), r.get("roundtrip_text_equal"), r.get("values_kept"), r.get("roundtrip_same_class")), r)
        cx = r.get("custom_extra")
        if cx is not None:
            if cx.get("construct") != "ok" or cx.get("parse") != "ok" or cx.get("given_kept_construct") is not True \
                    or cx.get("given_kept_parse") is not True or cx.get("equal") is not True or cx.get("text_equal") is not True:
                viol("registered type %s with allow_custom=True and an undeclared property: constructing and parsing the same "
                     "data must give the same object with every given property in it: %s" % (tag, cx), r)
        ee = r.get("extra_extensions")
        if ee is not None:
            if ee.get("parse") != "ok" or ee.get("kept") is not True or ee.get("extname_present") is not True \
                    or ee.get("roundtrip_equal") is not True or ee.get("roundtrip_text_equal") is not True:
                viol("instance of registered type %s carrying other extensions (a registered property-extension, an "
                     "unregistered extension-definition): %s" % (tag, ee), r)
        for vp in r.get("version_probes") or []:
            if vp["custom"] != vp["builtin"]:
                viol("registered type %s is not validated like the built-in %s %s: %s -> custom %s, built-in %s"
                     % (tag, r.get("ver"), vp["builtin_type"], vp["probe"], vp["custom"], vp["builtin"]), r)
        si = r.get("side_instance")
        if si is not None:
            want_type = "new-sco" if r.get("kind") == "observable" else "new-sdo"
            if not si.get("registered") or si.get("found") != si.get("registered") or si.get("extension_type") != want_type:
                viol("instance of %s registered with extension_name= does not carry the side extension: %s" % (tag, si), r)
        for p, st in (r.get("missing") or {}).items():
            if st == "ok":
                viol("registered type %s accepted without its required property %r" % (tag, p), r)
        for p, st in (r.get("wrong") or {}).items():
            if st == "ok":
                viol("registered type %s accepted a wrong-kind value for %r" % (tag, p), r)
        if r.get("extra") == "ok":
            viol("registered type %s accepted an undeclared property without allow_custom" % tag, r)
        nv = r.get("new_version")
        if nv is not None:
            if not isinstance(nv, dict):
                viol("new_version of registered type %s raised %s" % (tag, nv), r)
            else:
                if not (nv.get("later") and nv.get("same_id") and nv.get("same_class")):
                    viol("new_version of registered type %s: %s" % (tag, nv), r)
                if nv.get("id_change") == "ok":
                    viol("new_version of registered type %s allowed changing the id" % tag, r)
    return out


# ------------------------------------------------------------------ custom types inherit: the class table a decorator builds

HEADER_B = """From Coq Require Import NArith ZArith List String.
From V Require Import Base.UString Base.Json Model.SchemaTypes Model.RegistryBuilder.
From V Require Model.Registry.
Import ListNotations. Open Scope string_scope.
"""

USER_KINDS = [
    {"k": "string"}, {"k": "string"}, {"k": "int", "min": None, "max": None}, {"k": "int", "min": 0, "max": 65535},
    {"k": "int", "min": -5, "max": None}, {"k": "float", "min": None, "max": None}, {"k": "float", "min": 0, "max": 1},
    {"k": "bool"}, {"k": "bool", "default": False}, {"k": "bool", "default": True},
    {"k": "time", "prec": "any", "constr": "exact"}, {"k": "time", "prec": "millisecond", "constr": "min"},
    {"k": "time", "prec": "second", "constr": "exact"}, {"k": "dict"}, {"k": "binary"}, {"k": "hex"},
    {"k": "enum", "allowed": ["a", "b-c", "d"]}, {"k": "openvocab", "allowed": ["x", "y"]},
    {"k": "list", "of": {"k": "string"}}, {"k": "list", "of": {"k": "int", "min": 1, "max": None}},
    {"k": "list", "of": {"k": "enum", "allowed": ["p", "q"]}},
]
USER_NAMES = ["prop1", "name2", "count_it", "tags", "flag", "when_seen", "x_zeta", "x_alpha", "x_mid", "x_b", "x_alpha2", "xref_count", "xa1", "xxx",
              "xylo", "description", "value"]


def dump_kind(spec, ver):
    """The generated property spec in the format translators/dump_tables.py gives for the live Property object."""
    k = spec["k"]
    if k in ("string", "bool", "binary", "hex"):
        return {"k": k}
    if k in ("int", "float"):
        return {"k": k, "min": spec.get("min"), "max": spec.get("max")}
    if k == "time":
        return dict(spec)
    if k == "dict":
        return {"k": "dict", "ver": ver}
    if k in ("enum", "openvocab"):
        return {"k": k, "allowed": list(spec["allowed"])}
    if k == "ref":
        return {"k": "ref", "white": True, "generics": [], "specifics": sorted(spec["specifics"]), "ver": ver}
    if k == "objref":
        return {"k": "objref", "valid_types": spec.get("valid_types")}
    if k == "list":
        return {"k": "list", "of": dump_kind(spec["of"], ver)}
    raise ValueError(spec)


def dump_default(spec):
    if spec["k"] == "bool" and "default" in spec:
        return {"d": "const", "v": spec["default"]}
    return {"d": "none"}


def esc(s):
    return "".join(ch if (32 <= ord(ch) <= 126 and ch not in '\\"') else "\\%06X" % ord(ch) for ch in s)


def render_ulist(l):
    return "[" + ",".join(esc(x) for x in l) + "]"


def render_optz(z):
    return "-" if z is None else str(z)


def render_kind(k):
    t = k["k"]
    if t in ("string", "pattern", "bool", "binary", "hex", "selector", "any"):
        return t
    if t == "objref":
        return "objref" + render_ulist(k.get("valid_types") or [])
    if t == "fixed":
        return "fixed(%s)%s" % (esc(k["v"]), render_ulist(k.get("allowed", [])))
    if t == "id":
        return "id(%s,%s)" % (esc(k["prefix"]), k["ver"])
    if t in ("int", "float"):
        return "%s(%s,%s)" % (t, render_optz(k["min"]), render_optz(k["max"]))
    if t == "time":
        return "time(%s,%s)" % (k["prec"], k["constr"])
    if t in ("dict", "observable", "extensions", "stixobject", "marking"):
        return "%s(%s)" % (t, k["ver"])
    if t == "hashes":
        return "hashes%s(%s)" % (render_ulist(k["names"]), k["ver"])
    if t == "ref":
        return "ref(%s,%s,%s,%s)" % ("true" if k["white"] else "false", render_ulist(k["generics"]), render_ulist(k["specifics"]), k["ver"])
    if t in ("embedded", "listof"):
        return "%s(%s)" % (t, esc(k["cls"]))
    if t in ("enum", "openvocab"):
        return t + render_ulist(k["allowed"])
    if t == "list":
        return "list<%s>" % render_kind(k["of"])
    raise ValueError(k)


def render_default(d):
    if d["d"] != "const":
        return d["d"]
    v = d["v"]
    if v is True or v is False:
        return "const:" + ("true" if v else "false")
    if v is None:
        return "const:null"
    if isinstance(v, str):
        return "const:'%s'" % esc(v)
    if isinstance(v, int):
        return "const:%d" % v
    return "const:?"


def render_cls(d):
    slots = ["%s:%s:%s:%s" % (esc(s["name"]), render_kind(s["kind"]), "true" if s["required"] else "false",
                              render_default(s["default"])) for s in d["slots"]]
    return "%s %s %s %s contrib%s %s" % (esc(d["cid"]), d["ver"], esc(d["type"]) if d["type"] is not None else "-",
                                         d["family"], render_ulist(d["id_contrib"]), " ; ".join(slots))


def render_info(d):
    side = d.get("side")
    return "%s | toplevel %s | with_extension %s | side %s" % (
        render_cls(d),
        " ; ".join("%s:%s:%s:%s" % (esc(x["name"]), render_kind(x["kind"]), "true" if x["required"] else "false",
                                    render_default(x["default"])) for x in d.get("toplevel") or []),
        esc(d["with_extension"]) if d.get("with_extension") else "-",
        "-" if not side else ("MISSING" if side.get("missing") else render_cls(side)))


def gen_inherit(run, idx):
    rng = run.rng
    regs = []
    for j in range(rng.randrange(2, 5)):
        kind = rng.choice(list(KIND_CAT))
        ver = rng.choice(["2.0", "2.1"])
        name = "x-i%d-%s" % (j, gen_valid_type(rng)) + ("-ext" if kind == "extension" else "")
        props = []
        for pn in rng.sample(USER_NAMES, rng.randrange(1, 7)):
            spec = rng.choice(USER_KINDS)
            props.append([pn, spec, rng.random() < 0.3 and "default" not in spec])   # required and default exclude each other
        r = rng.random()
        obs20 = kind == "observable" and ver == "2.0"
        if r < 0.35:
            props.insert(rng.randrange(len(props) + 1),
                         ["actor_ref", {"k": "objref", "valid_types": None} if obs20 else {"k": "ref", "specifics": ["identity", "malware"]}, False])
        if r > 0.75:
            props.insert(rng.randrange(len(props) + 1),
                         ["x_more_refs", {"k": "list", "of": {"k": "objref", "valid_types": ["file"]} if obs20 else {"k": "ref", "specifics": ["tool"]}}, False])
        if rng.random() < 0.15 and props[0][0].rsplit("_", 1)[-1] not in ("ref", "refs"):
            props.append([props[0][0], rng.choice(USER_KINDS), False])      # a repeated name: last value, first position
        if rng.random() < 0.12 and kind in ("object", "observable"):
            props.append([rng.choice(["labels", "extensions", "revoked"]), {"k": "string"}, False])   # overrides a standard one
        op = {"kind": kind, "ver": ver, "name": name, "props": props, "cls": "I%d" % j}
        if kind == "extension":
            xt = rng.choice([None, "property-extension", "new-sdo", "new-sco", "new-sro", "toplevel-property-extension"])
            if xt:
                op["exttype"] = xt
        if kind in ("object", "observable") and ver == "2.1" and rng.random() < 0.3:
            op["extname"] = EXTDEF + new_uuid(rng)                      # registers a NameExtension on the side
        if kind == "observable" and ver == "2.1" and rng.random() < 0.5:     # the v20 decorator has no such parameter
            op["id_contrib"] = [p[0] for p in props[:rng.randrange(0, 3)]]
        regs.append(op)
    return {"k": "dump", "id": idx, "regs": regs}


CK_COQ = {"object": "CObject", "observable": "CObservable", "marking": "CMarking", "extension": "CExtension"}
XTR_COQ = {k: "Registry." + v for k, v in XT_COQ.items()}


def inherit_term(o, conf_range):
    import tr_tables
    slots = ["mk_slot %s %s %s %s" % (common.coq_ustr(p[0]), tr_tables.kind(dump_kind(p[1], o["ver"])),
                                     common.coq_bool(bool(p[2])), tr_tables.dflt(dump_default(p[1]))) for p in o["props"]]
    xt = "None" if not o.get("exttype") else "(Some %s)" % XTR_COQ[o["exttype"]]
    return "show_info (custom_info_of {| b_conf_range := %s |} %s %s %s %s %s %s %s %s)" % (
        common.coq_bool(conf_range), CK_COQ[o["kind"]], coq_ver(o["ver"]), common.coq_ustr(o["name"]), xt,
        common.coq_list(slots), common.coq_ustr(o["cls"]), common.coq_list([common.coq_ustr(x) for x in o.get("id_contrib") or []]),
        ou(o.get("extname")))


def validation_class(ob):
    """What a registration's outcome says about the VALIDATION of the request (the duplicate test comes after it)."""
    return "passes-validation" if ob in ("ok", "exc:DuplicateRegistrationError") else ob


def order_candidates(good, limit):
    """Registrations (without extension_name=, whose side registration comes before the property check) of a name that
    an earlier operation of the same history already used under another version or kind."""
    out = []
    for c, r in good:
        prior = []
        for i, (o, x) in enumerate(zip(c["ops"], r)):
            if o["op"] != "reg":
                continue
            if not o.get("extname") and any(p["name"] == o["name"] and (p["ver"] != o["ver"] or p["kind"] != o["kind"]) for p in prior):
                out.append((c, i, o, x))
            prior.append(o)
    # first the requests whose validity is not the same under every reading (names / property names outside the
    # fully valid sets): that is where an earlier verdict could leak
    def doubtful(t):
        o = t[2]
        return not (type_fully_valid(o["name"], o["ver"]) and all(prop_fully_valid(p[0]) for p in o["props"]))
    out.sort(key=lambda t: not doubtful(t))
    return out[:limit]


def oracle_order(cands):
    """Whether a request passes validation does not depend on what was registered before: the same single
    registration in a fresh interpreter must pass / fail validation alike."""
    out = []
    if not cands:
        return out
    alone = run_histories([{"k": "history", "ops": [o]} for _, _, o, _ in cands])
    for (c, i, o, x), a in zip(cands, alone):
        if not isinstance(a, list):
            continue
        if validation_class(x) != validation_class(a[0]):
            v = Violation("registration of %r as %s %s: %s after the earlier operations of the history, %s alone in a fresh "
                          "interpreter" % (o["name"], o["ver"], o["kind"], x, a[0]),
                          {"kind": "order", "case": {"ops": c["ops"][:i + 1]}, "at": i, "in_history": x, "alone": a[0]})
            out.append(v)
    return out


def oracle_dump(o, d):
    """Every declared property is in the class table the decorator built (or among the toplevel properties of a
    toplevel-property-extension), and nothing undeclared beyond the standard properties of the kind."""
    have = {sl["name"] for sl in d["slots"]} | {sl["name"] for sl in d.get("toplevel") or []}
    missing = sorted({p[0] for p in o["props"]} - have)
    if missing:
        return [Violation("declared propert%s %s of %s %s %r missing from the registered class (its table has %s)"
                          % ("y" if len(missing) == 1 else "ies", missing, o["ver"], o["kind"], o["name"], sorted(have)),
                          {"kind": "dump", "case": {"regs": [o]}, "observed": {"slots": sorted(have)}})]
    return []


def check_inherit(run, n_cases, model_ok):
    """The class table each decorator builds (live class, dumped with the schema translator's functions) against the
    builder model Model/RegistryBuilder.v."""
    probe = {"k": "dump", "id": -1, "regs": [{"kind": "object", "ver": "2.1", "name": "x-probe", "cls": "P0",
                                              "props": [["prop1", {"k": "string"}, False]]}]}
    cases = [probe] + [gen_inherit(run, i) for i in range(n_cases)]
    res = common.run_impl("c19_dump", cases, procs=min(common.NCPU, max(1, len(cases) // 4)))
    pairs = []
    for c, r in zip(cases, res):
        run.count(c, nontrivial=True)
        if not isinstance(r, list):
            run.broken.append(Broken("correspondence", "class dump case %d did not run" % c["id"], {"result": r}))
            continue
        for o, x in zip(c["regs"], r):
            if x.get("registered") != "ok":
                run.violations.append(Violation("valid registration refused (%s %s %r): %s" % (o["ver"], o["kind"], o["name"], x.get("registered")),
                                                {"kind": "dump", "case": {"regs": [o]}, "observed": x}))
            elif "abort" in x:
                run.broken.append(Broken("correspondence", "class of a custom type could not be dumped", {"reg": o, "abort": x["abort"]}))
            else:
                d = x["cls"]
                run.violations += oracle_dump(o, d)
                if d["has_own_constraints"]:
                    run.broken.append(Broken("correspondence", "custom class has constraints of its own", {"reg": o}))
                pairs.append((o, render_info(d), d))
    # variant of the source: how the v21 CustomObject wrapper writes `confidence` (read off the probe's class)
    conf_range = False
    for o, line, d in pairs:
        if o["name"] == "x-probe":
            ks = [sl["kind"] for sl in d["slots"] if sl["name"] == "confidence"]
            conf_range = bool(ks) and ks[0].get("min") == 0 and ks[0].get("max") == 100
    run.coverage["builder_variant_conf_range"] = conf_range
    run.coverage["inherit_classes_dumped"] = len(pairs)
    if pairs:
        run.sample({"custom class (live, dumped)": pairs[0][1][:600]})
    if model_ok and pairs:
        try:
            mlines = eval_lines("c19b", HEADER_B, [inherit_term(o, conf_range) for o, _, _ in pairs], shard=40)
            dis = [(o, i, m) for (o, i, _), m in zip(pairs, mlines) if i != m]
            run.coverage["inherit_disagreements"] = len(dis)
            if dis:
                run.broken.append(Broken("correspondence", "class table built by a decorator: builder model vs live class",
                                         {"first": [{"reg": o, "impl": i, "model": m} for o, i, m in dis[:3]]}))
        except RuntimeError as e:
            run.broken.append(Broken("correspondence", "model evaluation failed (builder)", {"error": str(e)[-1500:]}))


# ------------------------------------------------------------------ shrinking a failing history (delta debugging)

def still_fails(case, obs, builtin, tag, finding):
    return isinstance(obs, list) and any(getattr(v, "tag", None) == tag and v.finding == finding
                                         for v in oracle_history(case, obs, builtin))


def shrink_history(case, builtin, tag, finding, budget=80):
    """ddmin over the operation list (every candidate runs in a fresh interpreter, candidates of one round in
    parallel), then the property lists of the remaining registrations are cut down.  The result still shows a
    violation of the same kind (tag) and class (finding)."""
    ops = list(case["ops"])
    spent = 0
    n = 2
    while len(ops) >= 2 and spent < budget:
        size = max(1, len(ops) // n)
        cands = []
        for i in range(0, len(ops), size):
            rest = ops[:i] + ops[i + size:]
            if rest:
                cands.append(rest)
        res = run_histories([{"k": "history", "ops": c} for c in cands])
        spent += len(cands)
        hit = None
        for c, r in zip(cands, res):
            if still_fails({"k": "history", "ops": c}, r, builtin, tag, finding):
                hit = c
                break
        if hit is not None:
            ops = hit
            n = max(n - 1, 2)
        elif size == 1:
            break
        else:
            n = min(len(ops), n * 2)
    # simplify the registrations that are left
    for idx, o in enumerate(ops):
        if o["op"] != "reg" or spent >= budget:
            continue
        cands = []
        for j in range(len(o["props"])):
            o2 = dict(o, props=o["props"][:j] + o["props"][j + 1:])
            cands.append(ops[:idx] + [o2] + ops[idx + 1:])
        for key in ("extname", "exttype"):
            if key in o:
                o2 = {k: v for k, v in o.items() if k != key}
                cands.append(ops[:idx] + [o2] + ops[idx + 1:])
        progress = True
        while progress and cands and spent < budget:
            progress = False
            res = run_histories([{"k": "history", "ops": c} for c in cands])
            spent += len(cands)
            for c, r in zip(cands, res):
                if still_fails({"k": "history", "ops": c}, r, builtin, tag, finding):
                    ops = c
                    o = ops[idx]
                    cands = [ops[:idx] + [dict(o, props=o["props"][:j] + o["props"][j + 1:])] + ops[idx + 1:]
                             for j in range(len(o["props"]))]
                    progress = True
                    break
    final = {"k": "history", "ops": ops}
    obs = run_histories([final])[0]
    if still_fails(final, obs, builtin, tag, finding):
        return final, obs, spent
    return None, None, spent


def shrink_violations(run, builtin, limit=3):
    """Replace the replay of the first few unclassified history violations by a minimal history."""
    done, seen = 0, set()
    for v in run.violations:
        if done >= limit:
            break
        r = v.replay
        if v.finding is not None or r.get("kind") != "history" or not getattr(v, "tag", None) or v.tag in seen:
            continue
        seen.add(v.tag)
        if len(r["case"]["ops"]) <= 3:
            continue
        small, obs, spent = shrink_history(r["case"], builtin, v.tag, None)
        done += 1
        if small is None:
            continue
        vs = [x for x in oracle_history(small, obs, builtin) if getattr(x, "tag", None) == v.tag and x.finding is None]
        v.what = vs[0].what
        v.replay = dict(vs[0].replay, shrunk_from=len(r["case"]["ops"]), shrink_runs=spent)
        run.coverage.setdefault("shrunk", []).append({"tag": v.tag, "from": len(r["case"]["ops"]), "to": len(small["ops"]), "runs": spent})


def oracle_cross_version_ext(case, res):
    out = []
    if not isinstance(res, dict) or "crash" in res or "timeout" in res or "register" in res:
        return [Violation("cross-version extension case did not run: %s" % json.dumps(res)[:300], {"kind": "cross_version_ext", "case": case})]
    for key, st in sorted(res.items()):
        same = key.split(": ")[1].split(" ")[0] == key.split(" in a ")[1].split(" ")[0]
        if same and st != "ok":
            out.append(Violation("extension instance of the object's own version not accepted (%s): %s" % (key, st),
                                 {"kind": "cross_version_ext", "case": case, "observed": {key: st}}))
        if not same and not (st.startswith("exc:") or st == "ok"):
            out.append(Violation("an extension instance of the OTHER version's class is taken as it is (%s): %s -- registrations "
                                 "are version-scoped" % (key, st), {"kind": "cross_version_ext", "case": case, "observed": {key: st}}))
    return out


def oracle_marking_pairs(case, res):
    out = []
    if not isinstance(res, dict) or "crash" in res or "timeout" in res:
        return [Violation("marking-pairs case did not run: %s" % json.dumps(res)[:300], {"kind": "marking_pairs", "case": case})]
    for ver in ("2.0", "2.1"):
        for pair, st in sorted((res.get(ver) or {}).items()):
            a, b = pair.split(" <- ")
            if a == b and st != "ok":
                out.append(Violation("%s marking-definition with definition_type=%r and an object of that marking type: %s" % (ver, a, st),
                                     {"kind": "marking_pairs", "case": case, "observed": {ver: {pair: st}}}))
            if a != b and not st.startswith("exc:"):
                out.append(Violation("%s marking-definition with definition_type=%r accepts a definition OBJECT of the class registered "
                                     "as %r: %s" % (ver, a, b, st), {"kind": "marking_pairs", "case": case, "observed": {ver: {pair: st}}}))
    for k, st in (res.get("register") or {}).items():
        out.append(Violation("valid marking registration refused (%s): %s" % (k, st), {"kind": "marking_pairs", "case": case}))
    return out


# ------------------------------------------------------------------ witnesses (variant selection on the implementation)

def witness_cases():
    def h(kind, ver, name, props):
        return {"k": "history", "ops": [{"op": "reg", "kind": kind, "ver": ver, "name": name, "props": props, "cls": "W"},
                                        {"op": "cft", "name": name, "ver": ver, "cat": KIND_CAT[kind]}]}
    P = [["prop1", "plain"]]
    return [
        ("end20", h("object", "2.0", "abc\n", P)),
        ("end21", h("object", "2.1", "abc\n", P)),
        ("hyph21", h("object", "2.1", "x--double", P)),
        ("p21_q", h("object", "2.1", "x-wit", [["q", "plain"]])),
        ("p21_aB", h("object", "2.1", "x-wit", [["aB", "plain"]])),
        ("p21_a_b", h("object", "2.1", "x-wit", [["a b", "plain"]])),
        ("p20_q", h("object", "2.0", "x-wit", [["q", "plain"]])),
        ("extid", h("extension", "2.1", EXTDEF + "d83fce45-ef58-4c6c-a3f4-1fbc32e98c6e", P)),
    ]


BACKTRACK_NAME = "a" * 30 + "_"
BACKTRACK_LIMIT = 10


def backtrack_case():
    return {"k": "history", "timeout": BACKTRACK_LIMIT, "fresh": True,
            "ops": [{"op": "reg", "kind": "object", "ver": "2.1", "name": BACKTRACK_NAME, "props": [["prop1", "plain"]], "cls": "B"}]}


# ------------------------------------------------------------------ check

def builtin_map(rows):
    return {(v, c, n): cls for v, c, n, cls in rows}


def run_histories(cases):
    """Each case in a fresh interpreter.  A case that did not come back (time limit of the fresh interpreter on a
    loaded machine, a killed process) is run once more, alone, before it is reported as not run; cases with a time
    limit of their own (the backtracking probe) are not retried."""
    res = common.run_impl("c19_impl", cases, procs=min(common.NCPU, max(1, len(cases) // 6)))
    again = [i for i, (c, r) in enumerate(zip(cases, res))
             if isinstance(r, dict) and ("timeout" in r or "crash" in r) and "timeout" not in c]
    if again and len(again) <= 20:
        for i, r in zip(again, common.run_impl("c19_impl", [cases[i] for i in again], procs=1)):
            res[i] = r
    return res


def check(run):
    thorough = run.tier == "thorough"
    n_hist, n_names, n_guar = (2000, 40000, 300) if thorough else (150, 3000, 24)
    run.coverage["rule"] = (
        "registration histories of 2..8 decorator calls (4 kinds x 2 versions; names drawn from a per-history pool so that "
        "duplicates, cross-version and cross-category reuse, built-in names, invalid type names, invalid property names, "
        "reference-name/kind mismatches (also a grid of names with 0..3 underscores x 7 property kinds, one history per "
        "registration kind and version), extension_type and extension_name= occur) interleaved with class_for_type / parse "
        "/ parse_observable / marking / extension lookups aimed at the names used and at the other version; each history in "
        "a fresh interpreter and on the model (non-trivial: at least one successful registration and one lookup). Name "
        "strings (valid, one bad character, hyphen/underscore structure, length boundaries 0..300, leading character, final "
        "newline, non-ASCII) through _validate_type / _validate_props for both versions vs the model's recognisers "
        "(non-trivial: not refused by all four). While the time-limited probe shows TYPE_21_REGEX backtracking "
        "exponentially, names whose first unmatchable character lies beyond index 14 are not sent to the implementation.")
    gen_ok, info, res = False, None, None
    with common.Lock():
        try:
            text, info = tr_regex.translate(common.REPO, None)
            common.write_if_changed(os.path.join(common.COQ, "Gen", "Regexes.v"), text)
            gen_ok = True
        except tr_regex.TranslateError as e:
            run.broken.append(Broken("translator", "tr_regex", {"error": str(e)}))
        except Exception as e:  # noqa: BLE001
            run.broken.append(Broken("translator", "tr_regex", {"error": "%s: %s" % (type(e).__name__, e)}))
        if gen_ok:
            res = common.build_props("Props/C19.v")
            run.add_build(res, "make -C coq Props/C19.vo (coqc 8.16.1, full .vo) + Print Assumptions per theorem")
            # the control flow of registration.py / registry.class_for_type read from the source
            try:
                ftext, finfo = tr_regflow.translate(common.REPO, None)
                common.write_if_changed(os.path.join(common.COQ, "Gen", "RegFlow.v"), ftext)
                run.coverage["source_control_flow"] = {"validate_props": finfo["validate_props"], "ext_name_check": finfo["ext_check"],
                                                       "class_for_type_exclusive": finfo["cft_exclusive"]}
                res3 = common.build_props("Props/C19Src.v")
                run.add_build(res3, "make -C coq Props/C19.vo Props/C19Src.vo (coqc 8.16.1, full .vo) + Print Assumptions per theorem")
            except tr_regflow.TranslateError as e:
                run.broken.append(Broken("translator", "tr_regflow", {"error": str(e)}))
                run.coverage["obligations"] += len(common.theorems_in("Props/C19Src.v"))
            except Exception as e:  # noqa: BLE001
                run.broken.append(Broken("translator", "tr_regflow", {"error": "%s: %s" % (type(e).__name__, e)}))
                run.coverage["obligations"] += len(common.theorems_in("Props/C19Src.v"))
            # the part of `custom types inherit` that is evaluated on the schema family's generated tables
            mine = ("Props/C19Inherit.v", "Proofs/C19Inherit.v", "Proofs/C19InheritRefine.v", "Proofs/C19InheritTables.v",
                    "Proofs/C19Bridge.v", "Model/RegistryBuilder.v")
            try:
                import translate_all
                translate_all._tables()
                mine = mine + ("Props/C19InheritC02.v", "Proofs/C19InheritC02.v", "Props/C19InheritC01.v", "Proofs/C19InheritC01.v")
                for pf in ("Props/C19Inherit.v", "Props/C19InheritC02.v", "Props/C19InheritC01.v"):
                    res2 = common.build_props(pf)
                    fa = res2["failed_at"]
                    if res2["ok"] or (fa and fa[0] in mine):
                        run.add_build(res2, "make -C coq Props/C19.vo Props/C19Src.vo Props/C19Inherit.vo Props/C19InheritC02.vo Props/C19InheritC01.vo (coqc 8.16.1, "
                                            "full .vo) + Print Assumptions per theorem")
                        run.coverage.setdefault("inherit_tables", {})[pf] = "built"
                    else:
                        run.coverage.setdefault("inherit_tables", {})[pf] = "not built: %s" % (fa[0] if fa else res2["log_tail"][-300:])
                        run.coverage.setdefault("not_claimed", []).append(
                            "%s (%d theorems): a file of the schema family did not compile" % (pf, res2["obligations"]))
                        run.notes.append("%s not built (a file of the schema family did not compile): %s" % (pf, res2["log_tail"][-600:]))
            except Exception as e:  # noqa: BLE001 -- tr_tables belongs to the schema family; its abort is reported there
                run.coverage["inherit_tables"] = "not built: tr_tables: %s" % e
                run.notes.append("tr_tables aborted: %s" % e)
        else:
            run.coverage["obligations"] += len(common.theorems_in("Props/C19.v"))
    model_ok = bool(gen_ok and res and (res["ok"] or (res["failed_at"] or ("",))[0].startswith("Props/")
                                       or (res["failed_at"] or ("",))[0].startswith("Proofs/")))
    # the model files themselves must have compiled for the correspondence to run
    model_ok = model_ok and os.path.exists(os.path.join(common.COQ, "Model", "RegistryInit.vo"))

    # ---- built-in registry as the implementation has it (for the oracle)
    if info is not None:
        builtin = builtin_map(info["rows"])
    else:
        try:
            builtin = builtin_map(tr_regex.builtin_registry(common.REPO))
        except Exception:  # noqa: BLE001
            builtin = {}

    # ---- variant: from the texts (model side) and from witnesses (implementation side)
    source_line = None
    if model_ok:
        try:
            source_line = eval_lines("c19v", HEADER, ["show_source"])[0]
        except RuntimeError as e:
            run.broken.append(Broken("correspondence", "model evaluation failed (show_source)", {"error": str(e)[-1500:]}))
            model_ok = False
    run.coverage["variant_from_source_texts"] = source_line
    wit = witness_cases()
    wres = run_histories([c for _, c in wit] + [backtrack_case()])
    wobs = {name: r for (name, _), r in zip(wit, wres[:-1])}
    bt = wres[-1]

    def accepted(name):
        r = wobs[name]
        return isinstance(r, list) and r[0] == "ok"

    impl_variant = {
        "end20": "Dollar" if accepted("end20") else "Strict",
        "end21": "Dollar" if accepted("end21") else "Strict",
        "hyph21": "AnyHyphens" if accepted("hyph21") else "SingleHyphens",
        "pmode": "FirstCharOnly" if (accepted("p21_aB") or accepted("p20_q")) else "FullRule",
    }
    run.coverage["variant_from_witnesses"] = impl_variant
    run.coverage["witness_observations"] = {k: (v if not isinstance(v, list) else v[0]) for k, v in wobs.items()}
    if source_line and not source_line.startswith("unknown"):
        f = source_line.split()
        src = {"end20": f[0], "end21": f[1], "pmode": f[2], "hyph21": f[3]}
        if src != impl_variant:
            run.broken.append(Broken("correspondence", "variant selected from the regex texts differs from the witnesses' verdict",
                                     {"from_texts": src, "from_witnesses": impl_variant}))
        if "distinct=true" not in source_line:
            run.broken.append(Broken("correspondence", "built-in registry rows are not distinct / not well-formed", {"line": source_line}))
    for (wname, case) in wit:
        if wname == "extid":
            if not accepted("extid"):
                run.violations.append(Violation("a valid extension-definition id is refused as an extension name: %s" % wobs[wname],
                                                {"kind": "history", "case": case, "observed": wobs[wname]}))
            continue
        if isinstance(wobs[wname], list):
            run.violations += oracle_history(case, wobs[wname], builtin)
        else:
            run.broken.append(Broken("correspondence", "witness %s did not run" % wname, {"result": wobs[wname]}))
    if isinstance(bt, dict) and "timeout" in bt:
        run.violations.append(Violation(
            "registering the invalid 2.1 type name 'a'*30+'_' does not come back within %d s (TYPE_21_REGEX backtracks "
            "exponentially), so the name is neither refused nor accepted" % BACKTRACK_LIMIT,
            {"kind": "backtracking", "name": BACKTRACK_NAME, "limit": BACKTRACK_LIMIT}, F_BACKTRACK))
        run.coverage["regex_backtracking"] = "timeout after %d s" % BACKTRACK_LIMIT
    else:
        run.coverage["regex_backtracking"] = "returned: %s" % (bt if not isinstance(bt, list) else bt[0])
        if not (isinstance(bt, list) and bt[0].startswith("exc:ValueError")):
            run.violations.append(Violation("invalid 2.1 type name 'a'*30+'_' not refused with ValueError: %s" % bt,
                                            {"kind": "backtracking", "name": BACKTRACK_NAME, "limit": BACKTRACK_LIMIT}))

    # ---- names
    nested = isinstance(bt, dict) and "timeout" in bt
    names_all = gen_names(run, n_names)
    names = [s for s in names_all if impl_safe(s, nested, accepted("end21"))]
    run.coverage["names_generated"] = len(names_all)
    run.coverage["names_withheld_for_backtracking"] = len(names_all) - len(names)
    name_cases = [{"k": "names", "names": names[i:i + 200]} for i in range(0, len(names), 200)]
    nres = []
    for part in common.run_impl("c19_impl", name_cases, procs=min(common.NCPU, max(1, len(name_cases) // 2))):
        nres += part
    show = {True: "true", False: "false"}
    impl_lines = [" ".join(show.get(x, str(x)) for x in row) for row in nres]
    for s, row in zip(names, nres):
        run.count({"name": s}, nontrivial=any(x is True for x in row))
    run.sample({"name": names[16], "impl [type2.0 type2.1 prop2.0 prop2.1]": impl_lines[16]})
    name_dis = []
    if model_ok:
        try:
            model_lines = eval_lines("c19n", HEADER, [names_term(s) for s in names], shard=250)
            name_dis = [(s, i, m) for s, i, m in zip(names, impl_lines, model_lines) if i != m]
            run.coverage["name_cases"] = len(names)
            run.coverage["name_disagreements"] = len(name_dis)
            if name_dis:
                run.broken.append(Broken("correspondence", "name recognisers: model vs _validate_type/_validate_props",
                                         {"first": [{"name": s, "impl": i, "model": m} for s, i, m in name_dis[:5]]}))
        except RuntimeError as e:
            run.broken.append(Broken("correspondence", "model evaluation failed (names)", {"error": str(e)[-1500:]}))
    # oracle on names: candidates, confirmed through the public decorators
    cands = {}
    for s, row in zip(names, nres):
        for j, ver in ((0, "2.0"), (1, "2.1")):
            if row[j] is True and not type_must(s):
                cands.setdefault(("type", ver, classify_type_name(s, ver)), []).append(s)
            if row[j] is False and type_fully_valid(s, ver):
                cands.setdefault(("type-valid-refused", ver, None), []).append(s)
            if row[j] not in (True, False):
                cands.setdefault(("type-exc", ver, None), []).append(s)
        for j, ver in ((2, "2.0"), (3, "2.1")):
            if row[j] is True and not prop_must(s):
                cands.setdefault(("prop", ver, classify_prop_name(s, ver)), []).append(s)
            if row[j] is False and prop_fully_valid(s) and s.rsplit("_", 1)[-1] not in ("ref", "refs"):
                cands.setdefault(("prop-valid-refused", ver, None), []).append(s)
    run.coverage["name_oracle_candidates"] = {"%s %s %s" % k: len(v) for k, v in cands.items()}
    confirm = []
    for (what, ver, finding), lst in sorted(cands.items(), key=lambda kv: str(kv[0])):
        for s in sorted(lst, key=len)[:(2 if finding else 4)]:
            if what.startswith("type"):
                op = {"op": "reg", "kind": "object", "ver": ver, "name": s, "props": [["prop1", "plain"]], "cls": "N"}
            else:
                op = {"op": "reg", "kind": "object", "ver": ver, "name": "x-name-oracle", "props": [[s, "plain"]], "cls": "N"}
            confirm.append({"k": "history", "ops": [op]})
    if confirm:
        for case, obs in zip(confirm, run_histories(confirm)):
            if isinstance(obs, list):
                run.violations += oracle_history(case, obs, builtin)

    # ---- histories
    hcases = [gen_history(run, i) for i in range(n_hist)]
    hcases += gen_ref_grid(run, n_hist, thorough)       # the _ref / _refs rule: names x property kinds x registration kinds x versions
    hres = run_histories(hcases)
    stats = {"reg_ok": 0, "reg_dup": 0, "reg_value": 0, "reg_other": 0, "lookups": 0, "lookup_cls": 0}
    good = []
    for c, r in zip(hcases, hres):
        if not isinstance(r, list):
            run.broken.append(Broken("correspondence", "history %d did not run on the implementation" % c["id"], {"result": r}))
            continue
        good.append((c, r))
        nontriv = any(o["op"] == "reg" and x == "ok" for o, x in zip(c["ops"], r)) and any(o["op"] != "reg" for o in c["ops"])
        run.count(c, nontrivial=nontriv)
        for o, x in zip(c["ops"], r):
            if o["op"] == "reg":
                stats["reg_ok" if x == "ok" else "reg_dup" if x == "exc:DuplicateRegistrationError"
                      else "reg_value" if x == "exc:ValueError" else "reg_other"] += 1
            else:
                stats["lookups"] += 1
                stats["lookup_cls"] += x.startswith("cls:")
        run.violations += oracle_history(c, r, builtin)
    oc = order_candidates(good, 600 if thorough else 120)
    run.coverage["order_independence_checked"] = len(oc)
    run.violations += oracle_order(oc)
    run.coverage["history_distribution"] = stats
    if good:
        run.sample({"history": good[0][0]["ops"][:6], "impl": good[0][1][:6]})
    if model_ok and good:
        try:
            mlines = eval_lines("c19h", HEADER, [history_term(c) for c, _ in good], shard=25)
            dis = []
            unmodelled = 0
            for (c, r), m in zip(good, mlines):
                ms = model_observations(c, m)
                m = "|".join(ms)
                # UNMODELLED: the model declines (version detection inside a bundle); that position is not compared
                unmodelled += ms.count("UNMODELLED")
                if len(ms) != len(r) or any(a != b for a, b in zip(r, ms) if b != "UNMODELLED"):
                    dis.append((c, "|".join(r), m))
            run.coverage["history_positions_unmodelled"] = unmodelled
            run.coverage["history_cases"] = len(good)
            run.coverage["history_disagreements"] = len(dis)
            if dis:
                run.broken.append(Broken("correspondence", "registration histories: model vs implementation",
                                         {"first": [{"ops": c["ops"], "impl": i, "model": m} for c, i, m in dis[:3]]}))
                for c, i, m in dis[:20]:
                    run.notes.append("history %d: impl %s model %s" % (c["id"], i, m))
        except RuntimeError as e:
            run.broken.append(Broken("correspondence", "model evaluation failed (histories)", {"error": str(e)[-1500:]}))

    # ---- registered custom types enjoy the same guarantees (oracle only)
    gcases = [gen_guarantee(run, i) for i in range(n_guar)]
    gres = run_histories(gcases)
    gtypes = 0
    for c, r in zip(gcases, gres):
        run.count(c, nontrivial=True)
        gtypes += len(c["regs"])
        run.violations += oracle_guarantee(c, r)
    run.coverage["guarantee_types_exercised"] = gtypes

    # ---- a marking-definition takes a definition object only of the class registered under its definition_type
    mcases = [{"k": "marking_pairs", "m1": "x-%s-mark" % gen_valid_type(run.rng), "m2": "x-%s-stmt" % gen_valid_type(run.rng)}
              for _ in range(8 if thorough else 2)]
    for c, r in zip(mcases, run_histories(mcases)):
        run.count(c, nontrivial=True)
        run.violations += oracle_marking_pairs(c, r)

    # ---- the same extension name under both versions: instances do not cross
    xcases = [{"k": "cross_version_ext", "name": "x-%s-ext" % gen_valid_type(run.rng)} for _ in range(6 if thorough else 2)]
    for c, r in zip(xcases, run_histories(xcases)):
        run.count(c, nontrivial=True)
        run.violations += oracle_cross_version_ext(c, r)

    # ---- the class tables the decorators build (custom types inherit)
    builder_ok = model_ok and os.path.exists(os.path.join(common.COQ, "Model", "RegistryBuilder.vo"))
    check_inherit(run, 200 if thorough else 16, builder_ok)

    # ---- something broke: search harder with the oracle alone
    if run.broken and not [v for v in run.violations if v.finding is None]:
        extra = [gen_history(run, 100000 + i) for i in range(n_hist * 3)]
        for c, r in zip(extra, run_histories(extra)):
            if isinstance(r, list):
                run.violations += oracle_history(c, r, builtin)
        run.coverage["search_histories"] = len(extra)
        extra_g = [gen_guarantee(run, 100000 + i) for i in range(n_guar * 2)]
        for c, r in zip(extra_g, run_histories(extra_g)):
            run.violations += oracle_guarantee(c, r)

    # ---- minimal replays
    if any(v.finding is None for v in run.violations):
        # put violations with short histories first, then shrink the first of each kind
        run.violations.sort(key=lambda v: (v.finding is not None, len(v.replay.get("case", {}).get("ops", [])) if isinstance(v.replay, dict) else 0))
        try:
            shrink_violations(run, builtin)
        except Exception as e:  # noqa: BLE001 -- shrinking is a convenience, never a verdict
            run.notes.append("shrinking failed: %s: %s" % (type(e).__name__, e))

    run.coverage["trusted_base"] += [
        "translators/tr_regex.py (regex texts, shape of _validate_type, DEFAULT_VERSION, live built-in registries; fail-closed)",
        "translators/tr_regflow.py (statement forms of _register_*, _validate_props, class_for_type matched after normalisation; "
        "fail-closed); the step interpreter Model/RegistryFlow.v",
        "coq/Model/Registry.v recognisers restate Python `re` semantics of four regex texts by hand (compared with `re` on "
        "generated names every run); coq/Spec/NamingSpec.v written from the normative text",
        "harness/impl/c19_impl.py: each history in a fresh interpreter; class of a refused body read from the traceback",
    ]
    run.assumptions += [
        "properties are passed to the decorators as lists of (name, Property) pairs; the decorated class has no __init__ of its own",
        "uuid.UUID decides UUID well-formedness (oracle input of the model for unregistered extension-definition ids)",
        "parse with version=None uses the library's version-detection heuristics: modelled and compared, not judged by the oracle",
    ]


# ------------------------------------------------------------------ replay

def replay(payload):
    r = payload["replay"]
    kind = r.get("kind")
    try:
        _, info = tr_regex.translate(common.REPO, None)
        builtin = builtin_map(info["rows"])
    except Exception:  # noqa: BLE001
        builtin = builtin_map(tr_regex.builtin_registry(common.REPO))
    if kind == "history":
        case = dict(r["case"], k="history")
        obs = run_histories([case])[0]
        print("replay history (fresh interpreter):")
        if not isinstance(obs, list):
            print("  did not run: %s" % obs)
            print("VIOLATION property=C19 replay=(given)")
            return 1
        for o, x in zip(case["ops"], obs):
            print("  %s -> %s" % (json.dumps(o, sort_keys=True)[:200], x))
        vs = oracle_history(case, obs, builtin)
    elif kind == "guarantee":
        case = dict(r["case"], k="guarantee")
        res = run_histories([case])[0]
        print("replay guarantee case: %s" % json.dumps(res)[:1500])
        vs = oracle_guarantee(case, res)
    elif kind == "order":
        case = dict(r["case"], k="history")
        obs = run_histories([case])[0]
        i = len(case["ops"]) - 1
        print("replay: the history up to the registration -> %s" % (obs if not isinstance(obs, list) else obs[i]))
        vs = oracle_order([(case, i, case["ops"][i], obs[i])]) if isinstance(obs, list) else [Violation("did not run", r)]
    elif kind == "dump":
        case = dict(r["case"], k="dump")
        res = common.run_impl("c19_dump", [case], procs=1)[0]
        print("replay class dump: %s" % json.dumps(res)[:1200])
        vs = []
        if isinstance(res, list):
            for o, x in zip(case["regs"], res):
                if x.get("registered") != "ok":
                    vs.append(Violation("valid registration refused: %s" % x.get("registered"), r))
                elif "cls" in x:
                    vs += oracle_dump(o, x["cls"])
        else:
            vs.append(Violation("did not run: %s" % res, r))
    elif kind == "cross_version_ext":
        case = dict(r["case"], k="cross_version_ext")
        res = run_histories([case])[0]
        print("replay cross-version extension instances: %s" % json.dumps(res)[:1500])
        vs = oracle_cross_version_ext(case, res)
    elif kind == "marking_pairs":
        case = dict(r["case"], k="marking_pairs")
        res = run_histories([case])[0]
        print("replay marking pairs: %s" % json.dumps(res)[:1500])
        vs = oracle_marking_pairs(case, res)
    elif kind == "backtracking":
        case = backtrack_case()
        case["ops"][0]["name"] = r["name"]
        case["timeout"] = r.get("limit", BACKTRACK_LIMIT)
        res = run_histories([case])[0]
        print("replay: registering %r as a 2.1 object type with a %d s limit -> %s" % (r["name"], case["timeout"], res))
        vs = [] if (isinstance(res, list) and res[0].startswith("exc:ValueError")) else [Violation("not refused: %s" % res, r)]
    else:
        print("nothing to replay (no failing input was found); no longer checks: %s" % payload.get("no_longer_checks"))
        return 1
    # a history may also contain inputs of another (listed) defect class: only the class replayed counts
    fc = payload.get("finding_class")
    other = [v for v in vs if v.finding != fc]
    vs = [v for v in vs if v.finding == fc]
    for v in other:
        print("  (also, of class %s: %s)" % (v.finding, v.what))
    for v in vs:
        print("  property fails: %s" % v.what)
    if vs:
        print("VIOLATION property=C19 replay=(given)")
        return 1
    print("no violation on this input")
    return 0

"""C09 -- pattern equivalence is a total, sound equivalence relation.

Model: coq/Model/PatternEq.v (hand-written, mirrors stix2/equivalence/pattern
branch by branch); specification coq/Spec/PatternSemantics.v; theorems in
coq/Props/C09.v.  Tie to the source: correspondence of the normalised object
model, of equivalent_patterns and of find_equivalent_patterns on generated
patterns (the model is fed the object model the implementation's own parser
built, so the visitor -- property C10 -- is not part of this model).
Oracle: the property itself on the implementation's answers (never raises on
validator-accepted patterns, reflexive / symmetric / transitive, documented
rewrites recognised, find = filter, and soundness searched with the
independent evaluator props/c09_eval.py)."""
import os
from concurrent.futures import ThreadPoolExecutor

import common
from common import Broken, Violation
from . import c09_eval as E
from . import c09_gen as G

MANIFEST = {
    "text": "Coq theorems about an executable model of stix2.equivalence.pattern (66 theorems in Props/C09.v + 24 in Props/C09Src.v, all closed under the global "
            "context): the comparators are lawful total preorders, hence the reported relation is reflexive, symmetric and "
            "transitive and find_equivalent_patterns is the filter of the pairwise test; every pass of the normaliser "
            "(flatten, order/dedupe, absorption with its deletion loop, DNF with root-type pruning, special values, settle) "
            "preserves the meaning of comparison expressions for EVERY interpretation of the atoms, and refines observation "
            "expressions both ways in the binding semantics of DESIGN A.5 for EVERY observation sequence, hence "
            "equiv = Ok true implies equal matches (equiv_sound); the IPv4 canonical text denotes the same network "
            "(inet_aton/inet_ntoa round trip, byte-wise masking = arithmetic masking); commutativity, associativity, "
            "idempotence and parentheses are recognised through the WHOLE pipeline for arbitrary operands at both levels "
            "(Spec/PatternRules.v: crule/orule; recognises_rules_full), the other listed rewrites by the responsible pass, "
            "and by the whole pipeline for one-comparison patterns.  The model is tied to /repo on "
            "every run by a correspondence run on generated patterns (normal forms, equivalent_patterns, "
            "find_equivalent_patterns), with the defect variant of the special-value pass selected by running witnesses.  "
            "SCOPE OF TOTALITY: equiv_never_raises is about parsed patterns (ASTs) satisfying valid_o -- every comparison-level "
            "AND has a common object type, as the object model's constructors demand -- not about every text the grammar "
            "accepts: the grammar-valid `[a:x = 1 AND b:y = 2]` is outside valid_o (there the library raises: known finding "
            "C09-and-disjoint-root-types), and no theorem shows that the output of the visitor (property C10), mapped to the "
            "model's AST, satisfies valid_o; that bridge is covered only by the per-run oracle `never raises on "
            "validator-accepted patterns`.  SHARED TRUSTED BASE: the specification Spec/PatternSemantics.v builds the "
            "denotation of constants from helpers defined in the model file and used by the model too (hex_decode, "
            "b64_decode, inet_aton, py_int, find_cp, the IPv4 masking, special_kind, is_matches; ip_canon true inside the "
            "hypothesis respects_cidr6), so the soundness theorems cannot see an error in them; they are anchored on known "
            "vectors (Props/C09.v anchor_*: RFC 4648, glibc inet_aton forms, CIDR masking) and exercised by the "
            "correspondence run.  PATH STEPS: the model's object paths are the raw values object_path_to_raw_values yields, in "
            "which the any-index step [*] and a property named * (quoted key) are the same string: soundness is about ASTs in "
            "which the two are already identified, and the code does report x:y[*] and x:y.'*' equivalent (known finding "
            "C09-star-key-vs-any-index, found by the independent evaluator).",
    "design_ref": "DESIGN.md 6/C09, Appendix A.5",
    "note": "Source-text tie: translators/tr_patterneq.py reads, on every run, from the ast of stix2/equivalence/pattern the "
            "type-order tables, the numeric cases of constant_cmp, the fields simple_comparison_expression_cmp compares and "
            "their order (incl. negated), the case order of comparison_expression_cmp / observation_expression_cmp (exact "
            "text), the arguments _dupe_ast hands on (incl. negated), the deletion order of both absorption passes, whether "
            "__is_contained_and consumes the matched operand, the transformers in the simplify / normalise chains and the "
            "flag logic of ChainTransformer / SettleTransformer, the MATCHES and StringConstant guards, the arithmetic of "
            "_mask_bytes (as Gallina functions), hex_cmp (on decoded bytes) / bin_cmp / bool_cmp / list_cmp (lexicographic on the "
            "sorted members) / generic_cmp / iter_lex_cmp / iter_in, repeats_cmp / within_cmp (the seconds as they are, no int()) / "
            "startstop_cmp, object_path_component_cmp (indices before keys, never as text) / object_path_cmp / "
            "object_path_to_raw_values, that both DNF transformers transform their new terms again, how stix_version reaches the parser, "
            "the bodies of equivalent_patterns / find_equivalent_patterns (every member "
            "examined, no cache); Props/C09Src.v proves for each that the model's function is the one these choices denote "
            "(source_* theorems) and refutes the recognised alternatives; an unrecognised text aborts the translator naming "
            "the function; the special-value variant read from the text must equal the one shown by running the witnesses.  "
            "Not read from the text: the bodies of the flatten / order transformers and the rest of the DNF transformers, _path_is, ipv4_addr / ipv6_addr "
            "beyond their guards (correspondence run only).  "
            "Trusted: Coq kernel + vm_compute, the hand-written model (checked against the implementation on every run), "
            "the restated platform functions inet_aton/inet_pton/inet_ntoa/inet_ntop/int()/str.lower() (below U+0100), the "
            "binding semantics of Spec/PatternSemantics.v, and the helper functions shared by specification and model (see text).  "
            "Totality is proved (equiv_never_raises: on constructor-valid "
            "patterns some fuel suffices and the answer does not depend on it; settle loops and both DNF recursions "
            "terminate).  Partial: IPv6 canonicalisation is a hypothesis on the interpretation "
            "(respects_cidr6); recognition of absorption/distribution for arbitrary sub-expressions through "
            "the whole pipeline is checked by the harness (oracle `recognise`), proved only pass by pass (for absorption the "
            "whole-pipeline statement is false on the current code: absorption_not_recognised_full, known finding "
            "C09-absorption-qualified-operand); rule instances strictly inside a larger expression of the same level are "
            "covered by the oracle only.  The pinned "
            "special-value pass is unsound / raises on some valid patterns: *_refuted theorems, known findings.",
    "technique": "Coq proof over a hand-written executable model + correspondence run + independent pattern evaluator "
                 "+ source-text tie (fail-closed translator -> Gen facts -> Props/C09Src.v)",
}

HEADER = """From Coq Require Import ZArith NArith List String.
From V Require Import Base.UString Model.PatternEq.
Import ListNotations.
Open Scope Z_scope.
"""
FUEL = 64

# witnesses of the known defect classes: (finding id, pattern, stage that fails on the pinned tree)
WITNESS_CRASH = [
    ("C09-specials-nonstring-constant", "[ipv4-addr:value = 5]"),
    ("C09-specials-nonstring-constant", "[ipv6-addr:value IN ('::1/128')]"),
    ("C09-specials-nonstring-constant", "[windows-registry-key:key = 5]"),
    ("C09-specials-nonstring-constant", "[windows-registry-key:values[*].name IN ('A')]"),
    ("C09-specials-embedded-nul", "[ipv4-addr:value = '1.2.3.4\x00']"),
    ("C09-specials-embedded-nul", "[ipv6-addr:value = '::1\x00/64']"),
    ("C09-specials-hex-binary-constant", "[ipv4-addr:value = h'00' OR ipv4-addr:value = h'01']"),
    ("C09-specials-hex-binary-constant", "[ipv4-addr:value = b'1234' OR ipv4-addr:value = b'1235']"),
    ("C09-dnf-empty-or", "[a:x = 1 AND (a:y = 2 OR (a:b = 1 AND a:c = 2 AND (d:e = 3 OR d:f = 4)))]"),
    ("C09-and-disjoint-root-types", "[a:b = 1 AND c:d = 2]"),
    ("C09-visitor-root-types-first-two-operands", "[(a:x = 1 OR a:y = 2 OR b:y = 2) AND b:z = 3]"),
    ("C09-within-float", "[a:b = 1] WITHIN 5.5 SECONDS"),
    ("C09-timestamp-literal", "[a:b = t'2014-01-13T07:03:17.1234567Z']"),
    ("C09-timestamp-literal", "[a:b = t'2014-01-13T07:03:60Z']"),
    ("C09-timestamp-literal", "[a:b = t'2014-02-30T07:03:17Z']"),
    ("C09-empty-hex", "[a:b = h'']"),
    ("C09-visitor-not-order", "[a:b NOT > 1]"),
    ("C09-visitor-exists", "[EXISTS a:b]"),
    ("C09-visitor-path-shape", "[a:x.'b'[*] = 1]"),
    ("C09-visitor-path-shape", "[a:b[0][1] = 1]"),
]
# (finding id, p, q): reported equivalent although they match differently
WITNESS_UNSOUND = [
    ("C09-visitor-drops-not", "[a:b NOT IN (1, 2)]", "[a:b IN (1, 2)]"),
    ("C09-visitor-drops-not", "[a:b NOT LIKE 'x%']", "[a:b LIKE 'x%']"),
    ("C09-visitor-drops-not", "[a:b NOT != 1]", "[a:b != 1]"),
    ("C09-specials-hex-binary-constant", "[windows-registry-key:key = b'QUJD']", "[windows-registry-key:key = b'qujd']"),
    ("C09-ip-canonicalises-regex", "[ipv4-addr:value MATCHES '10.0.0.1/8']", "[ipv4-addr:value MATCHES '10.0.0.0/8']"),
    ("C09-regkey-lowercases-regex", "[windows-registry-key:key MATCHES '\\\\D']", "[windows-registry-key:key MATCHES '\\\\d']"),
    ("C09-star-key-vs-any-index", "[a:b[*] = 1]", "[a:b.'*' = 1]"),
]

# (finding id, p, q): a listed rewrite applied at the root that is not recognised
WITNESS_UNRECOGNISED = [
    ("C09-absorption-qualified-operand", "[a:x=1] REPEATS 2 TIMES", "[a:x=1] REPEATS 2 TIMES OR ([a:x=1] REPEATS 2 TIMES AND [c:z=3])"),
    ("C09-absorption-qualified-operand", "[a:x=1] WITHIN 5 SECONDS", "([c:z=3] FOLLOWEDBY [a:x=1] WITHIN 5 SECONDS) OR [a:x=1] WITHIN 5 SECONDS"),
]


# --------------------------------------------------------------------------
# generation of families

class Pat:
    __slots__ = ("ast", "text", "expect", "idx", "impl")

    def __init__(self, ast, rng, extra):
        self.ast = ast
        self.text, self.expect, _ = G.print_o(ast, rng, extra)
        self.idx = None
        self.impl = None


def gen_family(rng, depth):
    """a base pattern, rewrites of it, an edit, an independent draw; with the relations between them"""
    g = G.Gen(rng, depth)
    for _ in range(50):
        base = G.normalize_shape(g.pattern())
        if not G.leaf_qualifier_clash(base) and G.size(base) <= 60 and not G.too_costly(base):
            break
    members = [("base", base, [])]
    rels = []          # (i, j, kind, names)

    def rewrite_chain(src, k):
        cur, names = src, []
        for _ in range(k):
            r = G.rw_observation(rng, cur)
            if r is None:
                break
            cand = G.normalize_shape(r[0])
            if G.leaf_qualifier_clash(cand) or G.size(cand) > 90 or G.too_costly(cand):
                break
            cur = cand
            names.append(r[1])
        return cur, names

    q1, n1 = rewrite_chain(base, rng.choice([1, 1, 2, 3]))
    members.append(("rw", q1, n1))
    rels.append((0, 1, "rewrite", n1))
    q2, n2 = rewrite_chain(q1, rng.choice([1, 2]))
    members.append(("rw", q2, n2))
    rels.append((1, 2, "rewrite", n2))
    rels.append((0, 2, "rewrite", n1 + n2))
    ed = G.edit(rng, rng.choice([base, q1]))
    if ed is not None and not G.leaf_qualifier_clash(G.normalize_shape(ed[0])) and not G.too_costly(ed[0]):
        members.append(("edit", G.normalize_shape(ed[0]), [ed[1]]))
        rels.append((0, len(members) - 1, "edit", [ed[1]]))
        rels.append((1, len(members) - 1, "edit", [ed[1]]))
    ind = G.normalize_shape(g.pattern())
    if not G.leaf_qualifier_clash(ind) and G.size(ind) <= 60 and not G.too_costly(ind):
        members.append(("indep", ind, []))
        rels.append((0, len(members) - 1, "indep", []))
    return members, rels


def gen_rule_family(rng):
    """lhs / rhs of ONE rewrite the property lists, applied at the root with generated sub-expressions"""
    for _ in range(50):
        name, lhs, rhs, a = G.rule_instance(rng)
        lhs, rhs = G.normalize_shape(lhs), G.normalize_shape(rhs)
        if not (G.leaf_qualifier_clash(lhs) or G.leaf_qualifier_clash(rhs) or G.too_costly(lhs) or G.too_costly(rhs)):
            break
    members = [("base", lhs, []), ("rule", rhs, [name])]
    return members, [(0, 1, "rule", [name])], a


def classify_unrecognised(name, a):
    """finding id for a listed rewrite that equivalent_patterns does not recognise at the root, or None"""
    def qual_alternative(x):
        # A itself, or one of the alternatives of A when A is an OR (they become operands of the
        # enclosing OR after flattening), is a qualified expression
        return x[0] == "qual" or (x[0] == "oor" and any(qual_alternative(y) for y in x[1]))
    if name.startswith("o-absorb") and qual_alternative(a):
        return "C09-absorption-qualified-operand"
    return None


# --------------------------------------------------------------------------
# classification of failures into the narrowly described known classes

ORDER_OPS = ("<", "<=", ">", ">=")


def has_atom(ast, pred):
    return any(x[0] == "atom" and pred(x) for _, x in G.positions(ast))


def classify_crash(ast, stage, exc):
    """finding id for an exception raised on a validator-accepted pattern, or None"""
    name, where, msg = exc.get("exc"), exc.get("where", ""), exc.get("msg", "")
    special = lambda a: E.special_kind(a[1], a[2]) is not None   # noqa: E731
    if stage == "norm" and name == "AttributeError" and where.startswith("specials.py:"):
        if ast is None or has_atom(ast, lambda a: special(a) and a[5][0] != "str"):
            return "C09-specials-nonstring-constant"
    if stage == "norm" and name == "ValueError" and where.startswith("specials.py:") and "null" in msg:
        if ast is None or has_atom(ast, lambda a: special(a) and a[5][0] == "str" and "\x00" in a[5][1]):
            return "C09-specials-embedded-nul"
    if stage == "norm" and name in ("ValueError", "Error") and where in ("comparison.py:hex_cmp", "comparison.py:bin_cmp"):
        if ast is None or has_atom(ast, lambda a: special(a) and a[5][0] in ("hex", "bin")):
            return "C09-specials-hex-binary-constant"
    if stage == "norm" and name == "AttributeError" and "root_types" in msg:
        if ast is None or any(x[0] == "and" and G.root_types(x) is None for _, x in G.positions(ast)):
            return "C09-dnf-empty-or"
    if stage == "parse" and name == "ValueError" and "satisfiable with the same object type" in msg:
        if ast is None or any(x[0] == "and" and G.root_types(x) is None for _, x in G.positions(ast)):
            return "C09-and-disjoint-root-types"
    if stage == "parse" and name == "ValueError" and "satisfiable with the same object type" in msg:
        # every AND of the pattern has a common object type, but the visitor computed root_types from the
        # first two operands of an n-ary node only
        if ast is not None and any(x[0] in ("and", "or") and G.visitor_root_types(x) is None for _, x in G.positions(ast)):
            return "C09-visitor-root-types-first-two-operands"
    if stage == "parse" and name == "ValueError" and "Within Qualifier" in msg:
        if ast is None or any(x[0] == "qual" and x[2][0] == "withinf" for _, x in G.positions(ast)):
            return "C09-within-float"
    if stage == "parse" and name == "ValueError" and "datetime object or timestamp string" in msg and ast is None:
        return "C09-timestamp-literal"
    if stage == "parse" and name == "ValueError" and "even number of hexadecimal" in msg and ast is None:
        return "C09-empty-hex"
    if stage == "parse" and name == "TypeError" and where.startswith("pattern_visitor.py:"):
        if ast is None or has_atom(ast, lambda a: a[4] and a[3] in ORDER_OPS):
            return "C09-visitor-not-order"
    if stage == "parse" and name == "AttributeError" and where.startswith("pattern_visitor.py:visitObjectPath") or \
            (stage == "parse" and name == "AttributeError" and where.startswith("patterns.py:create_ObjectPathComponent")):
        if ast is None or has_atom(ast, lambda a: G.print_path(a[1], a[2])[1] is None):
            return "C09-visitor-path-shape"
    if stage == "norm" and name == "TypeError" and ast is None and "Not a comparison expression" in msg:
        return "C09-visitor-exists"
    return None


def as_pinned_visitor(ast):
    """the meaning the pinned visitor gives: NOT is lost on IN/LIKE/MATCHES/ISSUBSET/ISSUPERSET, NOT != becomes NOT ="""
    def f(x):
        if x[0] == "atom":
            _, typ, steps, op, neg, k = x
            if neg and op in ("IN", "LIKE", "MATCHES", "ISSUBSET", "ISSUPERSET"):
                return ("atom", typ, steps, op, False, k)
            if neg and op == "!=":
                return ("atom", typ, steps, "=", True, k)
            return x
        if x[0] in ("and", "or", "oand", "oor", "ofby"):
            return (x[0], [f(y) for y in x[1]])
        if x[0] == "obs":
            return ("obs", f(x[1]))
        if x[0] == "qual":
            return ("qual", f(x[1]), x[2])
        return x
    return f(ast)


def bin_lowered(ast):
    """the meaning the pinned special-value pass gives to a base64 constant on a registry-key path: its text lower-cased"""
    def f(x):
        if x[0] == "atom":
            _, typ, steps, op, neg, k = x
            if E.special_kind(typ, steps) == "reg" and k[0] == "bin":
                return ("atom", typ, steps, op, neg, ("bin", k[1].lower()))
            return x
        if x[0] in ("and", "or", "oand", "oor", "ofby"):
            return (x[0], [f(y) for y in x[1]])
        if x[0] == "obs":
            return ("obs", f(x[1]))
        if x[0] == "qual":
            return ("qual", f(x[1]), x[2])
        return x
    return f(ast)


def regex_lowered(ast):
    def f(x):
        if x[0] == "atom":
            _, typ, steps, op, neg, k = x
            if op == "MATCHES" and E.special_kind(typ, steps) == "reg" and k[0] == "str":
                return ("atom", typ, steps, op, neg, ("str", k[1].lower()))
            return x
        if x[0] in ("and", "or", "oand", "oor", "ofby"):
            return (x[0], [f(y) for y in x[1]])
        if x[0] == "obs":
            return ("obs", f(x[1]))
        if x[0] == "qual":
            return ("qual", f(x[1]), x[2])
        return x
    return f(ast)


def regex_ip_canon(ast):
    """the meaning the pinned special-value pass gives to MATCHES on an address path: the regular
    expression replaced by the canonical address text"""
    def f(x):
        if x[0] == "atom":
            _, typ, steps, op, neg, k = x
            kind = E.special_kind(typ, steps)
            if op == "MATCHES" and kind in ("ip4", "ip6") and k[0] == "str":
                return ("atom", typ, steps, op, neg, ("str", E.ip_text_canon(kind, k[1])))
            return x
        if x[0] in ("and", "or", "oand", "oor", "ofby"):
            return (x[0], [f(y) for y in x[1]])
        if x[0] == "obs":
            return ("obs", f(x[1]))
        if x[0] == "qual":
            return ("qual", f(x[1]), x[2])
        return x
    return f(ast)


ACTIVE = set()      # finding classes whose witnesses reproduce on the tree being checked (set by select_mode)


def classify_unsound(p, q, seq):
    """which known cause explains that p and q (reported equivalent) differ on seq; only causes whose
    witness reproduces on this tree are considered"""
    cls = _classify_unsound(p, q, seq)
    return cls if cls in ACTIVE else None


def star_keys_as_any_index(e):
    out = e
    for path, x in G.positions(e):
        if x[0] == "atom" and ("q", "*") in x[2]:
            out = G.replace_at(out, path, ("atom", x[1], [("star",) if s == ("q", "*") else s for s in x[2]], x[3], x[4], x[5]))
    return out


def _classify_unsound(p, q, seq):
    if "C09-star-key-vs-any-index" in ACTIVE:
        ps, qs = star_keys_as_any_index(p), star_keys_as_any_index(q)
        if (ps != p or qs != q) and E.matches(ps, seq) == E.matches(qs, seq):
            return "C09-star-key-vs-any-index"
    pv, qv = as_pinned_visitor(p), as_pinned_visitor(q)
    if "C09-visitor-drops-not" in ACTIVE and (pv != p or qv != q) and E.matches(pv, seq) == E.matches(qv, seq):
        return "C09-visitor-drops-not"
    binreg = lambda a: E.special_kind(a[1], a[2]) == "reg" and a[5][0] == "bin"   # noqa: E731
    if "C09-specials-hex-binary-constant" in ACTIVE and has_atom(p, binreg) and has_atom(q, binreg):
        pb, qb = bin_lowered(p), bin_lowered(q)
        if E.matches(pb, seq) == E.matches(qb, seq):
            return "C09-specials-hex-binary-constant"
    # the two regular-expression rewrites can both be involved in one pair
    pl, ql = regex_lowered(p), regex_lowered(q)
    pi, qi = regex_ip_canon(pl), regex_ip_canon(ql)
    if (pi != p or qi != q) and E.matches(pi, seq) == E.matches(qi, seq):
        if (pl != p or ql != q) and E.matches(pl, seq) == E.matches(ql, seq):
            return "C09-regkey-lowercases-regex"
        return "C09-ip-canonicalises-regex" if (pi != pl or qi != ql) else "C09-regkey-lowercases-regex"
    return None


# --------------------------------------------------------------------------
# model evaluation

EVAL_TIMEOUT = [1200]


def eval_shards(tag, shards):
    """shards: list of (defs text, [terms]) -> list of lists of result lines"""
    def one(k):
        defs, terms = shards[k]
        if not terms:
            return []
        return common.coq_eval_lines("%s%d" % (tag, k), HEADER + defs, terms, shard=len(terms), timeout=EVAL_TIMEOUT[0])
    with ThreadPoolExecutor(max_workers=common.NCPU) as ex:
        return list(ex.map(one, range(len(shards))))


def impl_line_norm(r):
    if "exc" in r.get("parse", {}) if isinstance(r.get("parse"), dict) else False:
        return None
    n = r.get("norm")
    if isinstance(n, dict):
        return "ERR " + n["exc"]
    return "OK " + G.s_o(n)


def impl_line_bool(r):
    if "exc" in r:
        return "ERR " + r["exc"]
    return "OK " + ("true" if r["r"] else "false")


def impl_line_find(r):
    if "exc" in r:
        return "ERR " + r["exc"]
    return "OK " + ",".join(str(i) for i in r["r"])


def is_exc(x):
    return isinstance(x, dict) and "exc" in x


# --------------------------------------------------------------------------

def select_mode(run):
    """run the witnesses of the known defect classes on the implementation;
    returns the special_mode the code corresponds to"""
    cases = [{"op": "norm", "p": p} for _, p in WITNESS_CRASH]
    cases += [{"op": "equiv", "p": p, "q": q} for _, p, q in WITNESS_UNSOUND]
    cases += [{"op": "equiv", "p": p, "q": q} for _, p, q in WITNESS_UNRECOGNISED]
    res = common.run_impl("c09_impl", cases, procs=2)
    crashed = {}
    for (fid, p), r in zip(WITNESS_CRASH, res):
        stage, exc = None, None
        if is_exc(r.get("parse")):
            stage, exc = "parse", r["parse"]
        elif is_exc(r.get("norm")):
            stage, exc = "norm", r["norm"]
        if stage and r.get("valid"):
            got = classify_crash(None, stage, exc)
            if got == "C09-and-disjoint-root-types" and fid == "C09-visitor-root-types-first-two-operands":
                got = fid      # same exception; the witness itself has a common object type in every AND
            run.violations.append(Violation(
                "equivalence test raises %s (%s) on the validator-accepted pattern %r" % (exc["exc"], exc["where"], p),
                {"kind": "crash", "pattern": p, "stage": stage, "exc": exc}, finding=got))
            crashed.setdefault(fid, []).append(p)
    for (fid, p, q), r in zip(WITNESS_UNSOUND, res[len(WITNESS_CRASH):]):
        if r.get("r") is True:
            run.violations.append(Violation(
                "equivalent_patterns(%r, %r) is True although the patterns match different observations" % (p, q),
                {"kind": "unsound-witness", "p": p, "q": q}, finding=fid))
    for (fid, p, q), r in zip(WITNESS_UNRECOGNISED, res[len(WITNESS_CRASH) + len(WITNESS_UNSOUND):]):
        if r.get("r") is False:
            run.violations.append(Violation(
                "equivalent_patterns(%r, %r) is False although the second is the first after one documented absorption" % (p, q),
                {"kind": "recognise", "p": p, "q": q, "rewrites": ["o-absorb"]}, finding=fid))
    ACTIVE.clear()
    ACTIVE.update(v.finding for v in run.violations if v.finding)
    unguarded = "C09-specials-nonstring-constant" in crashed or "C09-specials-embedded-nul" in crashed
    lowers = any(v.finding in ("C09-regkey-lowercases-regex", "C09-ip-canonicalises-regex") for v in run.violations)
    run.coverage["variant"] = {"special_mode": "Unguarded" if unguarded else "Guarded",
                               "regex_mode": "LowerRegex" if lowers else "KeepRegex",
                               "witness_crashes": {k: len(v) for k, v in crashed.items()}}
    return "(mkVariant %s %s)" % ("Unguarded" if unguarded else "Guarded", "LowerRegex" if lowers else "KeepRegex")


def source_step(run):
    """translators/tr_patterneq.py -> Gen/PatternEqFacts.v -> Props/C09Src.v.  Call inside common.Lock().
    Returns the facts read from the text, or None (translator abort: the obligations count as undischarged)."""
    import os
    import tr_patterneq
    facts = None
    try:
        text, facts = tr_patterneq.translate(common.REPO, None)
        common.write_if_changed(os.path.join(common.COQ, "Gen", "PatternEqFacts.v"), text)
    except tr_patterneq.TranslateError as e:
        run.broken.append(Broken("translator", "tr_patterneq: " + str(e)[:200], {"error": str(e)}))
    except (OSError, SyntaxError, ValueError, AttributeError, IndexError, KeyError, TypeError) as e:
        run.broken.append(Broken("translator", "tr_patterneq", {"error": "%s: %s" % (type(e).__name__, e)}))
    if facts is not None:
        res = common.build_props("Props/C09Src.v")
        run.add_build(res, "make -C coq Props/C09Src.vo (the model's choices are those of the source text: "
                           "translators/tr_patterneq.py -> Gen/PatternEqFacts.v)")
        run.coverage["source_text_choices"] = dict(facts)
    else:
        run.coverage["obligations"] = run.coverage.get("obligations", 0) + len(common.theorems_in("Props/C09Src.v"))
    return facts


def check(run):
    thorough = run.tier == "thorough"
    nfam = 1500 if thorough else 240
    nrule = 3000 if thorough else 320
    nbound = 1500 if thorough else 120
    nnear = 400 if thorough else 50
    EVAL_TIMEOUT[0] = 3000 if thorough else 1200
    nver = 200 if thorough else 40
    import random as _random
    import time as _time
    t_phase = {"start": _time.time()}
    depth = 6 if thorough else 4
    run.coverage["rule"] = (
        "families of patterns from a grammar-directed generator (all operators with and without NOT, all constant "
        "kinds, floats <= 15 significant digits, AND/OR/FOLLOWEDBY nested to depth %d with REPEATS/WITHIN/START-STOP, "
        "IPv4/IPv6/registry-key paths with string and non-string constants): base pattern, 1-3 documented rewrites, "
        "a further rewrite, a meaning-changing edit, an independent draw; every member is normalised by the real "
        "normaliser and by the model (normal forms compared), every related pair goes through equivalent_patterns "
        "in both directions and through the model, every family through find_equivalent_patterns; plus, per run, "
        "%d instances of the listed rewrites applied at the root with generated sub-expressions (must be recognised) "
        "and %d patterns at the boundary of the absorption containment tests (repeated operands, sub-sequences, "
        "swapped order); %d collections of near-duplicate members (one constant respelled: white space inside a string "
        "literal, case, escapes, 1 / 1.0 / +1, set order; with repeats, in three orders, two queries each) where "
        "find_equivalent_patterns must equal the member-by-member equivalent_patterns filter, no near-duplicate of a "
        "normalising pattern may make the comparison raise, and near-duplicates reported equivalent go through the "
        "independent evaluator (hex / binary constants with leading zero bytes and h'', sets that are sorted prefixes); "
        "%d families exercising every public way of naming the STIX version (stix_version 2.0 / 2.1 as keyword, "
        "positionally, by default) with version-specific vocabulary (the 2.1-only keyword EXISTS as a 2.0 property name): no "
        "raise on a pattern the validator of that version accepts, reflexive, independent of how the version is handed "
        "over, equivalent_patterns = find_equivalent_patterns pair by pair; WITHIN windows with a fractional number of "
        "seconds (equal integer parts) around several observations, differing only in the window; object paths with a "
        "list index next to the quoted key spelt the same (x:y[12] / x:y.'12', x:y[*] / x:y.'*': the latter pair is "
        "reported equivalent by the current code, known finding C09-star-key-vs-any-index); integers at and beyond 2^53 as "
        "neighbours and a 311-digit literal; rewrites needing two rounds of one settle phase; fixed pairs with the known "
        "answer in both directions; "
        "every normal form is also written back as pattern text and compared with the original by "
        "the independent evaluator; a case is non-trivial when the pattern(s) parsed, normalised and contain a "
        "compound node" % (depth, nrule, nbound, nnear, nver))
    with common.Lock():
        res = common.build_props("Props/C09.v")
        run.add_build(res, "make -C coq Props/C09.vo (coqc 8.16.1, full .vo) + Print Assumptions per theorem")
        facts = source_step(run)
    mode = select_mode(run)
    if facts is not None:
        src_mode = "(mkVariant %s %s)" % (facts["special_mode"], facts["regex_mode"])
        if src_mode != mode:
            run.broken.append(Broken(
                "correspondence", "the special-value pass denoted by the source text and the one shown by running the witnesses differ",
                {"text": src_mode, "behaviour": mode}))

    # ---- generate
    rng = run.rng
    fams = []
    pats = []
    rule_meta = {}
    boundary = set()
    for n in range(nfam + nrule + nbound):
        if n < nfam:
            members, rels = gen_family(rng, depth)
        elif n < nfam + nrule:
            members, rels, meta_a = gen_rule_family(rng)
            rule_meta[len(pats)] = meta_a
        else:
            members, rels = [("base", G.normalize_shape(G.absorb_boundary(rng)), [])], []
            boundary.add(len(pats))
        ps = []
        for kind, ast, names in members:
            p = Pat(ast, rng, 0.06)
            p.idx = len(pats)
            pats.append(p)
            ps.append(p)
        fams.append((ps, rels, members))
    hist = {}
    for p in pats:
        G.stats(p.ast, hist)
    run.coverage["distribution"] = dict(sorted(hist.items()))
    run.coverage["patterns"] = len(pats)

    t_phase["generated"] = _time.time()
    # ---- implementation: normalise every pattern
    nres = common.run_impl("c09_impl", [{"op": "norm", "p": p.text} for p in pats])
    parse_mismatch = []
    crash_count = {}
    for p, r in zip(pats, nres):
        p.impl = r
        stage = "parse" if is_exc(r.get("parse")) else "norm" if is_exc(r.get("norm")) else None
        if not r.get("valid"):
            parse_mismatch.append({"pattern": p.text, "problem": "generated pattern rejected by run_validator"})
            continue
        if stage:
            exc = r[stage]
            fid = classify_crash(p.ast, stage, exc)
            crash_count[fid or "unclassified"] = crash_count.get(fid or "unclassified", 0) + 1
            run.violations.append(Violation(
                "equivalence test raises %s (%s) on the validator-accepted pattern %r" % (exc["exc"], exc["where"], p.text),
                {"kind": "crash", "pattern": p.text, "stage": stage, "exc": exc}, finding=fid))
        if stage != "parse" and G.strip_neg(r["parse"]) != G.strip_neg(p.expect) and \
                not has_atom(p.ast, lambda a: G.print_path(a[1], a[2])[1] is None):
            parse_mismatch.append({"pattern": p.text, "parsed": r["parse"], "expected": p.expect})
    run.coverage["crashes_by_class"] = crash_count
    if parse_mismatch:
        run.broken.append(Broken("correspondence", "generated AST vs the object model the parser builds",
                                 {"first": parse_mismatch[:3], "count": len(parse_mismatch)}))

    def usable(p):
        return p.impl.get("valid") and not is_exc(p.impl.get("parse")) and "parse" in p.impl

    # ---- implementation: pairs, reflexive, find
    ecases = []
    for ps, rels, _ in fams:
        for p in ps:
            ecases.append(("refl", p, p, None))
        for i, j, kind, names in rels:
            if i < len(ps) and j < len(ps):
                ecases.append((kind, ps[i], ps[j], names))
                ecases.append((kind + "-rev", ps[j], ps[i], names))
        if len(ps) >= 3:
            ecases.append(("trans", ps[0], ps[2], None))
    eres = common.run_impl("c09_impl", [{"op": "equiv", "p": a.text, "q": b.text} for _, a, b, _ in ecases])
    fcases = []
    for k, (ps, rels, _) in enumerate(fams):
        others = [pats[(ps[0].idx + 7 * (n + 1)) % len(pats)] for n in range(2)]
        coll = [p for p in ps[1:] + others + [ps[0]] if usable(p) and not is_exc(p.impl.get("norm"))]
        if usable(ps[0]) and not is_exc(ps[0].impl.get("norm")) and coll:
            fcases.append((ps[0], coll))
    fres = common.run_impl("c09_impl", [{"op": "find", "p": a.text, "ps": [x.text for x in coll]} for a, coll in fcases])

    t_phase["impl_done"] = _time.time()
    # ---- model on the same cases
    nshards = max(1, min(48 if thorough else 20, len(fams) // 8))
    shard_of = {}
    for k, (ps, _, _) in enumerate(fams):
        for p in ps:
            shard_of[p.idx] = k % nshards
    defs = [[] for _ in range(nshards)]
    defined = [set() for _ in range(nshards)]
    unmodelled = 0

    def define(sh, p):
        nonlocal unmodelled
        if p.idx in defined[sh]:
            return True
        if not usable(p):
            return False
        try:
            term = G.g_o(p.impl["parse"])
        except G.Unmodelled:
            unmodelled += 1
            return False
        defs[sh].append("Definition P%d : oexpr0 := %s." % (p.idx, term))
        defined[sh].add(p.idx)
        return True

    terms = [[] for _ in range(nshards)]
    back = [[] for _ in range(nshards)]       # (kind, index into the impl result lists)
    for p in pats:
        sh = shard_of[p.idx]
        if define(sh, p):
            terms[sh].append("line_norm %s %d P%d" % (mode, FUEL, p.idx))
            back[sh].append(("norm", p.idx))
    for n, (kind, a, b, _) in enumerate(ecases):
        sh = shard_of[a.idx]
        if define(sh, a) and define(sh, b):
            terms[sh].append("line_equiv %s %d P%d P%d" % (mode, FUEL, a.idx, b.idx))
            back[sh].append(("equiv", n))
    for n, (a, coll) in enumerate(fcases):
        sh = shard_of[a.idx]
        if define(sh, a) and all(define(sh, x) for x in coll):
            terms[sh].append("line_find %s %d P%d [%s]" % (mode, FUEL, a.idx, "; ".join("P%d" % x.idx for x in coll)))
            back[sh].append(("find", n))
    model_ok = True
    dis = []
    fuel_out = 0
    skipped_unmodelled = 0
    try:
        lines = eval_shards("c09m", [("\n".join(defs[k]) + "\n", terms[k]) for k in range(nshards)])
    except RuntimeError as e:
        model_ok = False
        lines = []
        run.broken.append(Broken("correspondence", "model evaluation failed: " + " ".join(str(e).split())[-160:], {"error": str(e)[-1500:]}))
    compared = {"norm": 0, "equiv": 0, "find": 0}
    if model_ok:
        for sh in range(nshards):
            for (kind, n), ml in zip(back[sh], lines[sh]):
                if kind == "norm":
                    il = impl_line_norm(pats[n].impl)
                    case = {"op": "norm", "p": pats[n].text}
                elif kind == "equiv":
                    il = impl_line_bool(eres[n])
                    case = {"op": "equiv", "p": ecases[n][1].text, "q": ecases[n][2].text}
                else:
                    il = impl_line_find(fres[n])
                    case = {"op": "find", "p": fcases[n][0].text, "ps": [x.text for x in fcases[n][1]]}
                if ml == "ERR FUEL":
                    fuel_out += 1
                if ml == "ERR UNMODELLED":
                    skipped_unmodelled += 1
                    continue
                compared[kind] += 1
                if il != ml:
                    dis.append({"case": case, "impl": il, "model": ml})
        run.coverage["correspondence_cases"] = compared
        run.coverage["correspondence_disagreements"] = len(dis)
        run.coverage["model_fuel_exhausted"] = fuel_out
        run.coverage["outside_model"] = {"dump_not_expressible": unmodelled, "hex_or_binary_constant_rewritten_to_an_address_text": skipped_unmodelled}
        if dis:
            run.broken.append(Broken("correspondence", "Model/PatternEq.v vs stix2.equivalence.pattern",
                                     {"first": dis[:5], "count": len(dis)}))

    t_phase["model_done"] = _time.time()
    # ---- oracle: the property on the implementation's answers
    by_pair = {}
    for (kind, a, b, names), r in zip(ecases, eres):
        by_pair[(a.idx, b.idx)] = r
    search_count = 40
    if run.broken:
        search_count = 300     # something no longer checks: search harder for a failing input
    stats = {"refl": 0, "sym": 0, "trans": 0, "sound_checked": 0, "recognise": 0, "find": 0, "reported_equal": 0,
             "rewrite_chains": 0, "rewrite_chains_recognised": 0}
    rules_hist = {}
    for (kind, a, b, names), r in zip(ecases, eres):
        fine = usable(a) and usable(b) and not is_exc(a.impl.get("norm")) and not is_exc(b.impl.get("norm"))
        nontrivial = fine and (G.size(a.ast) > 2 or G.size(b.ast) > 2)
        run.count({"op": "equiv", "p": a.text, "q": b.text}, nontrivial=nontrivial)
        if not fine:
            continue       # the crash itself has been reported above
        if is_exc(r):
            run.violations.append(Violation(
                "equivalent_patterns raises %s (%s) although both patterns normalise" % (r["exc"], r.get("where")),
                {"kind": "equiv-crash", "p": a.text, "q": b.text, "exc": r}))
            continue
        if kind == "refl":
            stats["refl"] += 1
            if r["r"] is not True:
                run.violations.append(Violation("equivalent_patterns(p, p) is False for p = %r" % a.text,
                                                {"kind": "reflexive", "p": a.text}))
            continue
        rev = by_pair.get((b.idx, a.idx))
        if rev is not None and not is_exc(rev) and not kind.endswith("-rev") and kind != "trans":
            stats["sym"] += 1
            if rev["r"] != r["r"]:
                run.violations.append(Violation(
                    "equivalent_patterns is not symmetric on %r / %r" % (a.text, b.text),
                    {"kind": "symmetric", "p": a.text, "q": b.text}))
        if kind.endswith("-rev") or kind == "trans":
            continue
        if kind == "rewrite":
            stats["rewrite_chains"] += 1
            stats["rewrite_chains_recognised"] += 1 if r["r"] is True else 0
        if kind == "rule":
            stats["recognise"] += 1
            rules_hist[names[0]] = rules_hist.get(names[0], 0) + 1
            if r["r"] is not True:
                run.violations.append(Violation(
                    "listed rewrite %s applied at the root is not recognised: %r vs %r" % (names[0], a.text, b.text),
                    {"kind": "recognise", "p": a.text, "q": b.text, "rewrites": names},
                    finding=classify_unrecognised(names[0], rule_meta[a.idx])))
        if r["r"] is True:
            stats["reported_equal"] += 1
            stats["sound_checked"] += 1
            w = E.differ(rng, a.ast, b.ast, search_count)
            if w is not None:
                seq = E.seq_from_json(w["seq"])
                fid = classify_unsound(a.ast, b.ast, seq)
                run.violations.append(Violation(
                    "equivalent_patterns(%r, %r) is True but the patterns match different observation sequences" % (a.text, b.text),
                    {"kind": "unsound", "p": a.text, "q": b.text, "ast_p": E.to_json(a.ast), "ast_q": E.to_json(b.ast),
                     "seq": w["seq"], "observations": w["observations"],
                     "matches_p": w["matches_first"], "matches_q": w["matches_second"]}, finding=fid))
    for ps, rels, _ in fams:
        if len(ps) >= 3:
            ab, bc, ac = by_pair.get((ps[0].idx, ps[1].idx)), by_pair.get((ps[1].idx, ps[2].idx)), by_pair.get((ps[0].idx, ps[2].idx))
            if ab and bc and ac and not is_exc(ab) and not is_exc(bc) and not is_exc(ac):
                stats["trans"] += 1
                if ab["r"] and bc["r"] and not ac["r"]:
                    run.violations.append(Violation(
                        "equivalent_patterns is not transitive on %r, %r, %r" % (ps[0].text, ps[1].text, ps[2].text),
                        {"kind": "transitive", "p": ps[0].text, "q": ps[1].text, "r": ps[2].text}))
    for (a, coll), r in zip(fcases, fres):
        run.count({"op": "find", "p": a.text, "ps": [x.text for x in coll]}, nontrivial=True)
        if is_exc(r):
            run.violations.append(Violation(
                "find_equivalent_patterns raises %s although every member normalises" % r["exc"],
                {"kind": "find", "p": a.text, "ps": [x.text for x in coll]}))
            continue
        stats["find"] += 1
        want = []
        for i, x in enumerate(coll):
            pr = by_pair.get((a.idx, x.idx))
            if pr is None or is_exc(pr):
                want = None
                break
            if pr["r"]:
                want.append(i)
        if want is not None and r["r"] != want:
            run.violations.append(Violation(
                "find_equivalent_patterns returns members %s, the pairwise test says %s" % (r["r"], want),
                {"kind": "find", "p": a.text, "ps": [x.text for x in coll]}))
    # ---- oracle: a collection of NEAR-DUPLICATES (one constant respelled: white space inside a string, case,
    #      escapes, 1 / 1.0 / +1, set order), with repeats, in three orders: find_equivalent_patterns must return
    #      exactly the members for which equivalent_patterns(query, member) is True, member by member
    near_rng = _random.Random(run.seed * 7919 + 13)
    g2 = G.Gen(near_rng, 2)
    near = []           # (query text, [member texts])
    near_ast = {}
    for n in range(nnear):
        for _ in range(20):
            base = G.normalize_shape(g2.pattern())
            if not G.leaf_qualifier_clash(base) and G.size(base) <= 25 and not G.too_costly(base):
                break
        else:
            continue
        if n % 5 == 3:
            # an index step next to the quoted key spelt the same: x:y[12] / x:y.'12', x:y[*] / x:y.'*'
            ty = near_rng.choice(G.TYPES)
            step = near_rng.choice([("i", 12), ("i", 0), ("i", 1), ("star",)])
            tail = [("k", near_rng.choice(G.PROPS))] if near_rng.random() < 0.5 else []
            at = ("atom", ty, [("k", near_rng.choice(G.PROPS)), step] + tail, "=", False, ("int", near_rng.choice([1, 2, 80]), False))
            extra_at = g2.atom(ty)
            base = ("obs", at) if near_rng.random() < 0.5 else ("obs", (near_rng.choice(["and", "or"]), [at, extra_at]))
            vs = G.path_variants(near_rng, base)
        elif n % 5 == 4:
            # a WITHIN window around two observations, alone or next to the drawn pattern: only the window varies
            ty = near_rng.choice(G.TYPES)
            two = (near_rng.choice(["oand", "ofby"]), [("obs", g2.atom(ty)), ("obs", g2.atom(near_rng.choice([ty, near_rng.choice(G.TYPES)])))])
            win = ("qual", two, ("within", near_rng.choice([0, 1, 1, 5])))
            base = win if near_rng.random() < 0.6 or G.size(base) > 12 else G.normalize_shape(("oor", [win, base]))
            vs = G.near_duplicates(near_rng, base, force_qualifier=True)
        else:
            vs = G.near_duplicates(near_rng, base)
        texts = []
        for ast, _name in vs:
            try:
                shaped = G.normalize_shape(ast)
                texts.append(G.print_o(shaped, near_rng, 0.05)[0])
                near_ast[texts[-1]] = shaped
            except Exception:  # noqa: BLE001
                pass
        if len(texts) < 3:
            continue
        other = pats[near_rng.randrange(len(pats))] if pats else None
        extra = [other.text] if other is not None and usable(other) and not is_exc(other.impl.get("norm")) else []
        coll = texts + extra + [texts[0], texts[near_rng.randrange(len(texts))]]
        shuffled = list(coll)
        near_rng.shuffle(shuffled)
        for q in (texts[0], texts[near_rng.randrange(1, len(texts))]):
            for c in (coll, coll[::-1], shuffled):
                near.append((q, c))
    pair_keys = sorted({(q, x) for q, c in near for x in c})
    pair_res = dict(zip(pair_keys, common.run_impl("c09_impl", [{"op": "equiv", "p": q, "q": x} for q, x in pair_keys])))
    near_res = common.run_impl("c09_impl", [{"op": "find", "p": q, "ps": c} for q, c in near])
    # the near-duplicates themselves: a member that only differs from a normalising base in one constant must
    # not make the comparison raise; a pair reported equivalent must match the same observation sequences
    stats["near_duplicate_pairs"] = len(pair_keys)
    stats["near_duplicate_pairs_reported_equal"] = 0
    n_crash = n_unsound = 0
    for (q, x) in pair_keys:
        r = pair_res[(q, x)]
        if q not in near_ast or x not in near_ast:
            continue
        base_ok = not is_exc(pair_res.get((q, q), {"exc": 1}))
        if is_exc(r):
            if base_ok and n_crash < 5 and r.get("exc") != "CaseTimeout":
                one = common.run_impl("c09_impl", [{"op": "norm", "p": x}], procs=1)[0]
                stage = "parse" if is_exc(one.get("parse")) else "norm" if is_exc(one.get("norm")) else None
                fid = classify_crash(near_ast[x], stage, one[stage]) if stage else None
                if fid is None or stage is None:
                    n_crash += 1
                    run.violations.append(Violation(
                        "equivalent_patterns raises %s (%s) on %r / %r (near-duplicates of a pattern that normalises)"
                        % (r["exc"], r.get("where"), q, x), {"kind": "equiv-crash", "p": q, "q": x, "exc": r}))
            continue
        if r["r"] is True and q != x:
            stats["near_duplicate_pairs_reported_equal"] += 1
            w = E.differ(near_rng, near_ast[q], near_ast[x], search_count)
            if w is not None and n_unsound < 5:
                n_unsound += 1
                seq = E.seq_from_json(w["seq"])
                run.violations.append(Violation(
                    "equivalent_patterns(%r, %r) is True but the patterns match different observation sequences" % (q, x),
                    {"kind": "unsound", "p": q, "q": x, "ast_p": E.to_json(near_ast[q]), "ast_q": E.to_json(near_ast[x]),
                     "seq": w["seq"], "observations": w["observations"],
                     "matches_p": w["matches_first"], "matches_q": w["matches_second"]},
                    finding=classify_unsound(near_ast[q], near_ast[x], seq)))
    stats["find_near_duplicates"] = 0
    stats["find_near_duplicates_some_but_not_all"] = 0
    for (q, c), r in zip(near, near_res):
        prs = [pair_res[(q, x)] for x in c]
        if any(is_exc(x) for x in prs):
            continue        # a member that does not normalise: reported (or listed) by the crash oracle
        run.count({"op": "find", "p": q, "ps": c}, nontrivial=True)
        want = [i for i, x in enumerate(prs) if x["r"] is True]
        stats["find_near_duplicates"] += 1
        if 0 < len(want) < len(c):
            stats["find_near_duplicates_some_but_not_all"] += 1
        if is_exc(r) or r["r"] != want:
            run.violations.append(Violation(
                "find_equivalent_patterns returns members %s, the pairwise test says %s (near-duplicate members)"
                % (r.get("r", r), want), {"kind": "find", "p": q, "ps": c}))
            if len([v for v in run.violations if v.replay and v.replay.get("kind") == "find"]) > 5:
                break

    # ---- fixed pairs, both directions: the answer is known, and the two directions must agree
    FIXED = [("[a:b = 1 OR a:b = 2]", "[a:b = 1 AND a:b = 2]", False), ("[a:b = 1 AND a:b = 2]", "[a:b = 2 AND a:b = 1]", True),
             ("[a:b = 9007199254740992]", "[a:b = 9007199254740993]", False),
             ("[a:b IN (9007199254740992, 9007199254740993)]", "[a:b IN (9007199254740992)]", False),
             ("[a:b = 9007199254740992 OR a:b = 9007199254740993]", "[a:b = 9007199254740992]", False),
             ("[a:b = 1" + "0" * 310 + "]", "[a:b = 1" + "0" * 309 + "1]", False),
             ("[a:b = 1" + "0" * 310 + "]", "[a:b = 1" + "0" * 310 + "]", True),
             ("(([a:b = 1] OR [a:b = 1]) AND [a:b = 2]) OR ([a:b = 1] AND [a:b = 2])", "[a:b = 1] AND [a:b = 2]", True),
             ("[((a:b = 1 OR a:b = 1) AND a:c = 2) OR (a:b = 1 AND a:c = 2)]", "[a:b = 1 AND a:c = 2]", True)]
    fres2 = common.run_impl("c09_impl", [{"op": "equiv", "p": x, "q": y} for a, b, _ in FIXED for x, y in ((a, b), (b, a))])
    stats["fixed_pairs"] = len(FIXED)
    for n, (a, b, want) in enumerate(FIXED):
        r1, r2 = fres2[2 * n], fres2[2 * n + 1]
        run.count({"op": "equiv", "p": a, "q": b}, nontrivial=True)
        for (x, y), r in (((a, b), r1), ((b, a), r2)):
            if is_exc(r):
                run.violations.append(Violation("equivalent_patterns raises %s (%s) on %r / %r" % (r["exc"], r.get("where"), x, y),
                                                {"kind": "equiv-crash", "p": x, "q": y, "exc": r}))
        if not is_exc(r1) and not is_exc(r2):
            if r1["r"] != r2["r"]:
                run.violations.append(Violation("equivalent_patterns is not symmetric on %r / %r" % (a, b),
                                                {"kind": "symmetric", "p": a, "q": b}))
            elif r1["r"] is True and not want:
                run.violations.append(Violation(
                    "equivalent_patterns(%r, %r) is True although the patterns match different observations" % (a, b),
                    {"kind": "unsound-witness", "p": a, "q": b}))
            elif r1["r"] is False and want:
                run.violations.append(Violation(
                    "equivalent_patterns(%r, %r) is False although the second is the first after documented rewrites "
                    "(idempotence, then the collapse of the one-operand OR, then idempotence again)" % (a, b),
                    {"kind": "recognise", "p": a, "q": b, "rewrites": ["two-pass"]}))

    # ---- oracle: every public way of naming the STIX version (stix_version "2.0" / "2.1", as keyword, positionally, not
    #      at all) with version-specific vocabulary (a 2.1-only keyword as a 2.0 property name): on a pattern the validator
    #      of that version accepts the test must not raise, must be reflexive, must not depend on how the version is handed
    #      over, and equivalent_patterns and find_equivalent_patterns must agree pair by pair
    ver_rng = _random.Random(run.seed * 104729 + 7)
    g3 = G.Gen(ver_rng, 2)
    vfam = []          # (version, [texts]); texts[0] is the query
    vrisky = set()
    for n in range(nver):
        for _ in range(30):
            base = G.normalize_shape(g3.pattern())
            if G.leaf_qualifier_clash(base) or G.size(base) > 25 or G.too_costly(base):
                continue
            if n % 2 == 0:
                base = G.as_v20_only(ver_rng, base)
                if base is None:
                    continue
            break
        else:
            continue
        ver = "2.0" if n % 2 == 0 else "2.1"
        members = [base]
        r1 = G.rw_observation(ver_rng, base)
        if r1 is not None and not G.leaf_qualifier_clash(G.normalize_shape(r1[0])) and not G.too_costly(r1[0]):
            members.append(G.normalize_shape(r1[0]))
        ed = G.edit(ver_rng, base)
        if ed is not None and not G.leaf_qualifier_clash(G.normalize_shape(ed[0])) and not G.too_costly(ed[0]):
            members.append(G.normalize_shape(ed[0]))
        try:
            vfam.append((ver, [G.print_o(m, ver_rng, 0.05)[0] for m in members]))
        except Exception:  # noqa: BLE001
            continue
        if any(has_atom(m, lambda a: G.print_path(a[1], a[2])[1] is None) for m in members):
            vrisky.add(vfam[-1][1][0])     # a path shape the visitor is known to reject (listed under C10)
    vvalid = common.run_impl("c09_impl", [{"op": "valid", "p": t, "ver": ver} for ver, ts in vfam for t in ts])
    vcases = []
    k = 0
    for ver, ts in vfam:
        ok = [t for t in ts if vvalid[k + ts.index(t)].get("valid")]
        k += len(ts)
        if not ok or ok[0] != ts[0]:
            continue
        forms = ["kw", "pos"] + (["default"] if ver == "2.1" else [])
        for f in forms:
            for t in ok:
                vcases.append(({"op": "equiv", "p": ok[0], "q": t, "ver": ver, "form": f}, ver, f, ok))
            vcases.append(({"op": "find", "p": ok[0], "ps": ok, "ver": ver, "form": f}, ver, f, ok))
    vres = common.run_impl("c09_impl", [c for c, _, _, _ in vcases])
    stats["version_forms"] = 0
    by_call = {}
    for (c, ver, f, ok), r in zip(vcases, vres):
        by_call[(c["op"], c["p"], c.get("q"), ver, f)] = r
    n_v = 0
    for (c, ver, f, ok), r in zip(vcases, vres):
        if n_v >= 6:
            break
        run.count(c, nontrivial=True)
        stats["version_forms"] += 1
        base_kw = by_call.get(("equiv", c["p"], c["p"], ver, "kw"))
        if c["op"] == "equiv":
            if is_exc(r):
                # a crash that the keyword form on the pattern itself shows as well is one of the listed / reported classes
                kw_fine = not is_exc(by_call.get(("equiv", c["p"], c["q"], ver, "kw")))
                if r.get("exc") != "CaseTimeout" and ((f != "kw" and kw_fine) or
                                                      (f == "kw" and ver == "2.0" and c["p"] not in vrisky)):
                    fid = classify_crash(None, "parse", r) if f == "kw" else None
                    if fid is None:
                        n_v += 1
                    run.violations.append(Violation(
                        "equivalent_patterns(.., stix_version %s handed over as %s) raises %s (%s) on %r / %r, which the %s validator accepts"
                        % (ver, f, r["exc"], r.get("where"), c["p"], c["q"], ver),
                        {"kind": "equiv-crash", "p": c["p"], "q": c["q"], "ver": ver, "form": f, "exc": r}, finding=fid))
                continue
            if c["q"] == c["p"] and r["r"] is not True:
                n_v += 1
                run.violations.append(Violation("equivalent_patterns(p, p) is False for p = %r (stix_version %s, %s)" % (c["p"], ver, f),
                                                {"kind": "reflexive", "p": c["p"], "ver": ver, "form": f}))
            kwr = by_call.get(("equiv", c["p"], c["q"], ver, "kw"))
            if f != "kw" and kwr is not None and not is_exc(kwr) and kwr["r"] != r["r"]:
                n_v += 1
                run.violations.append(Violation(
                    "equivalent_patterns(%r, %r) depends on how stix_version=%s is handed over: keyword %s, %s %s"
                    % (c["p"], c["q"], ver, kwr["r"], f, r["r"]),
                    {"kind": "version-form", "p": c["p"], "q": c["q"], "ver": ver, "form": f}))
        else:
            prs = [by_call.get(("equiv", c["p"], t, ver, f)) for t in ok]
            if any(x is None or is_exc(x) for x in prs):
                continue
            want = [i for i, x in enumerate(prs) if x["r"] is True]
            if is_exc(r) or r["r"] != want:
                n_v += 1
                run.violations.append(Violation(
                    "find_equivalent_patterns returns members %s, the pairwise test says %s (stix_version %s handed over as %s)"
                    % (r.get("r", r), want, ver, f), {"kind": "find", "p": c["p"], "ps": ok, "ver": ver, "form": f}))

    # ---- oracle: the normal form itself is a pattern equivalent_patterns reports equivalent to the
    #      original; written back as text it must match the same observation sequences
    t_phase["pairs_done"] = _time.time()
    nf_checked = nf_skipped = 0
    nf_cases = []
    for p in pats:
        if not usable(p) or is_exc(p.impl.get("norm")) or "norm" not in p.impl:
            continue
        if not (run.broken or p.idx in boundary or p.idx % 3 == 0):
            continue
        try:
            q_ast = G.normalize_shape(G.dump_to_ast(p.impl["norm"]))
            if G.leaf_qualifier_clash(q_ast):
                raise G.Unprintable("qualifier chain")
            q_text = G.print_o(q_ast)[0]
        except (G.Unprintable, ValueError, KeyError, IndexError, OverflowError):
            nf_skipped += 1
            continue
        nf_checked += 1
        count = 150 if (run.broken or p.idx in boundary) else 12
        w = E.differ(rng, p.ast, q_ast, count)
        if w is not None:
            nf_cases.append((p, q_ast, q_text, w))
    if nf_cases:
        conf = common.run_impl("c09_impl", [{"op": "equiv", "p": p.text, "q": q_text} for p, _, q_text, _ in nf_cases])
        for (p, q_ast, q_text, w), r in zip(nf_cases, conf):
            if r.get("r") is True:
                seq = E.seq_from_json(w["seq"])
                run.violations.append(Violation(
                    "equivalent_patterns(%r, %r) is True (the second is the normal form of the first) but they match "
                    "different observation sequences" % (p.text, q_text),
                    {"kind": "unsound", "p": p.text, "q": q_text, "ast_p": E.to_json(p.ast), "ast_q": E.to_json(q_ast),
                     "seq": w["seq"], "observations": w["observations"],
                     "matches_p": w["matches_first"], "matches_q": w["matches_second"]},
                    finding=classify_unsound(p.ast, q_ast, seq)))
    stats["normal_form_checked"] = nf_checked
    stats["normal_form_not_printable"] = nf_skipped
    stats["normal_form_differs"] = len(nf_cases)
    t_phase["end"] = _time.time()
    run.coverage["oracle"] = stats
    run.coverage["phase_seconds"] = {k: round(t_phase[k] - t_phase["start"], 1) for k in t_phase if k != "start"}
    run.coverage["rule_instances"] = dict(sorted(rules_hist.items()))
    for p in pats[:3]:
        run.sample({"pattern": p.text, "normal_form": impl_line_norm(p.impl)})
    for (kind, a, b, names), r in list(zip(ecases, eres))[:40]:
        if kind in ("rewrite", "edit"):
            run.sample({"kind": kind, "rewrites": names, "p": a.text, "q": b.text, "equivalent": r})
    run.coverage["trusted_base"] += [
        "coq/Model/PatternEq.v is hand-written (correspondence-checked each run on normal forms, equivalent_patterns, find_equivalent_patterns)",
        "restated platform functions: glibc inet_aton/inet_pton/inet_ntop, Python int() and str.lower() below U+0100",
        "harness/props/c09_eval.py: independent pattern evaluator (bindings semantics of DESIGN A.5), used only to search for failing inputs",
        "the model is fed the object model built by the implementation's own parser/visitor (the visitor is property C10)",
    ]
    run.assumptions += [
        "float literals carry <= 15 significant digits (exact rational comparison = comparison of the doubles)",
        "set literals contain primitive constants only (grammar)",
        "the case files evaluate the model with fuel %d (termination for some fuel is proved: equiv_never_raises; exhaustions at this fuel are counted in coverage.model_fuel_exhausted)" % FUEL,
        "soundness theorems quantify over atom interpretations that are typed by object type, see a constant through its denotation (Spec/PatternSemantics.v: den_atom) and, for IPv6 only, are invariant under the address canonicalisation (respects_cidr6)",
    ]


# --------------------------------------------------------------------------

def replay(payload):
    r = payload.get("replay")
    if r is None:
        print("replay: this file stores no failing input; it names what no longer checks:")
        for b in payload.get("no_longer_checks", [])[:5]:
            print("  %s: %s" % (b.get("kind"), b.get("name")))
            for d in (b.get("detail", {}).get("first") or [])[:2]:
                print("    %s" % (str(d)[:400]))
        print("VIOLATION property=C09 replay=(given) no-failing-input-found")
        return 1
    kind = r.get("kind")
    vf = {k: r[k] for k in ("ver", "form") if isinstance(r, dict) and k in r}
    one = lambda c: common.run_impl("c09_impl", [dict(c, **vf)], procs=1)[0]   # noqa: E731
    bad = False
    if kind == "crash":
        res = one({"op": "norm", "p": r["pattern"]})
        stage = "parse" if is_exc(res.get("parse")) else "norm" if is_exc(res.get("norm")) else None
        print("replay %r: valid=%s %s" % (r["pattern"], res.get("valid"), ("raises %s at %s" % (res[stage]["exc"], res[stage]["where"])) if stage else "normalises"))
        bad = bool(stage) and bool(res.get("valid"))
    elif kind in ("unsound", "unsound-witness"):
        res = one({"op": "equiv", "p": r["p"], "q": r["q"]})
        print("replay equivalent_patterns(%r, %r) = %s" % (r["p"], r["q"], res))
        if kind == "unsound":
            seq = E.seq_from_json(r["seq"])
            mp = E.matches(E.ast_from_json(r["ast_p"]), seq)
            mq = E.matches(E.ast_from_json(r["ast_q"]), seq)
            print("  evaluator on the stored observations: first matches=%s second matches=%s" % (mp, mq))
            bad = res.get("r") is True and mp != mq
        else:
            bad = res.get("r") is True
    elif kind == "reflexive":
        res = one({"op": "equiv", "p": r["p"], "q": r["p"]})
        print("replay equivalent_patterns(p, p) = %s" % res)
        bad = res.get("r") is not True
    elif kind == "symmetric":
        a, b = one({"op": "equiv", "p": r["p"], "q": r["q"]}), one({"op": "equiv", "p": r["q"], "q": r["p"]})
        print("replay p~q = %s, q~p = %s" % (a, b))
        bad = a != b
    elif kind == "transitive":
        a, b, c = (one({"op": "equiv", "p": r["p"], "q": r["q"]}), one({"op": "equiv", "p": r["q"], "q": r["r"]}),
                   one({"op": "equiv", "p": r["p"], "q": r["r"]}))
        print("replay p~q = %s, q~r = %s, p~r = %s" % (a, b, c))
        bad = a.get("r") is True and b.get("r") is True and c.get("r") is not True
    elif kind == "recognise":
        res = one({"op": "equiv", "p": r["p"], "q": r["q"]})
        print("replay equivalent_patterns after rewrites %s = %s" % (r.get("rewrites"), res))
        bad = res.get("r") is not True
    elif kind == "equiv-crash":
        res = one({"op": "equiv", "p": r["p"], "q": r["q"]})
        print("replay equivalent_patterns = %s" % res)
        bad = is_exc(res)
    elif kind == "version-form":
        a = one({"op": "equiv", "p": r["p"], "q": r["q"]})
        b = common.run_impl("c09_impl", [{"op": "equiv", "p": r["p"], "q": r["q"], "ver": r["ver"], "form": "kw"}], procs=1)[0]
        print("replay equivalent_patterns: %s as given, %s with the keyword" % (a, b))
        bad = a != b
    elif kind == "find":
        res = one({"op": "find", "p": r["p"], "ps": r["ps"]})
        pair = [one({"op": "equiv", "p": r["p"], "q": x}) for x in r["ps"]]
        want = [i for i, x in enumerate(pair) if x.get("r") is True]
        print("replay find = %s, pairwise = %s" % (res, want))
        bad = is_exc(res) or res.get("r") != want
    else:
        print("replay: no failing input is stored in this file (it names what no longer checks)")
        return 1
    if bad:
        print("VIOLATION property=C09 replay=(given)")
        return 1
    print("no violation on this input")
    return 0

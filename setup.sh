#!/bin/sh
# Build the framework from files on disk only (offline): regenerate the
# translated Gallina from /repo, full .vo build of the whole development.
cd "$(dirname "$0")" || exit 2
set -e
/venv/bin/python -B harness/setup.py
/venv/bin/python -B harness/gen_coqproject.py >/dev/null
cd coq
coq_makefile -f _CoqProject -o Makefile >/dev/null
timeout 3000 make -j16 2>&1 | grep -v "^Closed under\|^COQC\|^COQDEP" | tail -40
timeout 3000 make -j16 >/dev/null 2>&1
echo "setup ok"

#!/bin/sh
# Build the framework from files on disk only (offline): regenerate the
# translated Gallina from /repo, full .vo build of the whole development.
# A file that fails to compile does not stop the others (make -k); the check of
# the property that needs it rebuilds it and reports the failure itself.
cd "$(dirname "$0")" || exit 2
/venv/bin/python -B harness/setup.py || exit 2
/venv/bin/python -B harness/gen_coqproject.py >/dev/null || exit 2
cd coq || exit 2
coq_makefile -f _CoqProject -o Makefile >/dev/null || exit 2
timeout 3000 make -k -j16 >../.scratch_setup.log 2>&1
rc=$?
grep -E "^File |^Error|\*\*\*" ../.scratch_setup.log | head -40
rm -f ../.scratch_setup.log
if [ $rc -ne 0 ]; then echo "setup: some files did not build (see above); checks of other properties are unaffected"; fi
echo "setup ok"
exit 0

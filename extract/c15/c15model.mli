
val negb : bool -> bool

type nat =
| O
| S of nat

val fst : ('a1 * 'a2) -> 'a1

val snd : ('a1 * 'a2) -> 'a2

val length : 'a1 list -> nat

val app : 'a1 list -> 'a1 list -> 'a1 list

type comparison =
| Eq
| Lt
| Gt

val compOpp : comparison -> comparison

val add : nat -> nat -> nat

val sub : nat -> nat -> nat

type positive =
| XI of positive
| XO of positive
| XH

type n =
| N0
| Npos of positive

type z =
| Z0
| Zpos of positive
| Zneg of positive

module Pos :
 sig
  type mask =
  | IsNul
  | IsPos of positive
  | IsNeg
 end

module Coq_Pos :
 sig
  val succ : positive -> positive

  val add : positive -> positive -> positive

  val add_carry : positive -> positive -> positive

  val pred_double : positive -> positive

  type mask = Pos.mask =
  | IsNul
  | IsPos of positive
  | IsNeg

  val succ_double_mask : mask -> mask

  val double_mask : mask -> mask

  val double_pred_mask : positive -> mask

  val sub_mask : positive -> positive -> mask

  val sub_mask_carry : positive -> positive -> mask

  val mul : positive -> positive -> positive

  val iter : ('a1 -> 'a1) -> 'a1 -> positive -> 'a1

  val compare_cont : comparison -> positive -> positive -> comparison

  val compare : positive -> positive -> comparison

  val eqb : positive -> positive -> bool

  val iter_op : ('a1 -> 'a1 -> 'a1) -> positive -> 'a1 -> 'a1

  val to_nat : positive -> nat

  val of_succ_nat : nat -> positive
 end

module N :
 sig
  val succ_double : n -> n

  val double : n -> n

  val add : n -> n -> n

  val sub : n -> n -> n

  val compare : n -> n -> comparison

  val eqb : n -> n -> bool

  val leb : n -> n -> bool

  val ltb : n -> n -> bool

  val pos_div_eucl : positive -> n -> n * n

  val div_eucl : n -> n -> n * n

  val div : n -> n -> n

  val modulo : n -> n -> n

  val of_nat : nat -> n
 end

val zero : char

val one : char

val shift : bool -> char -> char

val ascii_of_pos : positive -> char

val ascii_of_N : n -> char

val ascii_of_nat : nat -> char

val map : ('a1 -> 'a2) -> 'a1 list -> 'a2 list

val fold_right : ('a2 -> 'a1 -> 'a1) -> 'a1 -> 'a2 list -> 'a1

val existsb : ('a1 -> bool) -> 'a1 list -> bool

val firstn : nat -> 'a1 list -> 'a1 list

val repeat : 'a1 -> nat -> 'a1 list

module Z :
 sig
  val double : z -> z

  val succ_double : z -> z

  val pred_double : z -> z

  val pos_sub : positive -> positive -> z

  val add : z -> z -> z

  val opp : z -> z

  val sub : z -> z -> z

  val mul : z -> z -> z

  val pow_pos : z -> positive -> z

  val pow : z -> z -> z

  val compare : z -> z -> comparison

  val leb : z -> z -> bool

  val ltb : z -> z -> bool

  val eqb : z -> z -> bool

  val to_nat : z -> nat

  val to_N : z -> n

  val of_nat : nat -> z

  val of_N : n -> z

  val pos_div_eucl : positive -> z -> z * z

  val div_eucl : z -> z -> z * z

  val div : z -> z -> z

  val modulo : z -> z -> z
 end

val append : char list -> char list -> char list

type ustring = n list

val hexdigit : n -> char

val show_cp : n -> char list -> char list

val show_ustr : ustring -> char list

val show_pos_digits : nat -> z -> char list -> char list

val show_Z : z -> char list

val is_leap : z -> bool

val days_in_month : z -> z -> z

val days_before_year : z -> z

val cum_days : z -> z

val days_before_month : z -> z -> z

val days_of_civil : z -> z -> z -> z

val valid_date : z -> z -> z -> bool

val civil_of_doe : z -> z -> (z * z) * z

val civil_of_days : z -> (z * z) * z

val us_per_sec : z

val us_per_day : z

val max_instant : z

val in_range : z -> bool

type fields = { f_year : z; f_month : z; f_day : z; f_hour : z; f_min : 
                z; f_sec : z; f_us : z }

val fields_of : z -> fields

val instant_of : z -> z -> z -> z -> z -> z -> z -> z

val valid_fields : z -> z -> z -> z -> z -> z -> z -> bool

type precision =
| PAny
| PSecond
| PMilli

type pconstraint =
| CExact
| CMin

type year_mode =
| Unpadded
| Pad4

type naive_mode =
| NaiveKept
| NaiveUtc

type 'a result =
| Ok of 'a
| Raise of char list

val dchar : z -> n

val is_adigit : n -> bool

val adigit_val : n -> z

val digitsn : nat -> z -> z list

val text_of : z list -> ustring

val rstrip0 : z list -> z list

val ljust3 : z list -> z list

val frac_digits : precision -> pconstraint -> z -> z list

val year_text : year_mode -> z -> ustring

val ch_dash : n

val ch_colon : n

val ch_dot : n

val ch_T : n

val ch_Z : n

val pad2 : z -> ustring

val format : year_mode -> precision -> pconstraint -> z -> ustring

val format_dt :
  year_mode -> precision -> pconstraint -> z -> z option -> ustring result

val stored_trunc : precision -> pconstraint -> z -> z

val nd_zeros : n list

val udigit_in : n list -> n -> z option

val udigit : n -> z option

val in_cls : n -> n -> n -> z option

type 'a kont = z -> ustring -> 'a option

val one0 : (n -> z option) -> 'a1 kont -> ustring -> 'a1 option

val two :
  (n -> z option) -> (n -> z option) -> 'a1 kont -> ustring -> 'a1 option

val orelse :
  (ustring -> 'a1 option) -> (ustring -> 'a1 option) -> ustring -> 'a1 option

val space_then : (n -> z option) -> 'a1 kont -> ustring -> 'a1 option

val lit : n -> n -> (ustring -> 'a1 option) -> ustring -> 'a1 option

val re_Y : 'a1 kont -> ustring -> 'a1 option

val re_m : 'a1 kont -> ustring -> 'a1 option

val re_d : 'a1 kont -> ustring -> 'a1 option

val re_H : 'a1 kont -> ustring -> 'a1 option

val re_M : 'a1 kont -> ustring -> 'a1 option

val re_S : 'a1 kont -> ustring -> 'a1 option

val take_adigits : nat -> ustring -> z -> (z * ustring) option

val re_f : nat -> 'a1 kont -> ustring -> 'a1 option

type ptuple = ((((((z * z) * z) * z) * z) * z) * z) * ustring

val regex_match : bool -> ustring -> ptuple option

val has_dot : ustring -> bool

val parse_strptime : ustring -> z option

type tsinput =
| InDatetime of z * z option
| InDate of z * z * z
| InStr of ustring

val parse_into :
  naive_mode -> precision -> pconstraint -> tsinput -> (z * z option) result

val reparse : naive_mode -> precision -> pconstraint -> tsinput -> tsinput

val write_as :
  naive_mode -> year_mode -> precision -> pconstraint -> precision ->
  pconstraint -> tsinput -> ustring result

val show_optZ : z option -> char list

val show_text : ustring result -> char list

val show_parsed :
  naive_mode -> year_mode -> precision -> pconstraint -> tsinput -> char list

val dt : z -> z -> z -> z -> z -> z -> z -> z

val c15_case :
  nat -> naive_mode -> year_mode -> precision -> pconstraint -> bool ->
  (precision * pconstraint) option -> tsinput -> char list

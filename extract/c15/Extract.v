(* extract/c15/Extract.v -- the C15 model (Model/Timestamp.v: the very definitions the theorems of
   Props/C15.v are about) extracted to OCaml for the volume of the thorough tier.  Z/N/positive/nat
   stay Coq's inductive types; only bool/list/option/pairs/char/string map to OCaml's.          *)
From Coq Require Import Extraction ExtrOcamlBasic ExtrOcamlString ZArith List String.
From V Require Import Model.Timestamp.

(* k: 0 = format_datetime, 1 = parse_into_datetime (+ the text it is written as), 2 = clean + encoder *)
Definition c15_case (k : nat) (nm : naive_mode) (ym : year_mode) (p : precision) (c : pconstraint) (lose : bool)
                    (src : option (precision * pconstraint)) (v : tsinput) : string :=
  let v' := match src with Some (sp, sc) => reparse nm sp sc v | None => v end in
  (* lose: the value lost its precision attributes (copy / pickle) between cleaning and writing *)
  let p' := if lose then PAny else p in
  let c' := if lose then CExact else c in
  match k with
  | O => match v' with InDatetime l o => show_text (format_dt ym p' c' l o) | _ => "BADCASE"%string end
  | S O => show_parsed nm ym p c v'
  | _ => show_text (write_as nm ym p c p' c' v')
  end.

Extraction "c15model.ml" c15_case dt.

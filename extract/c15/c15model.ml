
(** val negb : bool -> bool **)

let negb = function
| true -> false
| false -> true

type nat =
| O
| S of nat

(** val fst : ('a1 * 'a2) -> 'a1 **)

let fst = function
| (x, _) -> x

(** val snd : ('a1 * 'a2) -> 'a2 **)

let snd = function
| (_, y) -> y

(** val length : 'a1 list -> nat **)

let rec length = function
| [] -> O
| _ :: l' -> S (length l')

(** val app : 'a1 list -> 'a1 list -> 'a1 list **)

let rec app l m =
  match l with
  | [] -> m
  | a :: l1 -> a :: (app l1 m)

type comparison =
| Eq
| Lt
| Gt

(** val compOpp : comparison -> comparison **)

let compOpp = function
| Eq -> Eq
| Lt -> Gt
| Gt -> Lt

module Coq__1 = struct
 (** val add : nat -> nat -> nat **)
 let rec add n0 m =
   match n0 with
   | O -> m
   | S p -> S (add p m)
end
include Coq__1

(** val sub : nat -> nat -> nat **)

let rec sub n0 m =
  match n0 with
  | O -> n0
  | S k -> (match m with
            | O -> n0
            | S l -> sub k l)

type positive =
| XI of positive
| XO of positive
| XH

type n =
| N0
| Npos of positive

type z =
| Z0
| Zpos of positive
| Zneg of positive

module Pos =
 struct
  type mask =
  | IsNul
  | IsPos of positive
  | IsNeg
 end

module Coq_Pos =
 struct
  (** val succ : positive -> positive **)

  let rec succ = function
  | XI p -> XO (succ p)
  | XO p -> XI p
  | XH -> XO XH

  (** val add : positive -> positive -> positive **)

  let rec add x y =
    match x with
    | XI p ->
      (match y with
       | XI q -> XO (add_carry p q)
       | XO q -> XI (add p q)
       | XH -> XO (succ p))
    | XO p ->
      (match y with
       | XI q -> XI (add p q)
       | XO q -> XO (add p q)
       | XH -> XI p)
    | XH -> (match y with
             | XI q -> XO (succ q)
             | XO q -> XI q
             | XH -> XO XH)

  (** val add_carry : positive -> positive -> positive **)

  and add_carry x y =
    match x with
    | XI p ->
      (match y with
       | XI q -> XI (add_carry p q)
       | XO q -> XO (add_carry p q)
       | XH -> XI (succ p))
    | XO p ->
      (match y with
       | XI q -> XO (add_carry p q)
       | XO q -> XI (add p q)
       | XH -> XO (succ p))
    | XH ->
      (match y with
       | XI q -> XI (succ q)
       | XO q -> XO (succ q)
       | XH -> XI XH)

  (** val pred_double : positive -> positive **)

  let rec pred_double = function
  | XI p -> XI (XO p)
  | XO p -> XI (pred_double p)
  | XH -> XH

  type mask = Pos.mask =
  | IsNul
  | IsPos of positive
  | IsNeg

  (** val succ_double_mask : mask -> mask **)

  let succ_double_mask = function
  | IsNul -> IsPos XH
  | IsPos p -> IsPos (XI p)
  | IsNeg -> IsNeg

  (** val double_mask : mask -> mask **)

  let double_mask = function
  | IsPos p -> IsPos (XO p)
  | x0 -> x0

  (** val double_pred_mask : positive -> mask **)

  let double_pred_mask = function
  | XI p -> IsPos (XO (XO p))
  | XO p -> IsPos (XO (pred_double p))
  | XH -> IsNul

  (** val sub_mask : positive -> positive -> mask **)

  let rec sub_mask x y =
    match x with
    | XI p ->
      (match y with
       | XI q -> double_mask (sub_mask p q)
       | XO q -> succ_double_mask (sub_mask p q)
       | XH -> IsPos (XO p))
    | XO p ->
      (match y with
       | XI q -> succ_double_mask (sub_mask_carry p q)
       | XO q -> double_mask (sub_mask p q)
       | XH -> IsPos (pred_double p))
    | XH -> (match y with
             | XH -> IsNul
             | _ -> IsNeg)

  (** val sub_mask_carry : positive -> positive -> mask **)

  and sub_mask_carry x y =
    match x with
    | XI p ->
      (match y with
       | XI q -> succ_double_mask (sub_mask_carry p q)
       | XO q -> double_mask (sub_mask p q)
       | XH -> IsPos (pred_double p))
    | XO p ->
      (match y with
       | XI q -> double_mask (sub_mask_carry p q)
       | XO q -> succ_double_mask (sub_mask_carry p q)
       | XH -> double_pred_mask p)
    | XH -> IsNeg

  (** val mul : positive -> positive -> positive **)

  let rec mul x y =
    match x with
    | XI p -> add y (XO (mul p y))
    | XO p -> XO (mul p y)
    | XH -> y

  (** val iter : ('a1 -> 'a1) -> 'a1 -> positive -> 'a1 **)

  let rec iter f x = function
  | XI n' -> f (iter f (iter f x n') n')
  | XO n' -> iter f (iter f x n') n'
  | XH -> f x

  (** val compare_cont : comparison -> positive -> positive -> comparison **)

  let rec compare_cont r x y =
    match x with
    | XI p ->
      (match y with
       | XI q -> compare_cont r p q
       | XO q -> compare_cont Gt p q
       | XH -> Gt)
    | XO p ->
      (match y with
       | XI q -> compare_cont Lt p q
       | XO q -> compare_cont r p q
       | XH -> Gt)
    | XH -> (match y with
             | XH -> r
             | _ -> Lt)

  (** val compare : positive -> positive -> comparison **)

  let compare =
    compare_cont Eq

  (** val eqb : positive -> positive -> bool **)

  let rec eqb p q =
    match p with
    | XI p0 -> (match q with
                | XI q0 -> eqb p0 q0
                | _ -> false)
    | XO p0 -> (match q with
                | XO q0 -> eqb p0 q0
                | _ -> false)
    | XH -> (match q with
             | XH -> true
             | _ -> false)

  (** val iter_op : ('a1 -> 'a1 -> 'a1) -> positive -> 'a1 -> 'a1 **)

  let rec iter_op op p a =
    match p with
    | XI p0 -> op a (iter_op op p0 (op a a))
    | XO p0 -> iter_op op p0 (op a a)
    | XH -> a

  (** val to_nat : positive -> nat **)

  let to_nat x =
    iter_op Coq__1.add x (S O)

  (** val of_succ_nat : nat -> positive **)

  let rec of_succ_nat = function
  | O -> XH
  | S x -> succ (of_succ_nat x)
 end

module N =
 struct
  (** val succ_double : n -> n **)

  let succ_double = function
  | N0 -> Npos XH
  | Npos p -> Npos (XI p)

  (** val double : n -> n **)

  let double = function
  | N0 -> N0
  | Npos p -> Npos (XO p)

  (** val add : n -> n -> n **)

  let add n0 m =
    match n0 with
    | N0 -> m
    | Npos p -> (match m with
                 | N0 -> n0
                 | Npos q -> Npos (Coq_Pos.add p q))

  (** val sub : n -> n -> n **)

  let sub n0 m =
    match n0 with
    | N0 -> N0
    | Npos n' ->
      (match m with
       | N0 -> n0
       | Npos m' ->
         (match Coq_Pos.sub_mask n' m' with
          | Coq_Pos.IsPos p -> Npos p
          | _ -> N0))

  (** val compare : n -> n -> comparison **)

  let compare n0 m =
    match n0 with
    | N0 -> (match m with
             | N0 -> Eq
             | Npos _ -> Lt)
    | Npos n' -> (match m with
                  | N0 -> Gt
                  | Npos m' -> Coq_Pos.compare n' m')

  (** val eqb : n -> n -> bool **)

  let eqb n0 m =
    match n0 with
    | N0 -> (match m with
             | N0 -> true
             | Npos _ -> false)
    | Npos p -> (match m with
                 | N0 -> false
                 | Npos q -> Coq_Pos.eqb p q)

  (** val leb : n -> n -> bool **)

  let leb x y =
    match compare x y with
    | Gt -> false
    | _ -> true

  (** val ltb : n -> n -> bool **)

  let ltb x y =
    match compare x y with
    | Lt -> true
    | _ -> false

  (** val pos_div_eucl : positive -> n -> n * n **)

  let rec pos_div_eucl a b =
    match a with
    | XI a' ->
      let (q, r) = pos_div_eucl a' b in
      let r' = succ_double r in
      if leb b r' then ((succ_double q), (sub r' b)) else ((double q), r')
    | XO a' ->
      let (q, r) = pos_div_eucl a' b in
      let r' = double r in
      if leb b r' then ((succ_double q), (sub r' b)) else ((double q), r')
    | XH ->
      (match b with
       | N0 -> (N0, (Npos XH))
       | Npos p -> (match p with
                    | XH -> ((Npos XH), N0)
                    | _ -> (N0, (Npos XH))))

  (** val div_eucl : n -> n -> n * n **)

  let div_eucl a b =
    match a with
    | N0 -> (N0, N0)
    | Npos na -> (match b with
                  | N0 -> (N0, a)
                  | Npos _ -> pos_div_eucl na b)

  (** val div : n -> n -> n **)

  let div a b =
    fst (div_eucl a b)

  (** val modulo : n -> n -> n **)

  let modulo a b =
    snd (div_eucl a b)

  (** val of_nat : nat -> n **)

  let of_nat = function
  | O -> N0
  | S n' -> Npos (Coq_Pos.of_succ_nat n')
 end

(** val zero : char **)

let zero = '\000'

(** val one : char **)

let one = '\001'

(** val shift : bool -> char -> char **)

let shift = fun b c -> Char.chr (((Char.code c) lsl 1) land 255 + if b then 1 else 0)

(** val ascii_of_pos : positive -> char **)

let ascii_of_pos =
  let rec loop n0 p =
    match n0 with
    | O -> zero
    | S n' ->
      (match p with
       | XI p' -> shift true (loop n' p')
       | XO p' -> shift false (loop n' p')
       | XH -> one)
  in loop (S (S (S (S (S (S (S (S O))))))))

(** val ascii_of_N : n -> char **)

let ascii_of_N = function
| N0 -> zero
| Npos p -> ascii_of_pos p

(** val ascii_of_nat : nat -> char **)

let ascii_of_nat a =
  ascii_of_N (N.of_nat a)

(** val map : ('a1 -> 'a2) -> 'a1 list -> 'a2 list **)

let rec map f = function
| [] -> []
| a :: t -> (f a) :: (map f t)

(** val fold_right : ('a2 -> 'a1 -> 'a1) -> 'a1 -> 'a2 list -> 'a1 **)

let rec fold_right f a0 = function
| [] -> a0
| b :: t -> f b (fold_right f a0 t)

(** val existsb : ('a1 -> bool) -> 'a1 list -> bool **)

let rec existsb f = function
| [] -> false
| a :: l0 -> (||) (f a) (existsb f l0)

(** val firstn : nat -> 'a1 list -> 'a1 list **)

let rec firstn n0 l =
  match n0 with
  | O -> []
  | S n1 -> (match l with
             | [] -> []
             | a :: l0 -> a :: (firstn n1 l0))

(** val repeat : 'a1 -> nat -> 'a1 list **)

let rec repeat x = function
| O -> []
| S k -> x :: (repeat x k)

module Z =
 struct
  (** val double : z -> z **)

  let double = function
  | Z0 -> Z0
  | Zpos p -> Zpos (XO p)
  | Zneg p -> Zneg (XO p)

  (** val succ_double : z -> z **)

  let succ_double = function
  | Z0 -> Zpos XH
  | Zpos p -> Zpos (XI p)
  | Zneg p -> Zneg (Coq_Pos.pred_double p)

  (** val pred_double : z -> z **)

  let pred_double = function
  | Z0 -> Zneg XH
  | Zpos p -> Zpos (Coq_Pos.pred_double p)
  | Zneg p -> Zneg (XI p)

  (** val pos_sub : positive -> positive -> z **)

  let rec pos_sub x y =
    match x with
    | XI p ->
      (match y with
       | XI q -> double (pos_sub p q)
       | XO q -> succ_double (pos_sub p q)
       | XH -> Zpos (XO p))
    | XO p ->
      (match y with
       | XI q -> pred_double (pos_sub p q)
       | XO q -> double (pos_sub p q)
       | XH -> Zpos (Coq_Pos.pred_double p))
    | XH ->
      (match y with
       | XI q -> Zneg (XO q)
       | XO q -> Zneg (Coq_Pos.pred_double q)
       | XH -> Z0)

  (** val add : z -> z -> z **)

  let add x y =
    match x with
    | Z0 -> y
    | Zpos x' ->
      (match y with
       | Z0 -> x
       | Zpos y' -> Zpos (Coq_Pos.add x' y')
       | Zneg y' -> pos_sub x' y')
    | Zneg x' ->
      (match y with
       | Z0 -> x
       | Zpos y' -> pos_sub y' x'
       | Zneg y' -> Zneg (Coq_Pos.add x' y'))

  (** val opp : z -> z **)

  let opp = function
  | Z0 -> Z0
  | Zpos x0 -> Zneg x0
  | Zneg x0 -> Zpos x0

  (** val sub : z -> z -> z **)

  let sub m n0 =
    add m (opp n0)

  (** val mul : z -> z -> z **)

  let mul x y =
    match x with
    | Z0 -> Z0
    | Zpos x' ->
      (match y with
       | Z0 -> Z0
       | Zpos y' -> Zpos (Coq_Pos.mul x' y')
       | Zneg y' -> Zneg (Coq_Pos.mul x' y'))
    | Zneg x' ->
      (match y with
       | Z0 -> Z0
       | Zpos y' -> Zneg (Coq_Pos.mul x' y')
       | Zneg y' -> Zpos (Coq_Pos.mul x' y'))

  (** val pow_pos : z -> positive -> z **)

  let pow_pos z0 =
    Coq_Pos.iter (mul z0) (Zpos XH)

  (** val pow : z -> z -> z **)

  let pow x = function
  | Z0 -> Zpos XH
  | Zpos p -> pow_pos x p
  | Zneg _ -> Z0

  (** val compare : z -> z -> comparison **)

  let compare x y =
    match x with
    | Z0 -> (match y with
             | Z0 -> Eq
             | Zpos _ -> Lt
             | Zneg _ -> Gt)
    | Zpos x' -> (match y with
                  | Zpos y' -> Coq_Pos.compare x' y'
                  | _ -> Gt)
    | Zneg x' ->
      (match y with
       | Zneg y' -> compOpp (Coq_Pos.compare x' y')
       | _ -> Lt)

  (** val leb : z -> z -> bool **)

  let leb x y =
    match compare x y with
    | Gt -> false
    | _ -> true

  (** val ltb : z -> z -> bool **)

  let ltb x y =
    match compare x y with
    | Lt -> true
    | _ -> false

  (** val eqb : z -> z -> bool **)

  let eqb x y =
    match x with
    | Z0 -> (match y with
             | Z0 -> true
             | _ -> false)
    | Zpos p -> (match y with
                 | Zpos q -> Coq_Pos.eqb p q
                 | _ -> false)
    | Zneg p -> (match y with
                 | Zneg q -> Coq_Pos.eqb p q
                 | _ -> false)

  (** val to_nat : z -> nat **)

  let to_nat = function
  | Zpos p -> Coq_Pos.to_nat p
  | _ -> O

  (** val to_N : z -> n **)

  let to_N = function
  | Zpos p -> Npos p
  | _ -> N0

  (** val of_nat : nat -> z **)

  let of_nat = function
  | O -> Z0
  | S n1 -> Zpos (Coq_Pos.of_succ_nat n1)

  (** val of_N : n -> z **)

  let of_N = function
  | N0 -> Z0
  | Npos p -> Zpos p

  (** val pos_div_eucl : positive -> z -> z * z **)

  let rec pos_div_eucl a b =
    match a with
    | XI a' ->
      let (q, r) = pos_div_eucl a' b in
      let r' = add (mul (Zpos (XO XH)) r) (Zpos XH) in
      if ltb r' b
      then ((mul (Zpos (XO XH)) q), r')
      else ((add (mul (Zpos (XO XH)) q) (Zpos XH)), (sub r' b))
    | XO a' ->
      let (q, r) = pos_div_eucl a' b in
      let r' = mul (Zpos (XO XH)) r in
      if ltb r' b
      then ((mul (Zpos (XO XH)) q), r')
      else ((add (mul (Zpos (XO XH)) q) (Zpos XH)), (sub r' b))
    | XH -> if leb (Zpos (XO XH)) b then (Z0, (Zpos XH)) else ((Zpos XH), Z0)

  (** val div_eucl : z -> z -> z * z **)

  let div_eucl a b =
    match a with
    | Z0 -> (Z0, Z0)
    | Zpos a' ->
      (match b with
       | Z0 -> (Z0, a)
       | Zpos _ -> pos_div_eucl a' b
       | Zneg b' ->
         let (q, r) = pos_div_eucl a' (Zpos b') in
         (match r with
          | Z0 -> ((opp q), Z0)
          | _ -> ((opp (add q (Zpos XH))), (add b r))))
    | Zneg a' ->
      (match b with
       | Z0 -> (Z0, a)
       | Zpos _ ->
         let (q, r) = pos_div_eucl a' b in
         (match r with
          | Z0 -> ((opp q), Z0)
          | _ -> ((opp (add q (Zpos XH))), (sub b r)))
       | Zneg b' -> let (q, r) = pos_div_eucl a' (Zpos b') in (q, (opp r)))

  (** val div : z -> z -> z **)

  let div a b =
    let (q, _) = div_eucl a b in q

  (** val modulo : z -> z -> z **)

  let modulo a b =
    let (_, r) = div_eucl a b in r
 end

(** val append : char list -> char list -> char list **)

let rec append s1 s2 =
  match s1 with
  | [] -> s2
  | c::s1' -> c::(append s1' s2)

type ustring = n list

(** val hexdigit : n -> char **)

let hexdigit n0 =
  if N.ltb n0 (Npos (XO (XI (XO XH))))
  then ascii_of_N (N.add (Npos (XO (XO (XO (XO (XI XH)))))) n0)
  else ascii_of_N (N.add (Npos (XI (XI (XI (XO (XI XH)))))) n0)

(** val show_cp : n -> char list -> char list **)

let show_cp c acc =
  if (&&)
       ((&&)
         ((&&) (N.leb (Npos (XO (XO (XO (XO (XO XH)))))) c)
           (N.leb c (Npos (XO (XI (XI (XI (XI (XI XH)))))))))
         (negb (N.eqb c (Npos (XO (XO (XI (XI (XI (XO XH))))))))))
       (negb (N.eqb c (Npos (XO (XI (XO (XO (XO XH))))))))
  then (ascii_of_N c)::acc
  else '\\'::((hexdigit
                (N.modulo
                  (N.div c (Npos (XO (XO (XO (XO (XO (XO (XO (XO (XO (XO (XO
                    (XO (XO (XO (XO (XO (XO (XO (XO (XO
                    XH)))))))))))))))))))))) (Npos (XO (XO (XO (XO XH)))))))::(
         (hexdigit
           (N.modulo
             (N.div c (Npos (XO (XO (XO (XO (XO (XO (XO (XO (XO (XO (XO (XO
               (XO (XO (XO (XO XH)))))))))))))))))) (Npos (XO (XO (XO (XO
             XH)))))))::((hexdigit
                           (N.modulo
                             (N.div c (Npos (XO (XO (XO (XO (XO (XO (XO (XO
                               (XO (XO (XO (XO XH)))))))))))))) (Npos (XO (XO
                             (XO (XO XH)))))))::((hexdigit
                                                   (N.modulo
                                                     (N.div c (Npos (XO (XO
                                                       (XO (XO (XO (XO (XO
                                                       (XO XH)))))))))) (Npos
                                                     (XO (XO (XO (XO XH)))))))::(
         (hexdigit
           (N.modulo (N.div c (Npos (XO (XO (XO (XO XH)))))) (Npos (XO (XO
             (XO (XO XH)))))))::((hexdigit
                                   (N.modulo c (Npos (XO (XO (XO (XO XH)))))))::acc))))))

(** val show_ustr : ustring -> char list **)

let show_ustr s =
  fold_right show_cp [] s

(** val show_pos_digits : nat -> z -> char list -> char list **)

let rec show_pos_digits fuel n0 acc =
  match fuel with
  | O -> acc
  | S f ->
    let d = Z.modulo n0 (Zpos (XO (XI (XO XH)))) in
    let acc' =
      (ascii_of_nat
        (add (S (S (S (S (S (S (S (S (S (S (S (S (S (S (S (S (S (S (S (S (S
          (S (S (S (S (S (S (S (S (S (S (S (S (S (S (S (S (S (S (S (S (S (S
          (S (S (S (S (S O))))))))))))))))))))))))))))))))))))))))))))))))
          (Z.to_nat d)))::acc
    in
    if Z.eqb (Z.div n0 (Zpos (XO (XI (XO XH))))) Z0
    then acc'
    else show_pos_digits f (Z.div n0 (Zpos (XO (XI (XO XH))))) acc'

(** val show_Z : z -> char list **)

let show_Z z0 =
  if Z.ltb z0 Z0
  then append ('-'::[])
         (show_pos_digits (S (S (S (S (S (S (S (S (S (S (S (S (S (S (S (S (S
           (S (S (S (S (S (S (S (S (S (S (S (S (S (S (S (S (S (S (S (S (S (S
           (S (S (S (S (S (S (S (S (S (S (S (S (S (S (S (S (S (S (S (S (S (S
           (S (S (S (S (S (S (S (S (S (S (S (S (S (S (S (S (S (S (S (S (S (S
           (S (S (S (S (S (S (S (S (S (S (S (S (S (S (S (S (S (S (S (S (S (S
           (S (S (S (S (S (S (S (S (S (S (S (S (S (S (S (S (S (S (S (S (S (S
           (S (S (S (S (S (S (S (S (S (S (S (S (S (S (S (S (S (S (S (S (S (S
           (S (S (S (S (S (S (S (S (S (S (S (S (S (S (S (S (S (S (S (S (S (S
           (S (S (S (S (S (S (S (S (S (S (S (S (S (S (S (S (S (S (S (S (S (S
           (S (S (S (S (S (S (S (S (S (S (S (S (S (S (S (S (S (S (S (S (S (S
           (S (S (S (S (S (S (S (S (S (S (S (S (S (S (S (S (S (S (S (S (S (S
           (S (S (S (S (S (S (S (S (S (S (S (S (S (S (S (S (S (S (S (S (S (S
           (S (S (S (S (S (S (S (S (S (S (S (S (S (S (S (S (S (S (S (S (S (S
           (S (S (S (S (S (S (S (S (S (S (S (S (S (S (S (S (S (S (S (S (S (S
           (S (S (S (S (S (S (S (S (S (S (S (S (S (S (S (S (S (S (S (S (S (S
           (S (S (S (S (S (S (S (S (S (S (S (S (S (S (S (S (S (S (S (S (S (S
           (S (S (S (S (S (S (S (S (S (S (S (S (S (S (S (S (S (S (S (S (S (S
           (S (S (S (S (S (S (S (S (S (S (S (S (S (S (S (S (S (S (S (S (S (S
           (S (S (S (S (S (S (S (S (S (S (S (S (S (S (S (S (S (S (S (S (S (S
           (S (S (S (S (S (S (S (S (S (S (S (S (S (S (S (S (S (S (S (S (S (S
           (S (S (S (S (S (S (S (S (S (S (S (S (S (S (S (S (S (S (S (S (S (S
           (S (S (S (S (S (S (S (S (S (S (S (S (S (S (S (S (S (S (S (S (S (S
           (S (S (S (S (S (S (S (S (S (S (S (S (S (S (S (S (S (S (S (S (S (S
           (S (S (S (S (S (S (S (S (S (S (S (S (S (S (S (S (S (S (S (S (S (S
           (S (S (S (S (S (S (S (S (S (S (S (S (S (S (S (S (S (S (S (S (S (S
           (S (S (S (S (S (S (S (S (S (S (S (S (S (S (S (S (S (S (S (S (S (S
           (S (S (S (S (S (S (S (S (S (S (S (S (S (S (S (S (S (S (S (S (S (S
           (S (S (S (S (S (S (S (S (S (S (S (S (S (S (S (S (S (S (S (S (S (S
           (S (S (S (S (S (S (S (S (S (S (S (S (S (S (S (S (S (S (S (S (S (S
           (S (S (S (S (S (S (S (S (S (S (S (S (S (S (S (S (S (S (S (S (S (S
           (S (S (S (S (S (S (S (S (S (S (S (S (S (S (S (S (S (S (S (S (S (S
           (S (S (S (S (S (S (S (S (S (S (S (S (S (S (S (S (S (S (S (S (S (S
           (S (S (S (S (S (S (S (S (S (S (S (S (S (S (S (S (S (S (S (S (S (S
           (S (S (S (S (S (S (S (S (S (S (S (S (S (S (S (S (S (S (S (S (S (S
           (S (S (S (S (S (S (S (S (S (S (S (S (S (S (S (S (S (S (S (S (S (S
           (S (S (S (S (S (S (S (S (S (S (S (S (S (S (S (S (S (S (S (S (S (S
           (S (S (S (S (S (S (S (S (S (S (S (S (S (S (S (S (S (S (S (S (S (S
           (S (S (S (S (S (S (S (S (S (S (S (S (S (S (S (S (S (S (S (S (S (S
           (S (S (S (S (S (S (S (S (S (S (S (S (S (S (S (S (S (S (S (S (S (S
           (S (S (S (S (S (S (S (S (S (S (S (S (S (S (S (S (S (S (S (S (S (S
           (S (S (S (S (S (S (S (S (S (S (S (S (S (S (S (S (S (S (S (S (S (S
           (S (S (S (S (S (S (S (S (S (S (S (S (S (S (S (S (S (S (S (S (S (S
           (S (S (S (S (S (S (S (S (S (S (S (S (S (S (S (S (S (S (S (S (S (S
           (S (S (S (S (S (S (S (S (S (S (S (S (S (S (S (S (S (S (S (S (S (S
           (S (S (S (S (S (S (S (S (S (S (S (S (S (S (S (S (S (S (S (S (S (S
           (S (S (S (S (S (S (S (S (S (S (S (S (S (S (S (S (S (S (S (S (S (S
           (S (S (S (S (S (S (S (S (S (S (S (S (S (S (S (S (S (S (S (S (S (S
           (S (S (S (S (S (S (S (S (S (S (S (S (S (S (S (S (S (S (S (S (S (S
           (S (S (S (S (S (S (S (S (S (S (S (S (S (S (S (S (S (S (S (S (S (S
           (S (S (S (S (S (S (S (S (S (S (S (S (S (S (S (S (S (S (S (S (S (S
           (S (S (S (S (S (S (S (S (S (S (S (S (S (S (S (S (S (S (S (S (S (S
           (S (S (S (S (S (S (S (S (S (S (S (S (S (S (S (S (S (S (S (S (S (S
           (S (S (S (S (S (S (S (S (S (S (S (S (S (S (S (S (S (S (S (S (S (S
           (S (S (S (S (S (S (S (S (S (S (S (S (S (S (S (S (S (S (S (S (S (S
           (S (S (S (S (S (S (S (S (S (S (S (S (S (S (S (S (S (S (S (S (S (S
           (S (S (S (S (S (S (S (S (S (S (S (S (S (S (S (S (S (S (S (S (S (S
           (S (S (S (S (S (S (S (S (S (S (S (S (S (S (S (S (S (S (S (S (S (S
           (S (S (S (S (S (S (S (S (S (S (S (S (S (S (S (S (S (S (S (S (S (S
           (S (S (S (S (S (S (S (S (S (S (S (S (S (S (S (S (S (S (S (S (S (S
           (S (S (S (S (S (S (S (S (S (S (S (S (S (S (S (S (S (S (S (S (S (S
           (S (S (S (S (S (S (S (S (S (S (S (S (S (S (S (S (S (S (S (S (S (S
           (S (S (S (S (S (S (S (S (S (S (S (S (S (S (S (S (S (S (S (S (S (S
           (S (S (S (S (S (S (S (S (S (S (S (S (S (S (S (S (S (S (S (S (S (S
           (S (S (S (S (S (S (S (S (S (S (S (S (S (S (S (S (S (S (S (S (S (S
           (S (S (S (S (S (S (S (S (S (S (S (S (S (S (S (S (S (S (S (S (S (S
           (S (S (S (S (S (S (S (S (S (S (S (S (S (S (S (S (S (S (S (S (S (S
           (S (S (S (S (S (S (S (S (S (S (S (S (S (S (S (S (S (S (S (S (S (S
           (S (S (S (S (S (S (S (S (S (S (S (S (S (S (S (S (S (S (S (S (S (S
           (S (S (S (S (S (S (S (S (S (S (S (S (S (S (S (S (S (S (S (S (S (S
           (S (S (S (S (S (S (S (S (S (S (S (S (S (S (S (S (S (S (S (S (S (S
           (S (S (S (S (S (S (S (S (S (S (S (S (S (S (S (S (S (S (S (S (S (S
           (S (S (S (S (S (S (S (S (S (S (S (S (S (S (S (S (S (S (S (S (S (S
           (S (S (S (S (S (S (S (S (S (S (S (S (S (S (S (S (S (S (S (S (S (S
           (S (S (S (S (S (S (S (S (S (S (S (S (S (S (S (S (S (S (S (S (S (S
           (S (S (S (S (S (S (S (S (S (S (S (S (S (S (S (S (S (S (S (S (S (S
           (S (S (S (S (S (S (S (S (S (S (S (S (S (S (S (S (S (S (S (S (S (S
           (S (S (S (S (S (S (S (S (S (S (S (S (S (S (S (S (S (S (S (S (S (S
           (S (S (S (S (S (S (S (S (S (S (S (S (S (S (S (S (S (S (S (S (S (S
           (S (S (S (S (S (S (S (S (S (S (S (S (S (S (S (S (S (S (S (S (S (S
           (S (S (S (S (S (S (S (S (S (S (S (S (S (S (S (S (S (S (S (S (S (S
           (S (S (S (S (S (S (S (S (S (S (S (S (S (S (S (S (S (S (S (S (S (S
           (S (S (S (S (S (S (S (S (S (S (S (S (S (S (S (S (S (S (S (S (S (S
           (S (S (S (S (S (S (S (S (S (S (S (S (S (S (S (S (S (S (S (S (S (S
           (S (S (S (S (S (S (S (S (S (S (S (S (S (S (S (S (S (S (S (S (S (S
           (S (S (S (S (S (S (S (S (S (S (S (S (S (S (S (S (S (S (S (S (S (S
           (S (S (S (S (S (S (S (S (S (S (S (S (S (S (S (S (S (S (S (S (S (S
           (S (S (S (S (S (S (S (S (S (S (S (S (S (S (S (S (S (S (S (S (S (S
           (S (S (S (S (S (S (S (S (S (S (S (S (S (S (S (S (S (S (S (S (S (S
           (S (S (S (S (S (S (S (S (S (S (S (S (S (S (S (S (S (S (S (S (S (S
           (S (S (S (S (S (S (S (S (S (S (S (S (S (S (S (S (S (S (S (S (S (S
           (S (S (S (S (S (S (S (S (S (S (S (S (S (S (S (S (S (S (S (S (S (S
           (S (S (S (S (S (S (S (S (S (S (S (S (S (S (S (S (S (S (S (S (S (S
           (S (S (S (S (S (S (S (S (S (S (S (S (S (S (S (S (S (S (S (S (S (S
           (S (S (S (S (S (S (S (S (S (S (S (S (S (S (S (S (S (S (S (S (S (S
           (S (S (S (S (S (S (S (S (S (S (S (S (S (S (S (S (S (S (S (S (S (S
           (S (S (S (S (S (S (S (S (S (S (S (S (S (S (S (S (S (S (S (S (S (S
           (S (S (S (S (S (S (S (S (S (S (S (S (S (S (S (S (S (S (S (S (S (S
           (S (S (S (S (S (S (S (S (S (S (S (S (S (S (S (S (S (S (S (S (S (S
           (S (S (S (S (S (S (S (S (S (S (S (S (S (S (S (S (S (S (S (S (S (S
           (S (S (S (S (S (S (S (S (S (S (S (S (S (S (S (S (S (S (S (S (S (S
           (S (S (S (S (S (S (S (S (S (S (S (S (S (S (S (S (S (S (S (S (S (S
           (S (S (S (S (S (S (S (S (S (S (S (S (S (S (S (S (S (S (S (S (S (S
           (S (S (S (S (S (S (S (S (S (S (S (S (S (S (S (S (S (S (S (S (S (S
           (S (S (S (S (S (S (S (S (S (S (S (S (S (S (S (S (S (S (S (S (S (S
           (S (S (S (S (S (S (S (S (S (S (S (S (S (S (S (S (S (S (S (S (S (S
           (S (S (S (S (S (S (S (S (S (S (S (S (S (S (S (S (S (S (S (S (S (S
           (S (S (S (S (S (S (S (S (S (S (S (S (S (S (S (S (S (S (S (S (S (S
           (S (S (S (S (S (S (S (S (S (S (S (S (S (S (S (S (S (S (S (S (S (S
           (S (S (S (S (S (S (S (S (S (S (S (S (S (S (S (S (S (S (S (S (S (S
           (S (S (S (S (S (S (S (S (S (S (S (S (S (S (S (S (S (S (S (S (S (S
           (S (S (S (S (S (S (S (S (S (S (S (S (S (S (S (S (S (S (S (S (S (S
           (S (S (S (S (S (S (S (S (S (S (S (S (S (S (S (S (S (S (S (S (S (S
           (S (S (S (S (S (S (S (S (S (S (S (S (S (S (S (S (S (S (S (S (S (S
           (S (S (S (S (S (S (S (S (S (S (S (S (S (S (S (S (S (S (S (S (S (S
           (S (S (S (S (S (S (S (S (S (S (S (S (S (S (S (S (S (S (S (S (S (S
           (S (S (S (S (S (S (S (S (S (S (S (S (S (S (S (S (S (S (S (S (S (S
           (S (S (S (S (S (S (S (S (S (S (S (S (S (S (S (S (S (S (S (S (S (S
           (S (S (S (S (S (S (S (S (S (S (S (S (S (S (S (S (S (S (S (S (S (S
           (S (S (S (S (S (S (S (S (S (S (S (S (S (S (S (S (S (S (S (S (S (S
           (S (S (S (S (S (S (S (S (S (S (S (S (S (S (S (S (S (S (S (S (S (S
           (S (S (S (S (S (S (S (S (S (S (S (S (S (S (S (S (S (S (S (S (S (S
           (S (S (S (S (S (S (S (S (S (S (S (S (S (S (S (S (S (S (S (S (S (S
           (S (S (S (S (S (S (S (S (S (S (S (S (S (S (S (S (S (S (S (S (S (S
           (S (S (S (S (S (S (S (S (S (S (S (S (S (S (S (S (S (S (S (S (S (S
           (S (S (S (S (S (S (S (S (S (S (S (S (S (S (S (S (S (S (S (S (S (S
           (S (S (S (S (S (S (S (S (S (S (S (S (S (S (S (S (S (S (S (S (S (S
           (S (S (S (S (S (S (S (S (S (S (S (S (S (S (S (S (S (S (S (S (S (S
           (S (S (S (S (S (S (S (S (S (S (S (S (S (S (S (S (S (S (S (S (S (S
           (S (S (S (S (S (S (S (S (S (S (S (S (S (S (S (S (S (S (S (S (S (S
           (S (S (S (S (S (S (S (S (S (S (S (S (S (S (S (S (S (S (S (S (S (S
           (S (S (S (S (S (S (S (S (S (S (S (S (S (S (S (S (S (S (S (S (S (S
           (S (S (S (S (S (S (S (S (S (S (S (S (S (S (S (S (S (S (S (S (S (S
           (S (S (S (S (S (S (S (S (S (S (S (S (S (S (S (S (S (S (S (S (S (S
           (S (S (S (S (S (S (S (S (S (S (S (S (S (S (S (S (S (S (S (S (S (S
           (S (S (S (S (S (S (S (S (S (S (S (S (S (S (S (S (S (S (S (S (S (S
           (S (S (S (S (S (S (S (S (S (S (S (S (S (S (S (S (S (S (S (S (S (S
           (S (S (S (S (S (S (S (S (S (S (S (S (S (S (S (S (S (S (S (S (S (S
           (S (S (S (S (S (S (S (S (S (S (S (S (S (S (S (S (S (S (S (S (S (S
           (S (S (S (S (S (S (S (S (S (S (S (S (S (S (S (S (S (S (S (S (S (S
           (S (S (S (S (S (S (S (S (S (S (S (S (S (S (S (S (S (S (S (S (S (S
           (S (S (S (S (S (S (S (S (S (S (S (S (S (S (S (S (S (S (S (S (S (S
           (S (S (S (S (S (S (S (S (S (S (S (S (S (S (S (S (S (S (S (S (S (S
           (S (S (S (S (S (S (S (S (S (S (S (S (S (S (S (S (S (S (S (S (S (S
           (S (S (S (S (S (S (S (S (S (S (S (S (S (S (S (S (S (S (S (S (S (S
           (S (S (S (S (S (S (S (S (S (S (S (S (S (S (S (S (S (S (S (S (S (S
           (S (S (S (S (S (S (S (S (S (S (S (S (S (S (S (S (S (S (S (S (S (S
           (S (S (S (S (S (S (S (S (S (S (S (S (S (S (S (S (S (S (S (S (S (S
           (S (S (S (S (S (S (S (S (S (S (S (S (S (S (S (S (S (S (S (S (S (S
           (S (S (S (S (S (S (S (S (S (S (S (S (S (S (S (S (S (S (S (S (S (S
           (S (S (S (S (S (S (S (S (S (S (S (S (S (S (S (S (S (S (S (S (S (S
           (S (S (S (S (S (S (S (S (S (S (S (S (S (S (S (S (S (S (S (S (S (S
           (S (S (S (S (S (S (S (S (S (S (S (S (S (S (S (S (S (S (S (S (S (S
           (S (S (S (S (S (S (S (S (S (S (S (S (S (S (S (S (S (S (S (S (S (S
           (S (S (S (S (S (S (S (S (S (S (S (S (S (S (S (S (S (S (S (S (S (S
           (S (S (S (S (S (S (S (S (S (S (S (S (S (S (S (S (S (S (S (S (S (S
           (S (S (S (S (S (S (S (S (S (S (S (S (S (S (S (S (S (S (S (S (S (S
           (S (S (S (S (S (S (S (S (S (S (S (S (S (S (S (S (S (S (S (S (S (S
           (S (S (S (S (S (S (S (S (S (S (S (S (S (S (S (S (S (S (S (S (S (S
           (S (S (S (S (S (S (S (S (S (S (S (S (S (S (S (S (S (S (S (S (S (S
           (S (S (S (S (S (S (S (S (S (S (S (S (S (S (S (S (S (S (S (S (S (S
           (S (S (S (S (S (S (S (S (S (S (S (S (S (S (S (S (S (S (S (S (S (S
           (S (S (S (S (S (S (S (S (S (S (S (S (S (S (S (S (S (S (S (S (S (S
           (S (S (S (S (S (S (S (S (S (S (S (S (S (S (S (S (S (S (S (S (S (S
           (S (S (S (S (S (S (S (S (S (S (S (S (S (S (S (S (S (S (S (S (S (S
           (S (S (S (S (S (S (S (S (S (S (S (S (S (S (S (S (S (S (S (S (S (S
           (S (S (S (S (S (S (S (S (S (S (S (S (S (S (S (S (S (S (S (S (S (S
           (S (S (S (S (S (S (S (S (S (S (S (S (S (S (S (S (S (S (S (S (S (S
           (S (S (S (S (S (S (S (S (S (S (S (S (S (S (S (S (S (S (S (S (S (S
           (S (S (S (S (S (S (S (S (S (S (S (S (S (S (S (S (S (S (S (S (S (S
           (S (S (S (S (S (S (S (S (S (S (S (S (S (S (S (S (S (S (S (S (S (S
           (S (S (S (S (S (S (S (S (S (S (S (S (S (S (S (S (S (S (S (S (S (S
           (S (S (S (S (S (S (S (S (S (S (S (S (S (S (S (S (S (S (S (S (S (S
           (S (S (S (S (S (S (S (S (S (S (S (S (S (S (S (S (S (S (S (S (S (S
           (S (S (S (S (S (S (S (S (S (S (S (S (S (S (S (S (S (S (S (S (S (S
           (S (S (S (S (S (S (S (S (S (S (S (S (S (S (S (S (S (S (S (S (S (S
           (S (S (S (S (S (S (S (S (S (S (S (S (S (S (S (S (S (S (S (S (S (S
           (S (S (S (S (S (S (S (S (S (S (S (S (S (S (S (S (S (S (S (S (S (S
           (S (S (S (S (S (S (S (S (S (S (S (S (S (S (S (S (S (S (S (S (S (S
           (S (S (S (S (S (S (S (S (S (S (S (S (S (S (S (S (S (S (S (S (S (S
           (S (S (S (S (S (S (S (S (S (S (S (S (S (S (S (S (S (S (S (S (S (S
           (S (S (S (S (S (S (S (S (S (S (S (S (S (S (S (S (S (S (S (S (S (S
           (S (S (S (S (S (S (S (S (S (S (S (S (S (S (S (S (S (S (S (S (S (S
           (S
           O))))))))))))))))))))))))))))))))))))))))))))))))))))))))))))))))))))))))))))))))))))))))))))))))))))))))))))))))))))))))))))))))))))))))))))))))))))))))))))))))))))))))))))))))))))))))))))))))))))))))))))))))))))))))))))))))))))))))))))))))))))))))))))))))))))))))))))))))))))))))))))))))))))))))))))))))))))))))))))))))))))))))))))))))))))))))))))))))))))))))))))))))))))))))))))))))))))))))))))))))))))))))))))))))))))))))))))))))))))))))))))))))))))))))))))))))))))))))))))))))))))))))))))))))))))))))))))))))))))))))))))))))))))))))))))))))))))))))))))))))))))))))))))))))))))))))))))))))))))))))))))))))))))))))))))))))))))))))))))))))))))))))))))))))))))))))))))))))))))))))))))))))))))))))))))))))))))))))))))))))))))))))))))))))))))))))))))))))))))))))))))))))))))))))))))))))))))))))))))))))))))))))))))))))))))))))))))))))))))))))))))))))))))))))))))))))))))))))))))))))))))))))))))))))))))))))))))))))))))))))))))))))))))))))))))))))))))))))))))))))))))))))))))))))))))))))))))))))))))))))))))))))))))))))))))))))))))))))))))))))))))))))))))))))))))))))))))))))))))))))))))))))))))))))))))))))))))))))))))))))))))))))))))))))))))))))))))))))))))))))))))))))))))))))))))))))))))))))))))))))))))))))))))))))))))))))))))))))))))))))))))))))))))))))))))))))))))))))))))))))))))))))))))))))))))))))))))))))))))))))))))))))))))))))))))))))))))))))))))))))))))))))))))))))))))))))))))))))))))))))))))))))))))))))))))))))))))))))))))))))))))))))))))))))))))))))))))))))))))))))))))))))))))))))))))))))))))))))))))))))))))))))))))))))))))))))))))))))))))))))))))))))))))))))))))))))))))))))))))))))))))))))))))))))))))))))))))))))))))))))))))))))))))))))))))))))))))))))))))))))))))))))))))))))))))))))))))))))))))))))))))))))))))))))))))))))))))))))))))))))))))))))))))))))))))))))))))))))))))))))))))))))))))))))))))))))))))))))))))))))))))))))))))))))))))))))))))))))))))))))))))))))))))))))))))))))))))))))))))))))))))))))))))))))))))))))))))))))))))))))))))))))))))))))))))))))))))))))))))))))))))))))))))))))))))))))))))))))))))))))))))))))))))))))))))))))))))))))))))))))))))))))))))))))))))))))))))))))))))))))))))))))))))))))))))))))))))))))))))))))))))))))))))))))))))))))))))))))))))))))))))))))))))))))))))))))))))))))))))))))))))))))))))))))))))))))))))))))))))))))))))))))))))))))))))))))))))))))))))))))))))))))))))))))))))))))))))))))))))))))))))))))))))))))))))))))))))))))))))))))))))))))))))))))))))))))))))))))))))))))))))))))))))))))))))))))))))))))))))))))))))))))))))))))))))))))))))))))))))))))))))))))))))))))))))))))))))))))))))))))))))))))))))))))))))))))))))))))))))))))))))))))))))))))))))))))))))))))))))))))))))))))))))))))))))))))))))))))))))))))))))))))))))))))))))))))))))))))))))))))))))))))))))))))))))))))))))))))))))))))))))))))))))))))))))))))))))))))))))))))))))))))))))))))))))))))))))))))))))))))))))))))))))))))))))))))))))))))))))))))))))))))))))))))))))))))))))))))))))))))))))))))))))))))))))))))))))))))))))))))))))))))))))))))))))))))))))))))))))))))))))))))))))))))))))))))))))))))))))))))))))))))))))))))))))))))))))))))))))))))))))))))))))))))))))))))))))))))))))))))))))))))))))))))))))))))))))))))))))))))))))))))))))))))))))))))))))))))))))))))))))))))))))))))))))))))))))))))))))))))))))))))))))))))))))))))))))))))))))))))))))))))))))))))))))))))))))))))))))))))))))))))))))))))))))))))))))))))))))))))))))))))))))))))))))))))))))))))))))))))))))))))))))))))))))))))))))))))))))))))))))))))))))))))))))))))))))))))))))))))))))))))))))))))))))))))))))))))))))))))))))))))))))))))))))))))))))))))))))))))))))))))))))))))))))))))))))))))))))))))))))))))))))))))))))))))))))))))))))))))))))))))))))))))))))))))))))))))))))))))))))))))))))))))))))))))))))))))))))))))))))))))))))))))))))))))))))))))))))))))))))))))))))))))))))))))))))))))))))))))))))))))))))))))))))))))))))))))))))))))))))))))))))))))))))))))))))))))))))))))))))))))))))))))))))))))))))))))))))))))))))))))))))))))))))))))))))))))))))))))))))))))))))))))))))))))))))))))))))))))
           (Z.opp z0) [])
  else show_pos_digits (S (S (S (S (S (S (S (S (S (S (S (S (S (S (S (S (S (S
         (S (S (S (S (S (S (S (S (S (S (S (S (S (S (S (S (S (S (S (S (S (S (S
         (S (S (S (S (S (S (S (S (S (S (S (S (S (S (S (S (S (S (S (S (S (S (S
         (S (S (S (S (S (S (S (S (S (S (S (S (S (S (S (S (S (S (S (S (S (S (S
         (S (S (S (S (S (S (S (S (S (S (S (S (S (S (S (S (S (S (S (S (S (S (S
         (S (S (S (S (S (S (S (S (S (S (S (S (S (S (S (S (S (S (S (S (S (S (S
         (S (S (S (S (S (S (S (S (S (S (S (S (S (S (S (S (S (S (S (S (S (S (S
         (S (S (S (S (S (S (S (S (S (S (S (S (S (S (S (S (S (S (S (S (S (S (S
         (S (S (S (S (S (S (S (S (S (S (S (S (S (S (S (S (S (S (S (S (S (S (S
         (S (S (S (S (S (S (S (S (S (S (S (S (S (S (S (S (S (S (S (S (S (S (S
         (S (S (S (S (S (S (S (S (S (S (S (S (S (S (S (S (S (S (S (S (S (S (S
         (S (S (S (S (S (S (S (S (S (S (S (S (S (S (S (S (S (S (S (S (S (S (S
         (S (S (S (S (S (S (S (S (S (S (S (S (S (S (S (S (S (S (S (S (S (S (S
         (S (S (S (S (S (S (S (S (S (S (S (S (S (S (S (S (S (S (S (S (S (S (S
         (S (S (S (S (S (S (S (S (S (S (S (S (S (S (S (S (S (S (S (S (S (S (S
         (S (S (S (S (S (S (S (S (S (S (S (S (S (S (S (S (S (S (S (S (S (S (S
         (S (S (S (S (S (S (S (S (S (S (S (S (S (S (S (S (S (S (S (S (S (S (S
         (S (S (S (S (S (S (S (S (S (S (S (S (S (S (S (S (S (S (S (S (S (S (S
         (S (S (S (S (S (S (S (S (S (S (S (S (S (S (S (S (S (S (S (S (S (S (S
         (S (S (S (S (S (S (S (S (S (S (S (S (S (S (S (S (S (S (S (S (S (S (S
         (S (S (S (S (S (S (S (S (S (S (S (S (S (S (S (S (S (S (S (S (S (S (S
         (S (S (S (S (S (S (S (S (S (S (S (S (S (S (S (S (S (S (S (S (S (S (S
         (S (S (S (S (S (S (S (S (S (S (S (S (S (S (S (S (S (S (S (S (S (S (S
         (S (S (S (S (S (S (S (S (S (S (S (S (S (S (S (S (S (S (S (S (S (S (S
         (S (S (S (S (S (S (S (S (S (S (S (S (S (S (S (S (S (S (S (S (S (S (S
         (S (S (S (S (S (S (S (S (S (S (S (S (S (S (S (S (S (S (S (S (S (S (S
         (S (S (S (S (S (S (S (S (S (S (S (S (S (S (S (S (S (S (S (S (S (S (S
         (S (S (S (S (S (S (S (S (S (S (S (S (S (S (S (S (S (S (S (S (S (S (S
         (S (S (S (S (S (S (S (S (S (S (S (S (S (S (S (S (S (S (S (S (S (S (S
         (S (S (S (S (S (S (S (S (S (S (S (S (S (S (S (S (S (S (S (S (S (S (S
         (S (S (S (S (S (S (S (S (S (S (S (S (S (S (S (S (S (S (S (S (S (S (S
         (S (S (S (S (S (S (S (S (S (S (S (S (S (S (S (S (S (S (S (S (S (S (S
         (S (S (S (S (S (S (S (S (S (S (S (S (S (S (S (S (S (S (S (S (S (S (S
         (S (S (S (S (S (S (S (S (S (S (S (S (S (S (S (S (S (S (S (S (S (S (S
         (S (S (S (S (S (S (S (S (S (S (S (S (S (S (S (S (S (S (S (S (S (S (S
         (S (S (S (S (S (S (S (S (S (S (S (S (S (S (S (S (S (S (S (S (S (S (S
         (S (S (S (S (S (S (S (S (S (S (S (S (S (S (S (S (S (S (S (S (S (S (S
         (S (S (S (S (S (S (S (S (S (S (S (S (S (S (S (S (S (S (S (S (S (S (S
         (S (S (S (S (S (S (S (S (S (S (S (S (S (S (S (S (S (S (S (S (S (S (S
         (S (S (S (S (S (S (S (S (S (S (S (S (S (S (S (S (S (S (S (S (S (S (S
         (S (S (S (S (S (S (S (S (S (S (S (S (S (S (S (S (S (S (S (S (S (S (S
         (S (S (S (S (S (S (S (S (S (S (S (S (S (S (S (S (S (S (S (S (S (S (S
         (S (S (S (S (S (S (S (S (S (S (S (S (S (S (S (S (S (S (S (S (S (S (S
         (S (S (S (S (S (S (S (S (S (S (S (S (S (S (S (S (S (S (S (S (S (S (S
         (S (S (S (S (S (S (S (S (S (S (S (S (S (S (S (S (S (S (S (S (S (S (S
         (S (S (S (S (S (S (S (S (S (S (S (S (S (S (S (S (S (S (S (S (S (S (S
         (S (S (S (S (S (S (S (S (S (S (S (S (S (S (S (S (S (S (S (S (S (S (S
         (S (S (S (S (S (S (S (S (S (S (S (S (S (S (S (S (S (S (S (S (S (S (S
         (S (S (S (S (S (S (S (S (S (S (S (S (S (S (S (S (S (S (S (S (S (S (S
         (S (S (S (S (S (S (S (S (S (S (S (S (S (S (S (S (S (S (S (S (S (S (S
         (S (S (S (S (S (S (S (S (S (S (S (S (S (S (S (S (S (S (S (S (S (S (S
         (S (S (S (S (S (S (S (S (S (S (S (S (S (S (S (S (S (S (S (S (S (S (S
         (S (S (S (S (S (S (S (S (S (S (S (S (S (S (S (S (S (S (S (S (S (S (S
         (S (S (S (S (S (S (S (S (S (S (S (S (S (S (S (S (S (S (S (S (S (S (S
         (S (S (S (S (S (S (S (S (S (S (S (S (S (S (S (S (S (S (S (S (S (S (S
         (S (S (S (S (S (S (S (S (S (S (S (S (S (S (S (S (S (S (S (S (S (S (S
         (S (S (S (S (S (S (S (S (S (S (S (S (S (S (S (S (S (S (S (S (S (S (S
         (S (S (S (S (S (S (S (S (S (S (S (S (S (S (S (S (S (S (S (S (S (S (S
         (S (S (S (S (S (S (S (S (S (S (S (S (S (S (S (S (S (S (S (S (S (S (S
         (S (S (S (S (S (S (S (S (S (S (S (S (S (S (S (S (S (S (S (S (S (S (S
         (S (S (S (S (S (S (S (S (S (S (S (S (S (S (S (S (S (S (S (S (S (S (S
         (S (S (S (S (S (S (S (S (S (S (S (S (S (S (S (S (S (S (S (S (S (S (S
         (S (S (S (S (S (S (S (S (S (S (S (S (S (S (S (S (S (S (S (S (S (S (S
         (S (S (S (S (S (S (S (S (S (S (S (S (S (S (S (S (S (S (S (S (S (S (S
         (S (S (S (S (S (S (S (S (S (S (S (S (S (S (S (S (S (S (S (S (S (S (S
         (S (S (S (S (S (S (S (S (S (S (S (S (S (S (S (S (S (S (S (S (S (S (S
         (S (S (S (S (S (S (S (S (S (S (S (S (S (S (S (S (S (S (S (S (S (S (S
         (S (S (S (S (S (S (S (S (S (S (S (S (S (S (S (S (S (S (S (S (S (S (S
         (S (S (S (S (S (S (S (S (S (S (S (S (S (S (S (S (S (S (S (S (S (S (S
         (S (S (S (S (S (S (S (S (S (S (S (S (S (S (S (S (S (S (S (S (S (S (S
         (S (S (S (S (S (S (S (S (S (S (S (S (S (S (S (S (S (S (S (S (S (S (S
         (S (S (S (S (S (S (S (S (S (S (S (S (S (S (S (S (S (S (S (S (S (S (S
         (S (S (S (S (S (S (S (S (S (S (S (S (S (S (S (S (S (S (S (S (S (S (S
         (S (S (S (S (S (S (S (S (S (S (S (S (S (S (S (S (S (S (S (S (S (S (S
         (S (S (S (S (S (S (S (S (S (S (S (S (S (S (S (S (S (S (S (S (S (S (S
         (S (S (S (S (S (S (S (S (S (S (S (S (S (S (S (S (S (S (S (S (S (S (S
         (S (S (S (S (S (S (S (S (S (S (S (S (S (S (S (S (S (S (S (S (S (S (S
         (S (S (S (S (S (S (S (S (S (S (S (S (S (S (S (S (S (S (S (S (S (S (S
         (S (S (S (S (S (S (S (S (S (S (S (S (S (S (S (S (S (S (S (S (S (S (S
         (S (S (S (S (S (S (S (S (S (S (S (S (S (S (S (S (S (S (S (S (S (S (S
         (S (S (S (S (S (S (S (S (S (S (S (S (S (S (S (S (S (S (S (S (S (S (S
         (S (S (S (S (S (S (S (S (S (S (S (S (S (S (S (S (S (S (S (S (S (S (S
         (S (S (S (S (S (S (S (S (S (S (S (S (S (S (S (S (S (S (S (S (S (S (S
         (S (S (S (S (S (S (S (S (S (S (S (S (S (S (S (S (S (S (S (S (S (S (S
         (S (S (S (S (S (S (S (S (S (S (S (S (S (S (S (S (S (S (S (S (S (S (S
         (S (S (S (S (S (S (S (S (S (S (S (S (S (S (S (S (S (S (S (S (S (S (S
         (S (S (S (S (S (S (S (S (S (S (S (S (S (S (S (S (S (S (S (S (S (S (S
         (S (S (S (S (S (S (S (S (S (S (S (S (S (S (S (S (S (S (S (S (S (S (S
         (S (S (S (S (S (S (S (S (S (S (S (S (S (S (S (S (S (S (S (S (S (S (S
         (S (S (S (S (S (S (S (S (S (S (S (S (S (S (S (S (S (S (S (S (S (S (S
         (S (S (S (S (S (S (S (S (S (S (S (S (S (S (S (S (S (S (S (S (S (S (S
         (S (S (S (S (S (S (S (S (S (S (S (S (S (S (S (S (S (S (S (S (S (S (S
         (S (S (S (S (S (S (S (S (S (S (S (S (S (S (S (S (S (S (S (S (S (S (S
         (S (S (S (S (S (S (S (S (S (S (S (S (S (S (S (S (S (S (S (S (S (S (S
         (S (S (S (S (S (S (S (S (S (S (S (S (S (S (S (S (S (S (S (S (S (S (S
         (S (S (S (S (S (S (S (S (S (S (S (S (S (S (S (S (S (S (S (S (S (S (S
         (S (S (S (S (S (S (S (S (S (S (S (S (S (S (S (S (S (S (S (S (S (S (S
         (S (S (S (S (S (S (S (S (S (S (S (S (S (S (S (S (S (S (S (S (S (S (S
         (S (S (S (S (S (S (S (S (S (S (S (S (S (S (S (S (S (S (S (S (S (S (S
         (S (S (S (S (S (S (S (S (S (S (S (S (S (S (S (S (S (S (S (S (S (S (S
         (S (S (S (S (S (S (S (S (S (S (S (S (S (S (S (S (S (S (S (S (S (S (S
         (S (S (S (S (S (S (S (S (S (S (S (S (S (S (S (S (S (S (S (S (S (S (S
         (S (S (S (S (S (S (S (S (S (S (S (S (S (S (S (S (S (S (S (S (S (S (S
         (S (S (S (S (S (S (S (S (S (S (S (S (S (S (S (S (S (S (S (S (S (S (S
         (S (S (S (S (S (S (S (S (S (S (S (S (S (S (S (S (S (S (S (S (S (S (S
         (S (S (S (S (S (S (S (S (S (S (S (S (S (S (S (S (S (S (S (S (S (S (S
         (S (S (S (S (S (S (S (S (S (S (S (S (S (S (S (S (S (S (S (S (S (S (S
         (S (S (S (S (S (S (S (S (S (S (S (S (S (S (S (S (S (S (S (S (S (S (S
         (S (S (S (S (S (S (S (S (S (S (S (S (S (S (S (S (S (S (S (S (S (S (S
         (S (S (S (S (S (S (S (S (S (S (S (S (S (S (S (S (S (S (S (S (S (S (S
         (S (S (S (S (S (S (S (S (S (S (S (S (S (S (S (S (S (S (S (S (S (S (S
         (S (S (S (S (S (S (S (S (S (S (S (S (S (S (S (S (S (S (S (S (S (S (S
         (S (S (S (S (S (S (S (S (S (S (S (S (S (S (S (S (S (S (S (S (S (S (S
         (S (S (S (S (S (S (S (S (S (S (S (S (S (S (S (S (S (S (S (S (S (S (S
         (S (S (S (S (S (S (S (S (S (S (S (S (S (S (S (S (S (S (S (S (S (S (S
         (S (S (S (S (S (S (S (S (S (S (S (S (S (S (S (S (S (S (S (S (S (S (S
         (S (S (S (S (S (S (S (S (S (S (S (S (S (S (S (S (S (S (S (S (S (S (S
         (S (S (S (S (S (S (S (S (S (S (S (S (S (S (S (S (S (S (S (S (S (S (S
         (S (S (S (S (S (S (S (S (S (S (S (S (S (S (S (S (S (S (S (S (S (S (S
         (S (S (S (S (S (S (S (S (S (S (S (S (S (S (S (S (S (S (S (S (S (S (S
         (S (S (S (S (S (S (S (S (S (S (S (S (S (S (S (S (S (S (S (S (S (S (S
         (S (S (S (S (S (S (S (S (S (S (S (S (S (S (S (S (S (S (S (S (S (S (S
         (S (S (S (S (S (S (S (S (S (S (S (S (S (S (S (S (S (S (S (S (S (S (S
         (S (S (S (S (S (S (S (S (S (S (S (S (S (S (S (S (S (S (S (S (S (S (S
         (S (S (S (S (S (S (S (S (S (S (S (S (S (S (S (S (S (S (S (S (S (S (S
         (S (S (S (S (S (S (S (S (S (S (S (S (S (S (S (S (S (S (S (S (S (S (S
         (S (S (S (S (S (S (S (S (S (S (S (S (S (S (S (S (S (S (S (S (S (S (S
         (S (S (S (S (S (S (S (S (S (S (S (S (S (S (S (S (S (S (S (S (S (S (S
         (S (S (S (S (S (S (S (S (S (S (S (S (S (S (S (S (S (S (S (S (S (S (S
         (S (S (S (S (S (S (S (S (S (S (S (S (S (S (S (S (S (S (S (S (S (S (S
         (S (S (S (S (S (S (S (S (S (S (S (S (S (S (S (S (S (S (S (S (S (S (S
         (S (S (S (S (S (S (S (S (S (S (S (S (S (S (S (S (S (S (S (S (S (S (S
         (S (S (S (S (S (S (S (S (S (S (S (S (S (S (S (S (S (S (S (S (S (S (S
         (S (S (S (S (S (S (S (S (S (S (S (S (S (S (S (S (S (S (S (S (S (S (S
         (S (S (S (S (S (S (S (S (S (S (S (S (S (S (S (S (S (S (S (S (S (S (S
         (S (S (S (S (S (S (S (S (S (S (S (S (S (S (S (S (S (S (S (S (S (S (S
         (S (S (S (S (S (S (S (S (S (S (S (S (S (S (S (S (S (S (S (S (S (S (S
         (S (S (S (S (S (S (S (S (S (S (S (S (S (S (S (S (S (S (S (S (S (S (S
         (S (S (S (S (S (S (S (S (S (S (S (S (S (S (S (S (S (S (S (S (S (S (S
         (S (S (S (S (S (S (S (S (S (S (S (S (S (S (S (S (S (S (S (S (S (S (S
         (S (S (S (S (S (S (S (S (S (S (S (S (S (S (S (S (S (S (S (S (S (S (S
         (S (S (S (S (S (S (S (S (S (S (S (S (S (S (S (S (S (S (S (S (S (S (S
         (S (S (S (S (S (S (S (S (S (S (S (S (S (S (S (S (S (S (S (S (S (S (S
         (S (S (S (S (S (S (S (S (S (S (S (S (S (S (S (S (S (S (S (S (S (S (S
         (S (S (S (S (S (S (S (S (S (S (S (S (S (S (S (S (S (S (S (S (S (S (S
         (S (S (S (S (S (S (S (S (S (S (S (S (S (S (S (S (S (S (S (S (S (S (S
         (S (S (S (S (S (S (S (S (S (S (S (S (S (S (S (S (S (S (S (S (S (S (S
         (S (S (S (S (S (S (S (S (S (S (S (S (S (S (S (S (S (S (S (S (S (S (S
         (S (S (S (S (S (S (S (S (S (S (S (S (S (S (S (S (S (S (S (S (S (S (S
         (S (S (S (S (S (S (S (S (S (S (S (S (S (S (S (S (S (S (S (S (S (S (S
         (S (S (S (S (S (S (S (S (S (S (S (S (S (S (S (S (S (S (S (S (S (S (S
         (S (S (S (S (S (S (S (S (S (S (S (S (S (S (S (S (S (S (S (S (S (S (S
         (S (S (S (S (S (S (S (S (S (S (S (S (S (S (S (S (S (S (S (S (S (S (S
         (S (S (S (S (S (S (S (S (S (S (S (S (S (S (S (S (S (S (S (S (S (S (S
         (S (S (S (S (S (S (S (S (S (S (S (S (S (S (S (S (S (S (S (S (S (S (S
         (S (S (S (S (S (S (S (S (S (S (S (S (S (S (S (S (S (S (S (S (S (S (S
         (S (S (S (S (S (S (S (S (S (S (S (S (S (S (S (S (S (S (S (S (S (S (S
         (S (S (S (S (S (S (S (S (S (S (S (S (S (S (S (S (S (S (S (S (S (S (S
         (S (S (S (S (S (S (S (S (S (S (S (S (S (S (S (S (S (S (S (S (S (S (S
         (S (S (S (S (S (S (S (S (S (S (S (S (S (S (S (S (S (S (S (S (S (S (S
         (S (S (S (S (S (S (S (S (S (S (S (S (S (S (S (S (S (S (S (S (S (S (S
         (S (S (S (S (S (S (S (S (S (S (S (S (S (S (S (S (S (S (S (S (S (S (S
         (S (S (S (S (S (S (S (S (S (S (S (S (S (S (S (S (S (S (S (S (S (S (S
         (S (S (S (S (S (S (S (S (S (S (S (S (S (S (S (S (S (S (S (S (S (S (S
         (S (S (S (S (S (S (S (S (S (S (S (S (S (S (S (S (S (S (S (S (S (S (S
         (S (S (S (S (S (S (S (S (S (S (S (S (S (S (S (S (S (S (S (S (S (S (S
         (S (S (S (S (S (S (S (S (S (S (S (S (S (S (S (S (S (S (S (S (S (S (S
         (S (S (S (S (S (S (S (S (S (S (S (S (S (S (S (S (S (S (S (S (S (S (S
         (S (S (S (S (S (S (S (S (S (S (S (S (S (S (S (S (S (S (S (S (S (S (S
         (S (S (S (S (S (S (S (S (S (S (S (S (S (S (S (S (S (S (S (S (S (S (S
         (S (S (S (S (S (S (S (S (S (S (S (S (S (S (S (S (S (S (S (S (S (S (S
         (S (S (S (S (S (S (S (S (S (S (S (S (S (S (S (S (S (S (S (S (S (S (S
         (S (S (S (S (S (S (S (S (S (S (S (S (S (S (S (S (S (S (S (S (S (S (S
         (S (S (S (S (S (S (S (S (S (S (S (S (S (S (S (S (S (S (S (S (S (S (S
         (S (S (S
         O))))))))))))))))))))))))))))))))))))))))))))))))))))))))))))))))))))))))))))))))))))))))))))))))))))))))))))))))))))))))))))))))))))))))))))))))))))))))))))))))))))))))))))))))))))))))))))))))))))))))))))))))))))))))))))))))))))))))))))))))))))))))))))))))))))))))))))))))))))))))))))))))))))))))))))))))))))))))))))))))))))))))))))))))))))))))))))))))))))))))))))))))))))))))))))))))))))))))))))))))))))))))))))))))))))))))))))))))))))))))))))))))))))))))))))))))))))))))))))))))))))))))))))))))))))))))))))))))))))))))))))))))))))))))))))))))))))))))))))))))))))))))))))))))))))))))))))))))))))))))))))))))))))))))))))))))))))))))))))))))))))))))))))))))))))))))))))))))))))))))))))))))))))))))))))))))))))))))))))))))))))))))))))))))))))))))))))))))))))))))))))))))))))))))))))))))))))))))))))))))))))))))))))))))))))))))))))))))))))))))))))))))))))))))))))))))))))))))))))))))))))))))))))))))))))))))))))))))))))))))))))))))))))))))))))))))))))))))))))))))))))))))))))))))))))))))))))))))))))))))))))))))))))))))))))))))))))))))))))))))))))))))))))))))))))))))))))))))))))))))))))))))))))))))))))))))))))))))))))))))))))))))))))))))))))))))))))))))))))))))))))))))))))))))))))))))))))))))))))))))))))))))))))))))))))))))))))))))))))))))))))))))))))))))))))))))))))))))))))))))))))))))))))))))))))))))))))))))))))))))))))))))))))))))))))))))))))))))))))))))))))))))))))))))))))))))))))))))))))))))))))))))))))))))))))))))))))))))))))))))))))))))))))))))))))))))))))))))))))))))))))))))))))))))))))))))))))))))))))))))))))))))))))))))))))))))))))))))))))))))))))))))))))))))))))))))))))))))))))))))))))))))))))))))))))))))))))))))))))))))))))))))))))))))))))))))))))))))))))))))))))))))))))))))))))))))))))))))))))))))))))))))))))))))))))))))))))))))))))))))))))))))))))))))))))))))))))))))))))))))))))))))))))))))))))))))))))))))))))))))))))))))))))))))))))))))))))))))))))))))))))))))))))))))))))))))))))))))))))))))))))))))))))))))))))))))))))))))))))))))))))))))))))))))))))))))))))))))))))))))))))))))))))))))))))))))))))))))))))))))))))))))))))))))))))))))))))))))))))))))))))))))))))))))))))))))))))))))))))))))))))))))))))))))))))))))))))))))))))))))))))))))))))))))))))))))))))))))))))))))))))))))))))))))))))))))))))))))))))))))))))))))))))))))))))))))))))))))))))))))))))))))))))))))))))))))))))))))))))))))))))))))))))))))))))))))))))))))))))))))))))))))))))))))))))))))))))))))))))))))))))))))))))))))))))))))))))))))))))))))))))))))))))))))))))))))))))))))))))))))))))))))))))))))))))))))))))))))))))))))))))))))))))))))))))))))))))))))))))))))))))))))))))))))))))))))))))))))))))))))))))))))))))))))))))))))))))))))))))))))))))))))))))))))))))))))))))))))))))))))))))))))))))))))))))))))))))))))))))))))))))))))))))))))))))))))))))))))))))))))))))))))))))))))))))))))))))))))))))))))))))))))))))))))))))))))))))))))))))))))))))))))))))))))))))))))))))))))))))))))))))))))))))))))))))))))))))))))))))))))))))))))))))))))))))))))))))))))))))))))))))))))))))))))))))))))))))))))))))))))))))))))))))))))))))))))))))))))))))))))))))))))))))))))))))))))))))))))))))))))))))))))))))))))))))))))))))))))))))))))))))))))))))))))))))))))))))))))))))))))))))))))))))))))))))))))))))))))))))))))))))))))))))))))))))))))))))))))))))))))))))))))))))))))))))))))))))))))))))))))))))))))))))))))))))))))))))))))))))))))))))))))))))))))))))))))))))))))))))))))))))))))))))))))))))))))))))))))))))))))))))))))))))))))))))))))))))))))))))))))))))))))))))))))))))))))))))))))))))))))))))))))))))))))))))))))))))))))))))))))))))))))))))))))))))))))))))))))))))))))))))))))))))))))))))))))))))))))))))))))))))))))))))))))))))))))))))))))))))))))))))))))))))))))))))))))))))))))))))))))))))))))))))))))))))))))))))))))))))))))))))))))))))))))))))))))))))))))))))))))))))))))))))))))))))))))))))))))))))))))))))))))))))))))))))))))))))))))))))))))))))))))))))))))))))))))))))))))))))))))))))))))))))))))))))))))))))))))))))))))))))))))))))))))))))))))))))))))))))))))))))))))))))))))))))))))))))))))))))))))
         z0 []

(** val is_leap : z -> bool **)

let is_leap y =
  (&&) (Z.eqb (Z.modulo y (Zpos (XO (XO XH)))) Z0)
    ((||)
      (negb (Z.eqb (Z.modulo y (Zpos (XO (XO (XI (XO (XO (XI XH)))))))) Z0))
      (Z.eqb (Z.modulo y (Zpos (XO (XO (XO (XO (XI (XO (XO (XI XH))))))))))
        Z0))

(** val days_in_month : z -> z -> z **)

let days_in_month y m =
  if Z.eqb m (Zpos (XO XH))
  then if is_leap y
       then Zpos (XI (XO (XI (XI XH))))
       else Zpos (XO (XO (XI (XI XH))))
  else if (||)
            ((||)
              ((||) (Z.eqb m (Zpos (XO (XO XH))))
                (Z.eqb m (Zpos (XO (XI XH)))))
              (Z.eqb m (Zpos (XI (XO (XO XH))))))
            (Z.eqb m (Zpos (XI (XI (XO XH)))))
       then Zpos (XO (XI (XI (XI XH))))
       else Zpos (XI (XI (XI (XI XH))))

(** val days_before_year : z -> z **)

let days_before_year y =
  let p = Z.sub y (Zpos XH) in
  Z.add
    (Z.sub
      (Z.add (Z.mul (Zpos (XI (XO (XI (XI (XO (XI (XI (XO XH))))))))) p)
        (Z.div p (Zpos (XO (XO XH)))))
      (Z.div p (Zpos (XO (XO (XI (XO (XO (XI XH)))))))))
    (Z.div p (Zpos (XO (XO (XO (XO (XI (XO (XO (XI XH))))))))))

(** val cum_days : z -> z **)

let cum_days m =
  if Z.leb m (Zpos XH)
  then Z0
  else if Z.eqb m (Zpos (XO XH))
       then Zpos (XI (XI (XI (XI XH))))
       else if Z.eqb m (Zpos (XI XH))
            then Zpos (XI (XI (XO (XI (XI XH)))))
            else if Z.eqb m (Zpos (XO (XO XH)))
                 then Zpos (XO (XI (XO (XI (XI (XO XH))))))
                 else if Z.eqb m (Zpos (XI (XO XH)))
                      then Zpos (XO (XO (XO (XI (XI (XI XH))))))
                      else if Z.eqb m (Zpos (XO (XI XH)))
                           then Zpos (XI (XI (XI (XO (XI (XO (XO XH)))))))
                           else if Z.eqb m (Zpos (XI (XI XH)))
                                then Zpos (XI (XO (XI (XO (XI (XI (XO
                                       XH)))))))
                                else if Z.eqb m (Zpos (XO (XO (XO XH))))
                                     then Zpos (XO (XO (XI (XO (XI (XO (XI
                                            XH)))))))
                                     else if Z.eqb m (Zpos (XI (XO (XO XH))))
                                          then Zpos (XI (XI (XO (XO (XI (XI
                                                 (XI XH)))))))
                                          else if Z.eqb m (Zpos (XO (XI (XO
                                                    XH))))
                                               then Zpos (XI (XO (XO (XO (XI
                                                      (XO (XO (XO XH))))))))
                                               else if Z.eqb m (Zpos (XI (XI
                                                         (XO XH))))
                                                    then Zpos (XO (XO (XO (XO
                                                           (XI (XI (XO (XO
                                                           XH))))))))
                                                    else Zpos (XO (XI (XI (XI
                                                           (XO (XO (XI (XO
                                                           XH))))))))

(** val days_before_month : z -> z -> z **)

let days_before_month y m =
  Z.add (cum_days m)
    (if (&&) (Z.ltb (Zpos (XO XH)) m) (is_leap y) then Zpos XH else Z0)

(** val days_of_civil : z -> z -> z -> z **)

let days_of_civil y m d =
  Z.add (Z.add (days_before_year y) (days_before_month y m))
    (Z.sub d (Zpos XH))

(** val valid_date : z -> z -> z -> bool **)

let valid_date y m d =
  (&&)
    ((&&) ((&&) (Z.leb (Zpos XH) m) (Z.leb m (Zpos (XO (XO (XI XH))))))
      (Z.leb (Zpos XH) d)) (Z.leb d (days_in_month y m))

(** val civil_of_doe : z -> z -> (z * z) * z **)

let civil_of_doe era doe =
  let yoe =
    Z.div
      (Z.sub
        (Z.add
          (Z.sub doe
            (Z.div doe (Zpos (XO (XO (XI (XO (XI (XI (XO (XI (XI (XO
              XH)))))))))))))
          (Z.div doe (Zpos (XO (XO (XI (XI (XO (XI (XO (XI (XO (XI (XI (XI
            (XO (XO (XO XH))))))))))))))))))
        (Z.div doe (Zpos (XO (XO (XO (XO (XI (XI (XO (XI (XO (XI (XO (XI (XI
          (XI (XO (XO (XO XH)))))))))))))))))))) (Zpos (XI (XO (XI (XI (XO
      (XI (XI (XO XH)))))))))
  in
  let doy =
    Z.sub doe
      (Z.sub
        (Z.add (Z.mul (Zpos (XI (XO (XI (XI (XO (XI (XI (XO XH))))))))) yoe)
          (Z.div yoe (Zpos (XO (XO XH)))))
        (Z.div yoe (Zpos (XO (XO (XI (XO (XO (XI XH)))))))))
  in
  let mp =
    Z.div (Z.add (Z.mul (Zpos (XI (XO XH))) doy) (Zpos (XO XH))) (Zpos (XI
      (XO (XO (XI (XI (XO (XO XH))))))))
  in
  let d =
    Z.add
      (Z.sub doy
        (Z.div
          (Z.add (Z.mul (Zpos (XI (XO (XO (XI (XI (XO (XO XH)))))))) mp)
            (Zpos (XO XH))) (Zpos (XI (XO XH))))) (Zpos XH)
  in
  let m =
    if Z.ltb mp (Zpos (XO (XI (XO XH))))
    then Z.add mp (Zpos (XI XH))
    else Z.sub mp (Zpos (XI (XO (XO XH))))
  in
  (((Z.add
      (Z.add yoe
        (Z.mul era (Zpos (XO (XO (XO (XO (XI (XO (XO (XI XH)))))))))))
      (if Z.leb m (Zpos (XO XH)) then Zpos XH else Z0)), m), d)

(** val civil_of_days : z -> (z * z) * z **)

let civil_of_days n0 =
  let z0 = Z.add n0 (Zpos (XO (XI (XO (XO (XI (XI (XO (XO XH))))))))) in
  civil_of_doe
    (Z.div z0 (Zpos (XI (XO (XO (XO (XI (XI (XO (XI (XO (XI (XO (XI (XI (XI
      (XO (XO (XO XH)))))))))))))))))))
    (Z.modulo z0 (Zpos (XI (XO (XO (XO (XI (XI (XO (XI (XO (XI (XO (XI (XI
      (XI (XO (XO (XO XH)))))))))))))))))))

(** val us_per_sec : z **)

let us_per_sec =
  Zpos (XO (XO (XO (XO (XO (XO (XI (XO (XO (XI (XO (XO (XO (XO (XI (XO (XI
    (XI (XI XH)))))))))))))))))))

(** val us_per_day : z **)

let us_per_day =
  Zpos (XO (XO (XO (XO (XO (XO (XO (XO (XO (XO (XO (XO (XO (XI (XI (XO (XI
    (XI (XI (XO (XI (XO (XI (XI (XI (XO (XI (XI (XI (XO (XO (XO (XO (XO (XI
    (XO XH))))))))))))))))))))))))))))))))))))

(** val max_instant : z **)

let max_instant =
  Zpos (XO (XO (XO (XO (XO (XO (XO (XO (XO (XO (XO (XO (XO (XI (XO (XO (XI
    (XI (XI (XI (XI (XO (XO (XI (XI (XI (XO (XI (XO (XO (XI (XI (XI (XI (XO
    (XI (XO (XO (XO (XO (XO (XO (XI (XO (XO (XO (XO (XO (XI (XO (XO (XO (XO
    (XI (XI (XO (XO (XO
    XH))))))))))))))))))))))))))))))))))))))))))))))))))))))))))

(** val in_range : z -> bool **)

let in_range t =
  (&&) (Z.leb Z0 t) (Z.ltb t max_instant)

type fields = { f_year : z; f_month : z; f_day : z; f_hour : z; f_min : 
                z; f_sec : z; f_us : z }

(** val fields_of : z -> fields **)

let fields_of t =
  let days = Z.div t us_per_day in
  let r = Z.modulo t us_per_day in
  let (p, d) = civil_of_days days in
  let (y, m) = p in
  let s = Z.div r us_per_sec in
  { f_year = y; f_month = m; f_day = d; f_hour =
  (Z.div s (Zpos (XO (XO (XO (XO (XI (XO (XO (XO (XO (XI (XI XH)))))))))))));
  f_min =
  (Z.modulo (Z.div s (Zpos (XO (XO (XI (XI (XI XH))))))) (Zpos (XO (XO (XI
    (XI (XI XH))))))); f_sec =
  (Z.modulo s (Zpos (XO (XO (XI (XI (XI XH))))))); f_us =
  (Z.modulo r us_per_sec) }

(** val instant_of : z -> z -> z -> z -> z -> z -> z -> z **)

let instant_of y m d hh mm ss us =
  Z.add
    (Z.mul
      (Z.add
        (Z.mul
          (Z.add
            (Z.mul
              (Z.add
                (Z.mul (days_of_civil y m d) (Zpos (XO (XO (XO (XI XH))))))
                hh) (Zpos (XO (XO (XI (XI (XI XH))))))) mm) (Zpos (XO (XO (XI
          (XI (XI XH))))))) ss) us_per_sec) us

(** val valid_fields : z -> z -> z -> z -> z -> z -> z -> bool **)

let valid_fields y m d hh mm ss us =
  (&&)
    ((&&)
      ((&&)
        ((&&)
          ((&&)
            ((&&)
              ((&&)
                ((&&)
                  ((&&)
                    ((&&) (Z.leb (Zpos XH) y)
                      (Z.leb y (Zpos (XI (XI (XI (XI (XO (XO (XO (XO (XI (XI
                        (XI (XO (XO XH)))))))))))))))) (valid_date y m d))
                  (Z.leb Z0 hh)) (Z.ltb hh (Zpos (XO (XO (XO (XI XH)))))))
              (Z.leb Z0 mm)) (Z.ltb mm (Zpos (XO (XO (XI (XI (XI XH))))))))
          (Z.leb Z0 ss)) (Z.ltb ss (Zpos (XO (XO (XI (XI (XI XH))))))))
      (Z.leb Z0 us)) (Z.ltb us us_per_sec)

type precision =
| PAny
| PSecond
| PMilli

type pconstraint =
| CExact
| CMin

type year_mode =
| Unpadded
| Pad4

type naive_mode =
| NaiveKept
| NaiveUtc

type 'a result =
| Ok of 'a
| Raise of char list

(** val dchar : z -> n **)

let dchar d =
  Z.to_N (Z.add (Zpos (XO (XO (XO (XO (XI XH)))))) d)

(** val is_adigit : n -> bool **)

let is_adigit c =
  (&&) (N.leb (Npos (XO (XO (XO (XO (XI XH)))))) c)
    (N.leb c (Npos (XI (XO (XO (XI (XI XH)))))))

(** val adigit_val : n -> z **)

let adigit_val c =
  Z.sub (Z.of_N c) (Zpos (XO (XO (XO (XO (XI XH))))))

(** val digitsn : nat -> z -> z list **)

let rec digitsn n0 v =
  match n0 with
  | O -> []
  | S k ->
    (Z.modulo (Z.div v (Z.pow (Zpos (XO (XI (XO XH)))) (Z.of_nat k))) (Zpos
      (XO (XI (XO XH))))) :: (digitsn k v)

(** val text_of : z list -> ustring **)

let text_of ds =
  map dchar ds

(** val rstrip0 : z list -> z list **)

let rec rstrip0 = function
| [] -> []
| d :: r ->
  (match rstrip0 r with
   | [] -> if Z.eqb d Z0 then [] else d :: []
   | z0 :: l -> d :: (z0 :: l))

(** val ljust3 : z list -> z list **)

let ljust3 ds =
  app ds (repeat Z0 (sub (S (S (S O))) (length ds)))

(** val frac_digits : precision -> pconstraint -> z -> z list **)

let frac_digits p c us =
  match p with
  | PAny ->
    if Z.eqb us Z0 then [] else rstrip0 (digitsn (S (S (S (S (S (S O)))))) us)
  | PSecond ->
    (match c with
     | CExact -> []
     | CMin ->
       if Z.eqb us Z0
       then []
       else rstrip0 (digitsn (S (S (S (S (S (S O)))))) us))
  | PMilli ->
    (match c with
     | CExact -> firstn (S (S (S O))) (digitsn (S (S (S (S (S (S O)))))) us)
     | CMin -> ljust3 (rstrip0 (digitsn (S (S (S (S (S (S O)))))) us)))

(** val year_text : year_mode -> z -> ustring **)

let year_text ym y =
  match ym with
  | Unpadded ->
    if Z.ltb y (Zpos (XO (XI (XO XH))))
    then text_of (digitsn (S O) y)
    else if Z.ltb y (Zpos (XO (XO (XI (XO (XO (XI XH)))))))
         then text_of (digitsn (S (S O)) y)
         else if Z.ltb y (Zpos (XO (XO (XO (XI (XO (XI (XI (XI (XI
                   XH))))))))))
              then text_of (digitsn (S (S (S O))) y)
              else text_of (digitsn (S (S (S (S O)))) y)
  | Pad4 -> text_of (digitsn (S (S (S (S O)))) y)

(** val ch_dash : n **)

let ch_dash =
  Npos (XI (XO (XI (XI (XO XH)))))

(** val ch_colon : n **)

let ch_colon =
  Npos (XO (XI (XO (XI (XI XH)))))

(** val ch_dot : n **)

let ch_dot =
  Npos (XO (XI (XI (XI (XO XH)))))

(** val ch_T : n **)

let ch_T =
  Npos (XO (XO (XI (XO (XI (XO XH))))))

(** val ch_Z : n **)

let ch_Z =
  Npos (XO (XI (XO (XI (XI (XO XH))))))

(** val pad2 : z -> ustring **)

let pad2 v =
  text_of (digitsn (S (S O)) v)

(** val format : year_mode -> precision -> pconstraint -> z -> ustring **)

let format ym p c t =
  let f = fields_of t in
  let frac = frac_digits p c f.f_us in
  app (year_text ym f.f_year)
    (ch_dash :: (app (pad2 f.f_month)
                  (ch_dash :: (app (pad2 f.f_day)
                                (ch_T :: (app (pad2 f.f_hour)
                                           (ch_colon :: (app (pad2 f.f_min)
                                                          (ch_colon :: 
                                                          (app (pad2 f.f_sec)
                                                            (app
                                                              (match frac with
                                                               | [] -> []
                                                               | _ :: _ ->
                                                                 ch_dot :: 
                                                                   (text_of
                                                                    frac))
                                                              (ch_Z :: []))))))))))))

(** val format_dt :
    year_mode -> precision -> pconstraint -> z -> z option -> ustring result **)

let format_dt ym p c local = function
| Some o ->
  let utc = Z.sub local o in
  if in_range utc
  then Ok (format ym p c utc)
  else Raise
         ('O'::('v'::('e'::('r'::('f'::('l'::('o'::('w'::('E'::('r'::('r'::('o'::('r'::[])))))))))))))
| None -> Ok (format ym p c local)

(** val stored_trunc : precision -> pconstraint -> z -> z **)

let stored_trunc p c t =
  match p with
  | PAny -> t
  | PSecond ->
    (match c with
     | CExact ->
       Z.sub t
         (Z.modulo t (Zpos (XO (XO (XO (XO (XO (XO (XI (XO (XO (XI (XO (XO
           (XO (XO (XI (XO (XI (XI (XI XH)))))))))))))))))))))
     | CMin -> t)
  | PMilli ->
    (match c with
     | CExact ->
       Z.add
         (Z.sub t
           (Z.modulo t (Zpos (XO (XO (XO (XO (XO (XO (XI (XO (XO (XI (XO (XO
             (XO (XO (XI (XO (XI (XI (XI XH))))))))))))))))))))))
         (Z.mul
           (Z.div
             (Z.modulo t (Zpos (XO (XO (XO (XO (XO (XO (XI (XO (XO (XI (XO
               (XO (XO (XO (XI (XO (XI (XI (XI XH))))))))))))))))))))) (Zpos
             (XO (XO (XO (XI (XO (XI (XI (XI (XI XH))))))))))) (Zpos (XO (XO
           (XO (XI (XO (XI (XI (XI (XI XH)))))))))))
     | CMin -> t)

(** val nd_zeros : n list **)

let nd_zeros =
  (Npos (XO (XO (XO (XO (XI XH)))))) :: ((Npos (XO (XO (XO (XO (XO (XI (XI
    (XO (XO (XI XH))))))))))) :: ((Npos (XO (XO (XO (XO (XI (XI (XI (XI (XO
    (XI XH))))))))))) :: ((Npos (XO (XO (XO (XO (XO (XO (XI (XI (XI (XI
    XH))))))))))) :: ((Npos (XO (XI (XI (XO (XO (XI (XI (XO (XI (XO (XO
    XH)))))))))))) :: ((Npos (XO (XI (XI (XO (XO (XI (XI (XI (XI (XO (XO
    XH)))))))))))) :: ((Npos (XO (XI (XI (XO (XO (XI (XI (XO (XO (XI (XO
    XH)))))))))))) :: ((Npos (XO (XI (XI (XO (XO (XI (XI (XI (XO (XI (XO
    XH)))))))))))) :: ((Npos (XO (XI (XI (XO (XO (XI (XI (XO (XI (XI (XO
    XH)))))))))))) :: ((Npos (XO (XI (XI (XO (XO (XI (XI (XI (XI (XI (XO
    XH)))))))))))) :: ((Npos (XO (XI (XI (XO (XO (XI (XI (XO (XO (XO (XI
    XH)))))))))))) :: ((Npos (XO (XI (XI (XO (XO (XI (XI (XI (XO (XO (XI
    XH)))))))))))) :: ((Npos (XO (XI (XI (XO (XO (XI (XI (XO (XI (XO (XI
    XH)))))))))))) :: ((Npos (XO (XI (XI (XO (XO (XI (XI (XI (XI (XO (XI
    XH)))))))))))) :: ((Npos (XO (XO (XO (XO (XI (XO (XI (XO (XO (XI (XI
    XH)))))))))))) :: ((Npos (XO (XO (XO (XO (XI (XO (XI (XI (XO (XI (XI
    XH)))))))))))) :: ((Npos (XO (XO (XO (XO (XO (XI (XO (XO (XI (XI (XI
    XH)))))))))))) :: ((Npos (XO (XO (XO (XO (XO (XO (XI (XO (XO (XO (XO (XO
    XH))))))))))))) :: ((Npos (XO (XO (XO (XO (XI (XO (XO (XI (XO (XO (XO (XO
    XH))))))))))))) :: ((Npos (XO (XO (XO (XO (XO (XI (XI (XI (XI (XI (XI (XO
    XH))))))))))))) :: ((Npos (XO (XO (XO (XO (XI (XO (XO (XO (XO (XO (XO (XI
    XH))))))))))))) :: ((Npos (XO (XI (XI (XO (XO (XO (XI (XO (XI (XO (XO (XI
    XH))))))))))))) :: ((Npos (XO (XO (XO (XO (XI (XO (XI (XI (XI (XO (XO (XI
    XH))))))))))))) :: ((Npos (XO (XO (XO (XO (XO (XO (XO (XI (XO (XI (XO (XI
    XH))))))))))))) :: ((Npos (XO (XO (XO (XO (XI (XO (XO (XI (XO (XI (XO (XI
    XH))))))))))))) :: ((Npos (XO (XO (XO (XO (XI (XO (XI (XO (XI (XI (XO (XI
    XH))))))))))))) :: ((Npos (XO (XO (XO (XO (XI (XI (XO (XI (XI (XI (XO (XI
    XH))))))))))))) :: ((Npos (XO (XO (XO (XO (XO (XO (XI (XO (XO (XO (XI (XI
    XH))))))))))))) :: ((Npos (XO (XO (XO (XO (XI (XO (XI (XO (XO (XO (XI (XI
    XH))))))))))))) :: ((Npos (XO (XO (XO (XO (XO (XI (XO (XO (XO (XI (XI (XO
    (XO (XI (XO XH)))))))))))))))) :: ((Npos (XO (XO (XO (XO (XI (XO (XI (XI
    (XO (XO (XO (XI (XO (XI (XO XH)))))))))))))))) :: ((Npos (XO (XO (XO (XO
    (XO (XO (XO (XO (XI (XO (XO (XI (XO (XI (XO XH)))))))))))))))) :: ((Npos
    (XO (XO (XO (XO (XI (XO (XI (XI (XI (XO (XO (XI (XO (XI (XO
    XH)))))))))))))))) :: ((Npos (XO (XO (XO (XO (XI (XI (XI (XI (XI (XO (XO
    (XI (XO (XI (XO XH)))))))))))))))) :: ((Npos (XO (XO (XO (XO (XI (XO (XI
    (XO (XO (XI (XO (XI (XO (XI (XO XH)))))))))))))))) :: ((Npos (XO (XO (XO
    (XO (XI (XI (XI (XI (XI (XI (XO (XI (XO (XI (XO
    XH)))))))))))))))) :: ((Npos (XO (XO (XO (XO (XI (XO (XO (XO (XI (XI (XI
    (XI (XI (XI (XI XH)))))))))))))))) :: ((Npos (XO (XO (XO (XO (XO (XI (XO
    (XI (XO (XO (XI (XO (XO (XO (XO (XO XH))))))))))))))))) :: ((Npos (XO (XO
    (XO (XO (XI (XI (XO (XO (XI (XO (XI (XI (XO (XO (XO (XO
    XH))))))))))))))))) :: ((Npos (XO (XI (XI (XO (XO (XI (XI (XO (XO (XO (XO
    (XO (XI (XO (XO (XO XH))))))))))))))))) :: ((Npos (XO (XO (XO (XO (XI (XI
    (XI (XI (XO (XO (XO (XO (XI (XO (XO (XO XH))))))))))))))))) :: ((Npos (XO
    (XI (XI (XO (XI (XI (XO (XO (XI (XO (XO (XO (XI (XO (XO (XO
    XH))))))))))))))))) :: ((Npos (XO (XO (XO (XO (XI (XO (XI (XI (XI (XO (XO
    (XO (XI (XO (XO (XO XH))))))))))))))))) :: ((Npos (XO (XO (XO (XO (XI (XI
    (XI (XI (XO (XI (XO (XO (XI (XO (XO (XO XH))))))))))))))))) :: ((Npos (XO
    (XO (XO (XO (XI (XO (XI (XO (XO (XO (XI (XO (XI (XO (XO (XO
    XH))))))))))))))))) :: ((Npos (XO (XO (XO (XO (XI (XO (XI (XI (XO (XO (XI
    (XO (XI (XO (XO (XO XH))))))))))))))))) :: ((Npos (XO (XO (XO (XO (XI (XO
    (XI (XO (XO (XI (XI (XO (XI (XO (XO (XO XH))))))))))))))))) :: ((Npos (XO
    (XO (XO (XO (XO (XO (XI (XI (XO (XI (XI (XO (XI (XO (XO (XO
    XH))))))))))))))))) :: ((Npos (XO (XO (XO (XO (XI (XI (XO (XO (XI (XI (XI
    (XO (XI (XO (XO (XO XH))))))))))))))))) :: ((Npos (XO (XO (XO (XO (XO (XI
    (XI (XI (XO (XO (XO (XI (XI (XO (XO (XO XH))))))))))))))))) :: ((Npos (XO
    (XO (XO (XO (XI (XO (XI (XO (XI (XO (XO (XI (XI (XO (XO (XO
    XH))))))))))))))))) :: ((Npos (XO (XO (XO (XO (XI (XO (XI (XO (XO (XO (XI
    (XI (XI (XO (XO (XO XH))))))))))))))))) :: ((Npos (XO (XO (XO (XO (XI (XO
    (XI (XO (XI (XO (XI (XI (XI (XO (XO (XO XH))))))))))))))))) :: ((Npos (XO
    (XO (XO (XO (XO (XI (XO (XI (XI (XO (XI (XI (XI (XO (XO (XO
    XH))))))))))))))))) :: ((Npos (XO (XO (XO (XO (XI (XO (XI (XO (XI (XI (XI
    (XI (XI (XO (XO (XO XH))))))))))))))))) :: ((Npos (XO (XO (XO (XO (XO (XI
    (XI (XO (XO (XI (XO (XI (XO (XI (XI (XO XH))))))))))))))))) :: ((Npos (XO
    (XO (XO (XO (XO (XO (XI (XI (XO (XI (XO (XI (XO (XI (XI (XO
    XH))))))))))))))))) :: ((Npos (XO (XO (XO (XO (XI (XO (XI (XO (XI (XI (XO
    (XI (XO (XI (XI (XO XH))))))))))))))))) :: ((Npos (XO (XI (XI (XI (XO (XO
    (XI (XI (XI (XI (XI (XO (XI (XO (XI (XI XH))))))))))))))))) :: ((Npos (XO
    (XO (XO (XI (XI (XO (XI (XI (XI (XI (XI (XO (XI (XO (XI (XI
    XH))))))))))))))))) :: ((Npos (XO (XI (XO (XO (XO (XI (XI (XI (XI (XI (XI
    (XO (XI (XO (XI (XI XH))))))))))))))))) :: ((Npos (XO (XO (XI (XI (XO (XI
    (XI (XI (XI (XI (XI (XO (XI (XO (XI (XI XH))))))))))))))))) :: ((Npos (XO
    (XI (XI (XO (XI (XI (XI (XI (XI (XI (XI (XO (XI (XO (XI (XI
    XH))))))))))))))))) :: ((Npos (XO (XO (XO (XO (XO (XO (XI (XO (XI (XO (XO
    (XO (XO (XI (XI (XI XH))))))))))))))))) :: ((Npos (XO (XO (XO (XO (XI (XI
    (XI (XI (XO (XI (XO (XO (XO (XI (XI (XI XH))))))))))))))))) :: ((Npos (XO
    (XO (XO (XO (XI (XI (XI (XI (XO (XO (XI (XO (XO (XI (XI (XI
    XH))))))))))))))))) :: ((Npos (XO (XO (XO (XO (XI (XO (XI (XO (XI (XO (XO
    (XI (XO (XI (XI (XI XH))))))))))))))))) :: ((Npos (XO (XO (XO (XO (XI (XI
    (XI (XI (XI (XI (XO (XI (XI (XI (XI (XI
    XH))))))))))))))))) :: [])))))))))))))))))))))))))))))))))))))))))))))))))))))))))))))))))))

(** val udigit_in : n list -> n -> z option **)

let rec udigit_in zs c =
  match zs with
  | [] -> None
  | z0 :: r ->
    if (&&) (N.leb z0 c) (N.ltb c (N.add z0 (Npos (XO (XI (XO XH))))))
    then Some (Z.of_N (N.sub c z0))
    else udigit_in r c

(** val udigit : n -> z option **)

let udigit c =
  udigit_in nd_zeros c

(** val in_cls : n -> n -> n -> z option **)

let in_cls lo hi c =
  if (&&) (N.leb lo c) (N.leb c hi) then Some (adigit_val c) else None

type 'a kont = z -> ustring -> 'a option

(** val one0 : (n -> z option) -> 'a1 kont -> ustring -> 'a1 option **)

let one0 cls k = function
| [] -> None
| c :: r -> (match cls c with
             | Some v -> k v r
             | None -> None)

(** val two :
    (n -> z option) -> (n -> z option) -> 'a1 kont -> ustring -> 'a1 option **)

let two cls1 cls2 k s =
  one0 cls1 (fun a r ->
    one0 cls2 (fun b r' -> k (Z.add (Z.mul a (Zpos (XO (XI (XO XH))))) b) r')
      r) s

(** val orelse :
    (ustring -> 'a1 option) -> (ustring -> 'a1 option) -> ustring -> 'a1
    option **)

let orelse a b s =
  match a s with
  | Some x -> Some x
  | None -> b s

(** val space_then : (n -> z option) -> 'a1 kont -> ustring -> 'a1 option **)

let space_then cls k = function
| [] -> None
| n0 :: r ->
  (match n0 with
   | N0 -> None
   | Npos p ->
     (match p with
      | XO p0 ->
        (match p0 with
         | XO p1 ->
           (match p1 with
            | XO p2 ->
              (match p2 with
               | XO p3 ->
                 (match p3 with
                  | XO p4 -> (match p4 with
                              | XH -> one0 cls k r
                              | _ -> None)
                  | _ -> None)
               | _ -> None)
            | _ -> None)
         | _ -> None)
      | _ -> None))

(** val lit : n -> n -> (ustring -> 'a1 option) -> ustring -> 'a1 option **)

let lit c c' k = function
| [] -> None
| x :: r -> if (||) (N.eqb x c) (N.eqb x c') then k r else None

(** val re_Y : 'a1 kont -> ustring -> 'a1 option **)

let re_Y k =
  one0 udigit (fun a ->
    one0 udigit (fun b ->
      one0 udigit (fun c ->
        one0 udigit (fun d ->
          k
            (Z.add
              (Z.mul
                (Z.add
                  (Z.mul (Z.add (Z.mul a (Zpos (XO (XI (XO XH))))) b) (Zpos
                    (XO (XI (XO XH))))) c) (Zpos (XO (XI (XO XH))))) d)))))

(** val re_m : 'a1 kont -> ustring -> 'a1 option **)

let re_m k =
  orelse
    (two
      (in_cls (Npos (XI (XO (XO (XO (XI XH)))))) (Npos (XI (XO (XO (XO (XI
        XH)))))))
      (in_cls (Npos (XO (XO (XO (XO (XI XH)))))) (Npos (XO (XI (XO (XO (XI
        XH))))))) k)
    (orelse
      (two
        (in_cls (Npos (XO (XO (XO (XO (XI XH)))))) (Npos (XO (XO (XO (XO (XI
          XH)))))))
        (in_cls (Npos (XI (XO (XO (XO (XI XH)))))) (Npos (XI (XO (XO (XI (XI
          XH))))))) k)
      (one0
        (in_cls (Npos (XI (XO (XO (XO (XI XH)))))) (Npos (XI (XO (XO (XI (XI
          XH))))))) k))

(** val re_d : 'a1 kont -> ustring -> 'a1 option **)

let re_d k =
  orelse
    (two
      (in_cls (Npos (XI (XI (XO (XO (XI XH)))))) (Npos (XI (XI (XO (XO (XI
        XH)))))))
      (in_cls (Npos (XO (XO (XO (XO (XI XH)))))) (Npos (XI (XO (XO (XO (XI
        XH))))))) k)
    (orelse
      (two
        (in_cls (Npos (XI (XO (XO (XO (XI XH)))))) (Npos (XO (XI (XO (XO (XI
          XH))))))) udigit k)
      (orelse
        (two
          (in_cls (Npos (XO (XO (XO (XO (XI XH)))))) (Npos (XO (XO (XO (XO
            (XI XH)))))))
          (in_cls (Npos (XI (XO (XO (XO (XI XH)))))) (Npos (XI (XO (XO (XI
            (XI XH))))))) k)
        (orelse
          (one0
            (in_cls (Npos (XI (XO (XO (XO (XI XH)))))) (Npos (XI (XO (XO (XI
              (XI XH))))))) k)
          (space_then
            (in_cls (Npos (XI (XO (XO (XO (XI XH)))))) (Npos (XI (XO (XO (XI
              (XI XH))))))) k))))

(** val re_H : 'a1 kont -> ustring -> 'a1 option **)

let re_H k =
  orelse
    (two
      (in_cls (Npos (XO (XI (XO (XO (XI XH)))))) (Npos (XO (XI (XO (XO (XI
        XH)))))))
      (in_cls (Npos (XO (XO (XO (XO (XI XH)))))) (Npos (XI (XI (XO (XO (XI
        XH))))))) k)
    (orelse
      (two
        (in_cls (Npos (XO (XO (XO (XO (XI XH)))))) (Npos (XI (XO (XO (XO (XI
          XH))))))) udigit k) (one0 udigit k))

(** val re_M : 'a1 kont -> ustring -> 'a1 option **)

let re_M k =
  orelse
    (two
      (in_cls (Npos (XO (XO (XO (XO (XI XH)))))) (Npos (XI (XO (XI (XO (XI
        XH))))))) udigit k) (one0 udigit k)

(** val re_S : 'a1 kont -> ustring -> 'a1 option **)

let re_S k =
  orelse
    (two
      (in_cls (Npos (XO (XI (XI (XO (XI XH)))))) (Npos (XO (XI (XI (XO (XI
        XH)))))))
      (in_cls (Npos (XO (XO (XO (XO (XI XH)))))) (Npos (XI (XO (XO (XO (XI
        XH))))))) k)
    (orelse
      (two
        (in_cls (Npos (XO (XO (XO (XO (XI XH)))))) (Npos (XI (XO (XI (XO (XI
          XH))))))) udigit k) (one0 udigit k))

(** val take_adigits : nat -> ustring -> z -> (z * ustring) option **)

let rec take_adigits n0 s acc =
  match n0 with
  | O -> Some (acc, s)
  | S k ->
    (match s with
     | [] -> None
     | c :: r ->
       if is_adigit c
       then take_adigits k r
              (Z.add (Z.mul acc (Zpos (XO (XI (XO XH))))) (adigit_val c))
       else None)

(** val re_f : nat -> 'a1 kont -> ustring -> 'a1 option **)

let rec re_f n0 k s =
  match n0 with
  | O -> None
  | S m ->
    (match take_adigits n0 s Z0 with
     | Some p ->
       let (v, r) = p in
       (match k
                (Z.mul v
                  (Z.pow (Zpos (XO (XI (XO XH))))
                    (Z.of_nat (sub (S (S (S (S (S (S O)))))) n0)))) r with
        | Some x -> Some x
        | None -> re_f m k s)
     | None -> re_f m k s)

type ptuple = ((((((z * z) * z) * z) * z) * z) * z) * ustring

(** val regex_match : bool -> ustring -> ptuple option **)

let regex_match frac s =
  re_Y (fun y ->
    lit (Npos (XI (XO (XI (XI (XO XH)))))) (Npos (XI (XO (XI (XI (XO XH))))))
      (re_m (fun m ->
        lit (Npos (XI (XO (XI (XI (XO XH)))))) (Npos (XI (XO (XI (XI (XO
          XH))))))
          (re_d (fun d ->
            lit (Npos (XO (XO (XI (XO (XI (XO XH))))))) (Npos (XO (XO (XI (XO
              (XI (XI XH)))))))
              (re_H (fun hh ->
                lit (Npos (XO (XI (XO (XI (XI XH)))))) (Npos (XO (XI (XO (XI
                  (XI XH))))))
                  (re_M (fun mm ->
                    lit (Npos (XO (XI (XO (XI (XI XH)))))) (Npos (XO (XI (XO
                      (XI (XI XH))))))
                      (re_S (fun ss ->
                        if frac
                        then lit (Npos (XO (XI (XI (XI (XO XH)))))) (Npos (XO
                               (XI (XI (XI (XO XH))))))
                               (re_f (S (S (S (S (S (S O)))))) (fun us ->
                                 lit (Npos (XO (XI (XO (XI (XI (XO XH)))))))
                                   (Npos (XO (XI (XO (XI (XI (XI XH)))))))
                                   (fun r -> Some (((((((y, m), d), hh), mm),
                                   ss), us), r))))
                        else lit (Npos (XO (XI (XO (XI (XI (XO XH)))))))
                               (Npos (XO (XI (XO (XI (XI (XI XH)))))))
                               (fun r -> Some (((((((y, m), d), hh), mm),
                               ss), Z0), r))))))))))))) s

(** val has_dot : ustring -> bool **)

let has_dot s =
  existsb (fun c -> N.eqb c (Npos (XO (XI (XI (XI (XO XH))))))) s

(** val parse_strptime : ustring -> z option **)

let parse_strptime s =
  match regex_match (has_dot s) s with
  | Some p ->
    let (p0, u) = p in
    let (p1, us) = p0 in
    let (p2, ss) = p1 in
    let (p3, mm) = p2 in
    let (p4, hh) = p3 in
    let (p5, d) = p4 in
    let (y, m) = p5 in
    (match u with
     | [] ->
       if valid_fields y m d hh mm ss us
       then Some (instant_of y m d hh mm ss us)
       else None
     | _ :: _ -> None)
  | None -> None

type tsinput =
| InDatetime of z * z option
| InDate of z * z * z
| InStr of ustring

(** val parse_into :
    naive_mode -> precision -> pconstraint -> tsinput -> (z * z option) result **)

let parse_into nm p c = function
| InDatetime (l, o) ->
  Ok ((stored_trunc p c l),
    (match o with
     | Some _ -> o
     | None -> (match nm with
                | NaiveKept -> o
                | NaiveUtc -> Some Z0)))
| InDate (y, m, d) ->
  Ok ((stored_trunc p c (instant_of y m d Z0 Z0 Z0 Z0)), (Some Z0))
| InStr s ->
  (match parse_strptime s with
   | Some t -> Ok ((stored_trunc p c t), (Some Z0))
   | None ->
     Raise
       ('V'::('a'::('l'::('u'::('e'::('E'::('r'::('r'::('o'::('r'::[])))))))))))

(** val reparse :
    naive_mode -> precision -> pconstraint -> tsinput -> tsinput **)

let reparse nm p c v =
  match parse_into nm p c v with
  | Ok a -> let (l, o) = a in InDatetime (l, o)
  | Raise _ -> v

(** val write_as :
    naive_mode -> year_mode -> precision -> pconstraint -> precision ->
    pconstraint -> tsinput -> ustring result **)

let write_as nm ym p c p' c' v =
  match parse_into nm p c v with
  | Ok a -> let (l, o) = a in format_dt ym p' c' l o
  | Raise e -> Raise e

(** val show_optZ : z option -> char list **)

let show_optZ = function
| Some z0 -> show_Z z0
| None -> 'n'::('a'::('i'::('v'::('e'::[]))))

(** val show_text : ustring result -> char list **)

let show_text = function
| Ok s -> append ('O'::('K'::(' '::[]))) (show_ustr s)
| Raise e -> append ('E'::('X'::('C'::(' '::[])))) e

(** val show_parsed :
    naive_mode -> year_mode -> precision -> pconstraint -> tsinput ->
    char list **)

let show_parsed nm ym p c v =
  match parse_into nm p c v with
  | Ok a ->
    let (l, o) = a in
    append ('O'::('K'::(' '::[])))
      (append (show_Z l)
        (append (' '::[])
          (append (show_optZ o)
            (append (' '::[])
              (match format_dt ym p c l o with
               | Ok s -> show_ustr s
               | Raise e -> append ('E'::('X'::('C'::(' '::[])))) e)))))
  | Raise e -> append ('E'::('X'::('C'::(' '::[])))) e

(** val dt : z -> z -> z -> z -> z -> z -> z -> z **)

let dt =
  instant_of

(** val c15_case :
    nat -> naive_mode -> year_mode -> precision -> pconstraint -> bool ->
    (precision * pconstraint) option -> tsinput -> char list **)

let c15_case k nm ym p c lose src v =
  let v' =
    match src with
    | Some p0 -> let (sp, sc) = p0 in reparse nm sp sc v
    | None -> v
  in
  let p' = if lose then PAny else p in
  let c' = if lose then CExact else c in
  (match k with
   | O ->
     (match v' with
      | InDatetime (l, o) -> show_text (format_dt ym p' c' l o)
      | _ -> 'B'::('A'::('D'::('C'::('A'::('S'::('E'::[])))))))
   | S n0 ->
     (match n0 with
      | O -> show_parsed nm ym p c v'
      | S _ -> show_text (write_as nm ym p c p' c' v')))

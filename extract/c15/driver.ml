(* driver for the extracted C15 model: one case per line on stdin
     <k:0|1|2> <nm:K|U> <ym:U|P> <p:a|s|m> <c:e|m> <lose:L|-> <src:-|pc> dt y m d hh mm ss us <off|N>
     ...                                                      date y m d
     ...                                                      str <code points, comma separated, or ->
   one result line per case, same text as the vm_compute route *)
open C15model

let rec pos_of_int (i : int) : positive =
  if i = 1 then XH else if i land 1 = 0 then XO (pos_of_int (i lsr 1)) else XI (pos_of_int (i lsr 1))
let n_of_int (i : int) : n = if i = 0 then N0 else Npos (pos_of_int i)
let z_of_int (i : int) : z = if i = 0 then Z0 else if i > 0 then Zpos (pos_of_int i) else Zneg (pos_of_int (- i))
let zs s = z_of_int (int_of_string s)

let prec = function "a" -> PAny | "s" -> PSecond | "m" -> PMilli | _ -> failwith "precision"
let cons = function "e" -> CExact | "m" -> CMin | _ -> failwith "constraint"
let rec nat_of_int i = if i = 0 then O else S (nat_of_int (i - 1))
let string_of_chars (l : char list) : string =
  let b = Buffer.create 64 in List.iter (Buffer.add_char b) l; Buffer.contents b

let input_of = function
  | ["dt"; y; m; d; hh; mm; ss; us; off] ->
    InDatetime (dt (zs y) (zs m) (zs d) (zs hh) (zs mm) (zs ss) (zs us), (if off = "N" then None else Some (zs off)))
  | ["date"; y; m; d] -> InDate (zs y, zs m, zs d)
  | ["str"; cps] ->
    InStr (if cps = "-" then [] else List.map (fun x -> n_of_int (int_of_string x)) (String.split_on_char ',' cps))
  | _ -> failwith "input"

let () =
  try
    while true do
      let line = input_line stdin in
      (try
         match String.split_on_char ' ' line with
         | k :: nm :: ym :: p :: c :: lose :: src :: rest ->
           let src' = if src = "-" then None
             else Some (prec (String.sub src 0 1), cons (String.sub src 1 1)) in
           let r = c15_case (nat_of_int (int_of_string k)) (if nm = "K" then NaiveKept else NaiveUtc)
               (if ym = "U" then Unpadded else Pad4) (prec p) (cons c) (lose = "L") src' (input_of rest) in
           print_endline (string_of_chars r)
         | _ -> print_endline "BADLINE"
       with Failure m -> print_endline ("BADLINE " ^ m))
    done
  with End_of_file -> ()


type nat =
| O
| S of nat

(** val option_map : ('a1 -> 'a2) -> 'a1 option -> 'a2 option **)

let option_map f = function
| Some a -> Some (f a)
| None -> None

(** val fst : ('a1 * 'a2) -> 'a1 **)

let fst = function
| (x, _) -> x

(** val snd : ('a1 * 'a2) -> 'a2 **)

let snd = function
| (_, y) -> y

(** val length : 'a1 list -> nat **)

let rec length = function
| [] -> O
| _ :: l' -> S (length l')

(** val app : 'a1 list -> 'a1 list -> 'a1 list **)

let rec app l m =
  match l with
  | [] -> m
  | a :: l1 -> a :: (app l1 m)

type comparison =
| Eq
| Lt
| Gt

(** val compOpp : comparison -> comparison **)

let compOpp = function
| Eq -> Eq
| Lt -> Gt
| Gt -> Lt

type uint =
| Nil
| D0 of uint
| D1 of uint
| D2 of uint
| D3 of uint
| D4 of uint
| D5 of uint
| D6 of uint
| D7 of uint
| D8 of uint
| D9 of uint

(** val revapp : uint -> uint -> uint **)

let rec revapp d d' =
  match d with
  | Nil -> d'
  | D0 d0 -> revapp d0 (D0 d')
  | D1 d0 -> revapp d0 (D1 d')
  | D2 d0 -> revapp d0 (D2 d')
  | D3 d0 -> revapp d0 (D3 d')
  | D4 d0 -> revapp d0 (D4 d')
  | D5 d0 -> revapp d0 (D5 d')
  | D6 d0 -> revapp d0 (D6 d')
  | D7 d0 -> revapp d0 (D7 d')
  | D8 d0 -> revapp d0 (D8 d')
  | D9 d0 -> revapp d0 (D9 d')

(** val rev : uint -> uint **)

let rev d =
  revapp d Nil

module Little =
 struct
  (** val double : uint -> uint **)

  let rec double = function
  | Nil -> Nil
  | D0 d0 -> D0 (double d0)
  | D1 d0 -> D2 (double d0)
  | D2 d0 -> D4 (double d0)
  | D3 d0 -> D6 (double d0)
  | D4 d0 -> D8 (double d0)
  | D5 d0 -> D0 (succ_double d0)
  | D6 d0 -> D2 (succ_double d0)
  | D7 d0 -> D4 (succ_double d0)
  | D8 d0 -> D6 (succ_double d0)
  | D9 d0 -> D8 (succ_double d0)

  (** val succ_double : uint -> uint **)

  and succ_double = function
  | Nil -> D1 Nil
  | D0 d0 -> D1 (double d0)
  | D1 d0 -> D3 (double d0)
  | D2 d0 -> D5 (double d0)
  | D3 d0 -> D7 (double d0)
  | D4 d0 -> D9 (double d0)
  | D5 d0 -> D1 (succ_double d0)
  | D6 d0 -> D3 (succ_double d0)
  | D7 d0 -> D5 (succ_double d0)
  | D8 d0 -> D7 (succ_double d0)
  | D9 d0 -> D9 (succ_double d0)
 end

module Coq__1 = struct
 (** val add : nat -> nat -> nat **)
 let rec add n0 m =
   match n0 with
   | O -> m
   | S p -> S (add p m)
end
include Coq__1

type positive =
| XI of positive
| XO of positive
| XH

type n =
| N0
| Npos of positive

type z =
| Z0
| Zpos of positive
| Zneg of positive

module Pos =
 struct
  type mask =
  | IsNul
  | IsPos of positive
  | IsNeg
 end

module Coq_Pos =
 struct
  (** val succ : positive -> positive **)

  let rec succ = function
  | XI p -> XO (succ p)
  | XO p -> XI p
  | XH -> XO XH

  (** val add : positive -> positive -> positive **)

  let rec add x y =
    match x with
    | XI p ->
      (match y with
       | XI q -> XO (add_carry p q)
       | XO q -> XI (add p q)
       | XH -> XO (succ p))
    | XO p ->
      (match y with
       | XI q -> XI (add p q)
       | XO q -> XO (add p q)
       | XH -> XI p)
    | XH -> (match y with
             | XI q -> XO (succ q)
             | XO q -> XI q
             | XH -> XO XH)

  (** val add_carry : positive -> positive -> positive **)

  and add_carry x y =
    match x with
    | XI p ->
      (match y with
       | XI q -> XI (add_carry p q)
       | XO q -> XO (add_carry p q)
       | XH -> XI (succ p))
    | XO p ->
      (match y with
       | XI q -> XO (add_carry p q)
       | XO q -> XI (add p q)
       | XH -> XO (succ p))
    | XH ->
      (match y with
       | XI q -> XI (succ q)
       | XO q -> XO (succ q)
       | XH -> XI XH)

  (** val pred_double : positive -> positive **)

  let rec pred_double = function
  | XI p -> XI (XO p)
  | XO p -> XI (pred_double p)
  | XH -> XH

  type mask = Pos.mask =
  | IsNul
  | IsPos of positive
  | IsNeg

  (** val succ_double_mask : mask -> mask **)

  let succ_double_mask = function
  | IsNul -> IsPos XH
  | IsPos p -> IsPos (XI p)
  | IsNeg -> IsNeg

  (** val double_mask : mask -> mask **)

  let double_mask = function
  | IsPos p -> IsPos (XO p)
  | x0 -> x0

  (** val double_pred_mask : positive -> mask **)

  let double_pred_mask = function
  | XI p -> IsPos (XO (XO p))
  | XO p -> IsPos (XO (pred_double p))
  | XH -> IsNul

  (** val sub_mask : positive -> positive -> mask **)

  let rec sub_mask x y =
    match x with
    | XI p ->
      (match y with
       | XI q -> double_mask (sub_mask p q)
       | XO q -> succ_double_mask (sub_mask p q)
       | XH -> IsPos (XO p))
    | XO p ->
      (match y with
       | XI q -> succ_double_mask (sub_mask_carry p q)
       | XO q -> double_mask (sub_mask p q)
       | XH -> IsPos (pred_double p))
    | XH -> (match y with
             | XH -> IsNul
             | _ -> IsNeg)

  (** val sub_mask_carry : positive -> positive -> mask **)

  and sub_mask_carry x y =
    match x with
    | XI p ->
      (match y with
       | XI q -> succ_double_mask (sub_mask_carry p q)
       | XO q -> double_mask (sub_mask p q)
       | XH -> IsPos (pred_double p))
    | XO p ->
      (match y with
       | XI q -> double_mask (sub_mask_carry p q)
       | XO q -> succ_double_mask (sub_mask_carry p q)
       | XH -> double_pred_mask p)
    | XH -> IsNeg

  (** val mul : positive -> positive -> positive **)

  let rec mul x y =
    match x with
    | XI p -> add y (XO (mul p y))
    | XO p -> XO (mul p y)
    | XH -> y

  (** val compare_cont : comparison -> positive -> positive -> comparison **)

  let rec compare_cont r x y =
    match x with
    | XI p ->
      (match y with
       | XI q -> compare_cont r p q
       | XO q -> compare_cont Gt p q
       | XH -> Gt)
    | XO p ->
      (match y with
       | XI q -> compare_cont Lt p q
       | XO q -> compare_cont r p q
       | XH -> Gt)
    | XH -> (match y with
             | XH -> r
             | _ -> Lt)

  (** val compare : positive -> positive -> comparison **)

  let compare =
    compare_cont Eq

  (** val eqb : positive -> positive -> bool **)

  let rec eqb p q =
    match p with
    | XI p0 -> (match q with
                | XI q0 -> eqb p0 q0
                | _ -> false)
    | XO p0 -> (match q with
                | XO q0 -> eqb p0 q0
                | _ -> false)
    | XH -> (match q with
             | XH -> true
             | _ -> false)

  (** val iter_op : ('a1 -> 'a1 -> 'a1) -> positive -> 'a1 -> 'a1 **)

  let rec iter_op op p a =
    match p with
    | XI p0 -> op a (iter_op op p0 (op a a))
    | XO p0 -> iter_op op p0 (op a a)
    | XH -> a

  (** val to_nat : positive -> nat **)

  let to_nat x =
    iter_op Coq__1.add x (S O)

  (** val of_succ_nat : nat -> positive **)

  let rec of_succ_nat = function
  | O -> XH
  | S x -> succ (of_succ_nat x)

  (** val of_uint_acc : uint -> positive -> positive **)

  let rec of_uint_acc d acc =
    match d with
    | Nil -> acc
    | D0 l -> of_uint_acc l (mul (XO (XI (XO XH))) acc)
    | D1 l -> of_uint_acc l (add XH (mul (XO (XI (XO XH))) acc))
    | D2 l -> of_uint_acc l (add (XO XH) (mul (XO (XI (XO XH))) acc))
    | D3 l -> of_uint_acc l (add (XI XH) (mul (XO (XI (XO XH))) acc))
    | D4 l -> of_uint_acc l (add (XO (XO XH)) (mul (XO (XI (XO XH))) acc))
    | D5 l -> of_uint_acc l (add (XI (XO XH)) (mul (XO (XI (XO XH))) acc))
    | D6 l -> of_uint_acc l (add (XO (XI XH)) (mul (XO (XI (XO XH))) acc))
    | D7 l -> of_uint_acc l (add (XI (XI XH)) (mul (XO (XI (XO XH))) acc))
    | D8 l ->
      of_uint_acc l (add (XO (XO (XO XH))) (mul (XO (XI (XO XH))) acc))
    | D9 l ->
      of_uint_acc l (add (XI (XO (XO XH))) (mul (XO (XI (XO XH))) acc))

  (** val of_uint : uint -> n **)

  let rec of_uint = function
  | Nil -> N0
  | D0 l -> of_uint l
  | D1 l -> Npos (of_uint_acc l XH)
  | D2 l -> Npos (of_uint_acc l (XO XH))
  | D3 l -> Npos (of_uint_acc l (XI XH))
  | D4 l -> Npos (of_uint_acc l (XO (XO XH)))
  | D5 l -> Npos (of_uint_acc l (XI (XO XH)))
  | D6 l -> Npos (of_uint_acc l (XO (XI XH)))
  | D7 l -> Npos (of_uint_acc l (XI (XI XH)))
  | D8 l -> Npos (of_uint_acc l (XO (XO (XO XH))))
  | D9 l -> Npos (of_uint_acc l (XI (XO (XO XH))))

  (** val to_little_uint : positive -> uint **)

  let rec to_little_uint = function
  | XI p0 -> Little.succ_double (to_little_uint p0)
  | XO p0 -> Little.double (to_little_uint p0)
  | XH -> D1 Nil

  (** val to_uint : positive -> uint **)

  let to_uint p =
    rev (to_little_uint p)
 end

module N =
 struct
  (** val succ_double : n -> n **)

  let succ_double = function
  | N0 -> Npos XH
  | Npos p -> Npos (XI p)

  (** val double : n -> n **)

  let double = function
  | N0 -> N0
  | Npos p -> Npos (XO p)

  (** val add : n -> n -> n **)

  let add n0 m =
    match n0 with
    | N0 -> m
    | Npos p -> (match m with
                 | N0 -> n0
                 | Npos q -> Npos (Coq_Pos.add p q))

  (** val sub : n -> n -> n **)

  let sub n0 m =
    match n0 with
    | N0 -> N0
    | Npos n' ->
      (match m with
       | N0 -> n0
       | Npos m' ->
         (match Coq_Pos.sub_mask n' m' with
          | Coq_Pos.IsPos p -> Npos p
          | _ -> N0))

  (** val compare : n -> n -> comparison **)

  let compare n0 m =
    match n0 with
    | N0 -> (match m with
             | N0 -> Eq
             | Npos _ -> Lt)
    | Npos n' -> (match m with
                  | N0 -> Gt
                  | Npos m' -> Coq_Pos.compare n' m')

  (** val eqb : n -> n -> bool **)

  let eqb n0 m =
    match n0 with
    | N0 -> (match m with
             | N0 -> true
             | Npos _ -> false)
    | Npos p -> (match m with
                 | N0 -> false
                 | Npos q -> Coq_Pos.eqb p q)

  (** val leb : n -> n -> bool **)

  let leb x y =
    match compare x y with
    | Gt -> false
    | _ -> true

  (** val ltb : n -> n -> bool **)

  let ltb x y =
    match compare x y with
    | Lt -> true
    | _ -> false

  (** val pos_div_eucl : positive -> n -> n * n **)

  let rec pos_div_eucl a b =
    match a with
    | XI a' ->
      let (q, r) = pos_div_eucl a' b in
      let r' = succ_double r in
      if leb b r' then ((succ_double q), (sub r' b)) else ((double q), r')
    | XO a' ->
      let (q, r) = pos_div_eucl a' b in
      let r' = double r in
      if leb b r' then ((succ_double q), (sub r' b)) else ((double q), r')
    | XH ->
      (match b with
       | N0 -> (N0, (Npos XH))
       | Npos p -> (match p with
                    | XH -> ((Npos XH), N0)
                    | _ -> (N0, (Npos XH))))

  (** val div_eucl : n -> n -> n * n **)

  let div_eucl a b =
    match a with
    | N0 -> (N0, N0)
    | Npos na -> (match b with
                  | N0 -> (N0, a)
                  | Npos _ -> pos_div_eucl na b)

  (** val div : n -> n -> n **)

  let div a b =
    fst (div_eucl a b)

  (** val modulo : n -> n -> n **)

  let modulo a b =
    snd (div_eucl a b)

  (** val of_uint : uint -> n **)

  let of_uint =
    Coq_Pos.of_uint

  (** val to_uint : n -> uint **)

  let to_uint = function
  | N0 -> D0 Nil
  | Npos p -> Coq_Pos.to_uint p
 end

(** val map : ('a1 -> 'a2) -> 'a1 list -> 'a2 list **)

let rec map f = function
| [] -> []
| a :: t -> (f a) :: (map f t)

(** val flat_map : ('a1 -> 'a2 list) -> 'a1 list -> 'a2 list **)

let rec flat_map f = function
| [] -> []
| x :: t -> app (f x) (flat_map f t)

(** val firstn : nat -> 'a1 list -> 'a1 list **)

let rec firstn n0 l =
  match n0 with
  | O -> []
  | S n1 -> (match l with
             | [] -> []
             | a :: l0 -> a :: (firstn n1 l0))

(** val skipn : nat -> 'a1 list -> 'a1 list **)

let rec skipn n0 l =
  match n0 with
  | O -> l
  | S n1 -> (match l with
             | [] -> []
             | _ :: l0 -> skipn n1 l0)

(** val repeat : 'a1 -> nat -> 'a1 list **)

let rec repeat x = function
| O -> []
| S k -> x :: (repeat x k)

module Z =
 struct
  (** val double : z -> z **)

  let double = function
  | Z0 -> Z0
  | Zpos p -> Zpos (XO p)
  | Zneg p -> Zneg (XO p)

  (** val succ_double : z -> z **)

  let succ_double = function
  | Z0 -> Zpos XH
  | Zpos p -> Zpos (XI p)
  | Zneg p -> Zneg (Coq_Pos.pred_double p)

  (** val pred_double : z -> z **)

  let pred_double = function
  | Z0 -> Zneg XH
  | Zpos p -> Zpos (Coq_Pos.pred_double p)
  | Zneg p -> Zneg (XI p)

  (** val pos_sub : positive -> positive -> z **)

  let rec pos_sub x y =
    match x with
    | XI p ->
      (match y with
       | XI q -> double (pos_sub p q)
       | XO q -> succ_double (pos_sub p q)
       | XH -> Zpos (XO p))
    | XO p ->
      (match y with
       | XI q -> pred_double (pos_sub p q)
       | XO q -> double (pos_sub p q)
       | XH -> Zpos (Coq_Pos.pred_double p))
    | XH ->
      (match y with
       | XI q -> Zneg (XO q)
       | XO q -> Zneg (Coq_Pos.pred_double q)
       | XH -> Z0)

  (** val add : z -> z -> z **)

  let add x y =
    match x with
    | Z0 -> y
    | Zpos x' ->
      (match y with
       | Z0 -> x
       | Zpos y' -> Zpos (Coq_Pos.add x' y')
       | Zneg y' -> pos_sub x' y')
    | Zneg x' ->
      (match y with
       | Z0 -> x
       | Zpos y' -> pos_sub y' x'
       | Zneg y' -> Zneg (Coq_Pos.add x' y'))

  (** val opp : z -> z **)

  let opp = function
  | Z0 -> Z0
  | Zpos x0 -> Zneg x0
  | Zneg x0 -> Zpos x0

  (** val sub : z -> z -> z **)

  let sub m n0 =
    add m (opp n0)

  (** val compare : z -> z -> comparison **)

  let compare x y =
    match x with
    | Z0 -> (match y with
             | Z0 -> Eq
             | Zpos _ -> Lt
             | Zneg _ -> Gt)
    | Zpos x' -> (match y with
                  | Zpos y' -> Coq_Pos.compare x' y'
                  | _ -> Gt)
    | Zneg x' ->
      (match y with
       | Zneg y' -> compOpp (Coq_Pos.compare x' y')
       | _ -> Lt)

  (** val leb : z -> z -> bool **)

  let leb x y =
    match compare x y with
    | Gt -> false
    | _ -> true

  (** val ltb : z -> z -> bool **)

  let ltb x y =
    match compare x y with
    | Lt -> true
    | _ -> false

  (** val eqb : z -> z -> bool **)

  let eqb x y =
    match x with
    | Z0 -> (match y with
             | Z0 -> true
             | _ -> false)
    | Zpos p -> (match y with
                 | Zpos q -> Coq_Pos.eqb p q
                 | _ -> false)
    | Zneg p -> (match y with
                 | Zneg q -> Coq_Pos.eqb p q
                 | _ -> false)

  (** val abs : z -> z **)

  let abs = function
  | Zneg p -> Zpos p
  | x -> x

  (** val abs_N : z -> n **)

  let abs_N = function
  | Z0 -> N0
  | Zpos p -> Npos p
  | Zneg p -> Npos p

  (** val to_nat : z -> nat **)

  let to_nat = function
  | Zpos p -> Coq_Pos.to_nat p
  | _ -> O

  (** val of_nat : nat -> z **)

  let of_nat = function
  | O -> Z0
  | S n1 -> Zpos (Coq_Pos.of_succ_nat n1)

  (** val of_N : n -> z **)

  let of_N = function
  | N0 -> Z0
  | Npos p -> Zpos p
 end

type ustring = n list

(** val ustr_eqb : ustring -> ustring -> bool **)

let rec ustr_eqb a b =
  match a with
  | [] -> (match b with
           | [] -> true
           | _ :: _ -> false)
  | x :: a' ->
    (match b with
     | [] -> false
     | y :: b' -> (&&) (N.eqb x y) (ustr_eqb a' b'))

(** val ustr_compare : ustring -> ustring -> comparison **)

let rec ustr_compare a b =
  match a with
  | [] -> (match b with
           | [] -> Eq
           | _ :: _ -> Lt)
  | x :: a' ->
    (match b with
     | [] -> Gt
     | y :: b' ->
       (match N.compare x y with
        | Eq -> ustr_compare a' b'
        | x0 -> x0))

type jvalue =
| JNull
| JBool of bool
| JInt of z
| JFloat of ustring
| JStr of ustring
| JArr of jvalue list
| JObj of (ustring * jvalue) list

(** val c_quote : n **)

let c_quote =
  Npos (XO (XI (XO (XO (XO XH)))))

(** val c_plus : n **)

let c_plus =
  Npos (XI (XI (XO (XI (XO XH)))))

(** val c_comma : n **)

let c_comma =
  Npos (XO (XO (XI (XI (XO XH)))))

(** val c_minus : n **)

let c_minus =
  Npos (XI (XO (XI (XI (XO XH)))))

(** val c_dot : n **)

let c_dot =
  Npos (XO (XI (XI (XI (XO XH)))))

(** val c_0 : n **)

let c_0 =
  Npos (XO (XO (XO (XO (XI XH)))))

(** val c_colon : n **)

let c_colon =
  Npos (XO (XI (XO (XI (XI XH)))))

(** val c_lbrack : n **)

let c_lbrack =
  Npos (XI (XI (XO (XI (XI (XO XH))))))

(** val c_bslash : n **)

let c_bslash =
  Npos (XO (XO (XI (XI (XI (XO XH))))))

(** val c_rbrack : n **)

let c_rbrack =
  Npos (XI (XO (XI (XI (XI (XO XH))))))

(** val c_e : n **)

let c_e =
  Npos (XI (XO (XI (XO (XO (XI XH))))))

(** val c_n : n **)

let c_n =
  Npos (XO (XI (XI (XI (XO (XI XH))))))

(** val c_lbrace : n **)

let c_lbrace =
  Npos (XI (XI (XO (XI (XI (XI XH))))))

(** val c_rbrace : n **)

let c_rbrace =
  Npos (XI (XO (XI (XI (XI (XI XH))))))

(** val dchar : n -> n **)

let dchar d =
  N.add (Npos (XO (XO (XO (XO (XI XH)))))) d

(** val dchars : n list -> ustring **)

let dchars ds =
  map dchar ds

(** val digits_of_uint : uint -> ustring **)

let rec digits_of_uint = function
| Nil -> []
| D0 r -> (Npos (XO (XO (XO (XO (XI XH)))))) :: (digits_of_uint r)
| D1 r -> (Npos (XI (XO (XO (XO (XI XH)))))) :: (digits_of_uint r)
| D2 r -> (Npos (XO (XI (XO (XO (XI XH)))))) :: (digits_of_uint r)
| D3 r -> (Npos (XI (XI (XO (XO (XI XH)))))) :: (digits_of_uint r)
| D4 r -> (Npos (XO (XO (XI (XO (XI XH)))))) :: (digits_of_uint r)
| D5 r -> (Npos (XI (XO (XI (XO (XI XH)))))) :: (digits_of_uint r)
| D6 r -> (Npos (XO (XI (XI (XO (XI XH)))))) :: (digits_of_uint r)
| D7 r -> (Npos (XI (XI (XI (XO (XI XH)))))) :: (digits_of_uint r)
| D8 r -> (Npos (XO (XO (XO (XI (XI XH)))))) :: (digits_of_uint r)
| D9 r -> (Npos (XI (XO (XO (XI (XI XH)))))) :: (digits_of_uint r)

(** val uint_of_digits : ustring -> uint option **)

let rec uint_of_digits = function
| [] -> Some Nil
| c :: r ->
  (match uint_of_digits r with
   | Some t ->
     if N.eqb c (Npos (XO (XO (XO (XO (XI XH))))))
     then Some (D0 t)
     else if N.eqb c (Npos (XI (XO (XO (XO (XI XH))))))
          then Some (D1 t)
          else if N.eqb c (Npos (XO (XI (XO (XO (XI XH))))))
               then Some (D2 t)
               else if N.eqb c (Npos (XI (XI (XO (XO (XI XH))))))
                    then Some (D3 t)
                    else if N.eqb c (Npos (XO (XO (XI (XO (XI XH))))))
                         then Some (D4 t)
                         else if N.eqb c (Npos (XI (XO (XI (XO (XI XH))))))
                              then Some (D5 t)
                              else if N.eqb c (Npos (XO (XI (XI (XO (XI
                                        XH))))))
                                   then Some (D6 t)
                                   else if N.eqb c (Npos (XI (XI (XI (XO (XI
                                             XH))))))
                                        then Some (D7 t)
                                        else if N.eqb c (Npos (XO (XO (XO (XI
                                                  (XI XH))))))
                                             then Some (D8 t)
                                             else if N.eqb c (Npos (XI (XO
                                                       (XO (XI (XI XH))))))
                                                  then Some (D9 t)
                                                  else None
   | None -> None)

(** val dec_show : n -> ustring **)

let dec_show n0 =
  digits_of_uint (N.to_uint n0)

(** val dec_parse : ustring -> n option **)

let dec_parse s = match s with
| [] -> None
| _ :: _ -> option_map N.of_uint (uint_of_digits s)

(** val find_idx : n -> ustring -> nat option **)

let rec find_idx c = function
| [] -> None
| x :: r ->
  if N.eqb x c then Some O else option_map (fun x0 -> S x0) (find_idx c r)

(** val py_int : ustring -> z option **)

let py_int s = match s with
| [] -> option_map Z.of_N (dec_parse s)
| n0 :: r ->
  (match n0 with
   | N0 -> option_map Z.of_N (dec_parse s)
   | Npos p ->
     (match p with
      | XI p0 ->
        (match p0 with
         | XI p1 ->
           (match p1 with
            | XO p2 ->
              (match p2 with
               | XI p3 ->
                 (match p3 with
                  | XO p4 ->
                    (match p4 with
                     | XH -> option_map Z.of_N (dec_parse r)
                     | _ -> option_map Z.of_N (dec_parse s))
                  | _ -> option_map Z.of_N (dec_parse s))
               | _ -> option_map Z.of_N (dec_parse s))
            | _ -> option_map Z.of_N (dec_parse s))
         | XO p1 ->
           (match p1 with
            | XI p2 ->
              (match p2 with
               | XI p3 ->
                 (match p3 with
                  | XO p4 ->
                    (match p4 with
                     | XH ->
                       option_map (fun n1 -> Z.opp (Z.of_N n1)) (dec_parse r)
                     | _ -> option_map Z.of_N (dec_parse s))
                  | _ -> option_map Z.of_N (dec_parse s))
               | _ -> option_map Z.of_N (dec_parse s))
            | _ -> option_map Z.of_N (dec_parse s))
         | XH -> option_map Z.of_N (dec_parse s))
      | _ -> option_map Z.of_N (dec_parse s)))

(** val units_leb : n list -> n list -> bool **)

let units_leb a b =
  match ustr_compare a b with
  | Gt -> false
  | _ -> true

(** val join_with : ustring -> ustring list -> ustring **)

let rec join_with sep = function
| [] -> []
| p :: rest ->
  (match rest with
   | [] -> p
   | _ :: _ -> app p (app sep (join_with sep rest)))

type jerr =
| ValueError
| UnicodeEncodeError
| OutOfModel

type 'a jres =
| JOk of 'a
| JRaise of jerr

(** val sign_text : bool -> ustring **)

let sign_text = function
| true -> c_minus :: []
| false -> []

(** val mant_text : n list -> ustring **)

let mant_text = function
| [] -> []
| d :: r ->
  (match r with
   | [] -> (dchar d) :: []
   | _ :: _ -> (dchar d) :: (c_dot :: (dchars r)))

(** val exp_text_py : z -> ustring **)

let exp_text_py e =
  c_e :: ((if Z.ltb e Z0 then c_minus else c_plus) :: (let a = Z.abs_N e in
                                                       if N.ltb a (Npos (XO
                                                            (XI (XO XH))))
                                                       then c_0 :: (dec_show
                                                                    a)
                                                       else dec_show a))

(** val py_repr : bool -> n list -> z -> ustring **)

let py_repr neg ds n0 =
  let k = Z.of_nat (length ds) in
  app (sign_text neg)
    (if (&&) (Z.ltb (Zneg (XO (XO XH))) n0)
          (Z.leb n0 (Zpos (XO (XO (XO (XO XH))))))
     then if Z.leb n0 Z0
          then c_0 :: (c_dot :: (app (repeat c_0 (Z.to_nat (Z.opp n0)))
                                  (dchars ds)))
          else if Z.ltb n0 k
               then app (dchars (firstn (Z.to_nat n0) ds))
                      (c_dot :: (dchars (skipn (Z.to_nat n0) ds)))
               else app (dchars ds)
                      (app (repeat c_0 (Z.to_nat (Z.sub n0 k)))
                        (c_dot :: (c_0 :: [])))
     else app (mant_text ds) (exp_text_py (Z.sub n0 (Zpos XH))))

(** val strip_trailing_zeros : n list -> n list **)

let rec strip_trailing_zeros = function
| [] -> []
| d :: r ->
  (match strip_trailing_zeros r with
   | [] -> if N.eqb d N0 then [] else d :: []
   | n0 :: l -> d :: (n0 :: l))

(** val digit_vals : ustring -> n list **)

let digit_vals s =
  map (fun c -> N.sub c (Npos (XO (XO (XO (XO (XI XH))))))) s

(** val int_float_repr : z -> ustring option **)

let int_float_repr z0 =
  if Z.eqb z0 Z0
  then Some (c_0 :: (c_dot :: (c_0 :: [])))
  else if Z.leb (Z.abs z0) (Zpos (XO (XO (XO (XO (XO (XO (XO (XO (XO (XO (XO
            (XO (XO (XO (XO (XO (XO (XO (XO (XO (XO (XO (XO (XO (XO (XO (XO
            (XO (XO (XO (XO (XO (XO (XO (XO (XO (XO (XO (XO (XO (XO (XO (XO
            (XO (XO (XO (XO (XO (XO (XO (XO (XO (XO
            XH))))))))))))))))))))))))))))))))))))))))))))))))))))))
       then let ds = digit_vals (dec_show (Z.abs_N z0)) in
            Some
            (py_repr (Z.ltb z0 Z0) (strip_trailing_zeros ds)
              (Z.of_nat (length ds)))
       else None

(** val is_zero_repr : ustring -> bool **)

let is_zero_repr py =
  (||) (ustr_eqb py (c_0 :: (c_dot :: (c_0 :: []))))
    (ustr_eqb py (c_minus :: (c_0 :: (c_dot :: (c_0 :: [])))))

(** val strip_exp_zero : ustring -> ustring **)

let strip_exp_zero es =
  if ustr_eqb (firstn (S O) (skipn (S (S O)) es)) (c_0 :: [])
  then app (firstn (S (S O)) es) (skipn (S (S (S O))) es)
  else es

(** val split_sign : ustring -> ustring * ustring **)

let split_sign py =
  match find_idx c_minus py with
  | Some n0 ->
    (match n0 with
     | O -> ((c_minus :: []), (skipn (S O) py))
     | S _ -> ([], py))
  | None -> ([], py)

(** val split_exp : ustring -> ((ustring * ustring) * z) jres **)

let split_exp pyDouble =
  match find_idx c_e pyDouble with
  | Some n0 ->
    (match n0 with
     | O -> JOk (([], pyDouble), Z0)
     | S q' ->
       let q = S q' in
       let pyExpStr = strip_exp_zero (skipn q pyDouble) in
       (match py_int (skipn (S O) pyExpStr) with
        | Some v -> JOk ((pyExpStr, (firstn q pyDouble)), v)
        | None -> JRaise ValueError))
  | None -> JOk (([], pyDouble), Z0)

(** val split_dot : ustring -> (ustring * ustring) * ustring **)

let split_dot pyDouble =
  match find_idx c_dot pyDouble with
  | Some n0 ->
    (match n0 with
     | O -> ((pyDouble, []), [])
     | S q' ->
       (((firstn (S q') pyDouble), (c_dot :: [])),
         (skipn (S (S q')) pyDouble)))
  | None -> ((pyDouble, []), [])

(** val strip_dot0 :
    ((ustring * ustring) * ustring) -> (ustring * ustring) * ustring **)

let strip_dot0 = function
| (p, pyLast) ->
  let (pyFirst, pyDot) = p in
  if ustr_eqb pyLast (c_0 :: [])
  then ((pyFirst, []), [])
  else ((pyFirst, pyDot), pyLast)

(** val assemble :
    ustring -> ustring -> ustring -> ustring -> ustring -> z -> ustring **)

let assemble pySign pyFirst pyDot pyLast pyExpStr pyExpVal =
  if (&&) (Z.ltb Z0 pyExpVal) (Z.ltb pyExpVal (Zpos (XI (XO (XI (XO XH))))))
  then let pyFirst0 = app pyFirst pyLast in
       app pySign
         (app pyFirst0
           (repeat c_0
             (Z.to_nat
               (Z.add (Z.sub pyExpVal (Z.of_nat (length pyFirst0))) (Zpos XH)))))
  else if (&&) (Z.ltb pyExpVal Z0) (Z.ltb (Zneg (XI (XI XH))) pyExpVal)
       then app pySign
              (app (c_0 :: [])
                (app (c_dot :: [])
                  (app
                    (repeat c_0 (Z.to_nat (Z.sub (Z.opp pyExpVal) (Zpos XH))))
                    (app pyFirst pyLast))))
       else app pySign (app pyFirst (app pyDot (app pyLast pyExpStr)))

(** val convert2es6 : ustring -> ustring jres **)

let convert2es6 py =
  if is_zero_repr py
  then JOk (c_0 :: [])
  else (match find_idx c_n py with
        | Some _ -> JRaise ValueError
        | None ->
          let (pySign, pyDouble) = split_sign py in
          (match split_exp pyDouble with
           | JOk a ->
             let (p, pyExpVal) = a in
             let (pyExpStr, pyDouble0) = p in
             let (p0, pyLast) = strip_dot0 (split_dot pyDouble0) in
             let (pyFirst, pyDot) = p0 in
             JOk (assemble pySign pyFirst pyDot pyLast pyExpStr pyExpVal)
           | JRaise e -> JRaise e))

(** val hex_lower : n -> n **)

let hex_lower n0 =
  if N.ltb n0 (Npos (XO (XI (XO XH))))
  then N.add (Npos (XO (XO (XO (XO (XI XH)))))) n0
  else N.add (Npos (XI (XI (XI (XO (XI (XO XH))))))) n0

(** val escape_char : n -> ustring **)

let escape_char c =
  if N.eqb c (Npos (XO (XO (XI (XI (XI (XO XH)))))))
  then c_bslash :: (c_bslash :: [])
  else if N.eqb c (Npos (XO (XI (XO (XO (XO XH))))))
       then c_bslash :: (c_quote :: [])
       else if N.eqb c (Npos (XO (XO (XO XH))))
            then c_bslash :: ((Npos (XO (XI (XO (XO (XO (XI XH))))))) :: [])
            else if N.eqb c (Npos (XO (XO (XI XH))))
                 then c_bslash :: ((Npos (XO (XI (XI (XO (XO (XI
                        XH))))))) :: [])
                 else if N.eqb c (Npos (XO (XI (XO XH))))
                      then c_bslash :: ((Npos (XO (XI (XI (XI (XO (XI
                             XH))))))) :: [])
                      else if N.eqb c (Npos (XI (XO (XI XH))))
                           then c_bslash :: ((Npos (XO (XI (XO (XO (XI (XI
                                  XH))))))) :: [])
                           else if N.eqb c (Npos (XI (XO (XO XH))))
                                then c_bslash :: ((Npos (XO (XO (XI (XO (XI
                                       (XI XH))))))) :: [])
                                else if N.ltb c (Npos (XO (XO (XO (XO (XO
                                          XH))))))
                                     then c_bslash :: ((Npos (XI (XO (XI (XO
                                            (XI (XI
                                            XH))))))) :: (c_0 :: (c_0 :: (
                                            (hex_lower
                                              (N.div c (Npos (XO (XO (XO (XO
                                                XH))))))) :: ((hex_lower
                                                                (N.modulo c
                                                                  (Npos (XO
                                                                  (XO (XO (XO
                                                                  XH))))))) :: [])))))
                                     else c :: []

(** val escape : ustring -> ustring **)

let escape s =
  flat_map escape_char s

(** val encode_string : ustring -> ustring **)

let encode_string s =
  c_quote :: (app (escape s) (c_quote :: []))

(** val utf16_cp : n -> n list option **)

let utf16_cp c =
  if N.ltb c (Npos (XO (XO (XO (XO (XO (XO (XO (XO (XO (XO (XO (XI (XI (XO
       (XI XH))))))))))))))))
  then Some (c :: [])
  else if N.ltb c (Npos (XO (XO (XO (XO (XO (XO (XO (XO (XO (XO (XO (XO (XO
            (XI (XI XH))))))))))))))))
       then None
       else if N.ltb c (Npos (XO (XO (XO (XO (XO (XO (XO (XO (XO (XO (XO (XO
                 (XO (XO (XO (XO XH)))))))))))))))))
            then Some (c :: [])
            else if N.ltb c (Npos (XO (XO (XO (XO (XO (XO (XO (XO (XO (XO (XO
                      (XO (XO (XO (XO (XO (XI (XO (XO (XO
                      XH)))))))))))))))))))))
                 then let c' =
                        N.sub c (Npos (XO (XO (XO (XO (XO (XO (XO (XO (XO (XO
                          (XO (XO (XO (XO (XO (XO XH)))))))))))))))))
                      in
                      Some
                      ((N.add (Npos (XO (XO (XO (XO (XO (XO (XO (XO (XO (XO
                         (XO (XI (XI (XO (XI XH))))))))))))))))
                         (N.div c' (Npos (XO (XO (XO (XO (XO (XO (XO (XO (XO
                           (XO XH))))))))))))) :: ((N.add (Npos (XO (XO (XO
                                                     (XO (XO (XO (XO (XO (XO
                                                     (XO (XI (XI (XI (XO (XI
                                                     XH))))))))))))))))
                                                     (N.modulo c' (Npos (XO
                                                       (XO (XO (XO (XO (XO
                                                       (XO (XO (XO (XO
                                                       XH))))))))))))) :: []))
                 else None

(** val utf16_units : ustring -> n list option **)

let rec utf16_units = function
| [] -> Some []
| c :: r ->
  (match utf16_cp c with
   | Some a ->
     (match utf16_units r with
      | Some b -> Some (app a b)
      | None -> None)
   | None -> None)

(** val be_bytes : n list -> n list **)

let be_bytes us =
  flat_map (fun x ->
    (N.div x (Npos (XO (XO (XO (XO (XO (XO (XO (XO XH)))))))))) :: ((N.modulo
                                                                    x (Npos
                                                                    (XO (XO
                                                                    (XO (XO
                                                                    (XO (XO
                                                                    (XO (XO
                                                                    XH)))))))))) :: []))
    us

(** val sort_key : ustring -> n list option **)

let sort_key k =
  option_map be_bytes (utf16_units k)

(** val insert_by :
    n list -> 'a1 -> (n list * 'a1) list -> (n list * 'a1) list **)

let rec insert_by kx x = function
| [] -> (kx, x) :: []
| p :: r ->
  let (ky, y) = p in
  if units_leb kx ky
  then (kx, x) :: ((ky, y) :: r)
  else (ky, y) :: (insert_by kx x r)

(** val isort : (n list * 'a1) list -> (n list * 'a1) list **)

let rec isort = function
| [] -> []
| p :: r -> let (k, x) = p in insert_by k x (isort r)

(** val keyed :
    (ustring * 'a1) list -> (n list * (ustring * 'a1)) list option **)

let rec keyed = function
| [] -> Some []
| p :: r ->
  let (k, x) = p in
  (match sort_key k with
   | Some kb ->
     (match keyed r with
      | Some r' -> Some ((kb, (k, x)) :: r')
      | None -> None)
   | None -> None)

(** val sort_members : (ustring * 'a1) list -> (ustring * 'a1) list option **)

let sort_members m =
  option_map (fun ks -> map snd (isort ks)) (keyed m)

(** val sequence : ustring jres list -> ustring list jres **)

let rec sequence = function
| [] -> JOk []
| j :: r ->
  (match j with
   | JOk a ->
     (match sequence r with
      | JOk l -> JOk (a :: l)
      | JRaise e -> JRaise e)
   | JRaise e -> JRaise e)

(** val member_text : (ustring * ustring jres) -> ustring jres **)

let member_text kv =
  match snd kv with
  | JOk body -> JOk (app (encode_string (fst kv)) (c_colon :: body))
  | JRaise e -> JRaise e

(** val canon : jvalue -> ustring jres **)

let rec canon = function
| JNull ->
  JOk ((Npos (XO (XI (XI (XI (XO (XI XH))))))) :: ((Npos (XI (XO (XI (XO (XI
    (XI XH))))))) :: ((Npos (XO (XO (XI (XI (XO (XI XH))))))) :: ((Npos (XO
    (XO (XI (XI (XO (XI XH))))))) :: []))))
| JBool b ->
  if b
  then JOk ((Npos (XO (XO (XI (XO (XI (XI XH))))))) :: ((Npos (XO (XI (XO (XO
         (XI (XI XH))))))) :: ((Npos (XI (XO (XI (XO (XI (XI
         XH))))))) :: ((Npos (XI (XO (XI (XO (XO (XI XH))))))) :: []))))
  else JOk ((Npos (XO (XI (XI (XO (XO (XI XH))))))) :: ((Npos (XI (XO (XO (XO
         (XO (XI XH))))))) :: ((Npos (XO (XO (XI (XI (XO (XI
         XH))))))) :: ((Npos (XI (XI (XO (XO (XI (XI XH))))))) :: ((Npos (XI
         (XO (XI (XO (XO (XI XH))))))) :: [])))))
| JInt z0 ->
  (match int_float_repr z0 with
   | Some r -> convert2es6 r
   | None -> JRaise OutOfModel)
| JFloat r -> convert2es6 r
| JStr s -> JOk (encode_string s)
| JArr l ->
  let parts =
    let rec go = function
    | [] -> []
    | x :: r -> (canon x) :: (go r)
    in go l
  in
  (match sequence parts with
   | JOk ps ->
     JOk (c_lbrack :: (app (join_with (c_comma :: []) ps) (c_rbrack :: [])))
   | JRaise e -> JRaise e)
| JObj m ->
  let enc =
    let rec go = function
    | [] -> []
    | p :: r -> let (k, x) = p in (k, (canon x)) :: (go r)
    in go m
  in
  (match sort_members enc with
   | Some sorted ->
     (match sequence (map member_text sorted) with
      | JOk ps ->
        JOk
          (c_lbrace :: (app (join_with (c_comma :: []) ps) (c_rbrace :: [])))
      | JRaise e -> JRaise e)
   | None -> JRaise UnicodeEncodeError)

(** val es6_exp : z -> ustring **)

let es6_exp e =
  c_e :: ((if Z.ltb e Z0 then c_minus else c_plus) :: (dec_show (Z.abs_N e)))

(** val es6_tostring : bool -> n list -> z -> ustring **)

let es6_tostring neg ds n0 =
  let k = Z.of_nat (length ds) in
  app (if neg then c_minus :: [] else [])
    (if (&&) (Z.leb k n0) (Z.leb n0 (Zpos (XI (XO (XI (XO XH))))))
     then app (dchars ds) (repeat c_0 (Z.to_nat (Z.sub n0 k)))
     else if (&&) (Z.ltb Z0 n0) (Z.leb n0 (Zpos (XI (XO (XI (XO XH))))))
          then app (dchars (firstn (Z.to_nat n0) ds))
                 (c_dot :: (dchars (skipn (Z.to_nat n0) ds)))
          else if (&&) (Z.ltb (Zneg (XO (XI XH))) n0) (Z.leb n0 Z0)
               then c_0 :: (c_dot :: (app (repeat c_0 (Z.to_nat (Z.opp n0)))
                                       (dchars ds)))
               else (match ds with
                     | [] -> []
                     | d :: r ->
                       (match r with
                        | [] -> (dchar d) :: (es6_exp (Z.sub n0 (Zpos XH)))
                        | _ :: _ ->
                          (dchar d) :: (c_dot :: (app (dchars r)
                                                   (es6_exp
                                                     (Z.sub n0 (Zpos XH))))))))

(** val num_case :
    ustring -> bool -> n list -> z -> (ustring jres * ustring) * ustring **)

let num_case r neg ds n0 =
  (((canon (JFloat r)), (py_repr neg ds n0)), (es6_tostring neg ds n0))

(** val plain_case : ustring -> ustring jres **)

let plain_case r =
  canon (JFloat r)

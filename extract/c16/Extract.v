(* extract/c16/Extract.v -- the number part of the C16 model extracted to OCaml for
   the thorough tier (volume): the same Gallina definitions the theorems are about
   (Model.Jcs.canon on a float, py_repr; Spec.Rfc8785.es6_tostring).  Z/N/positive
   stay Coq's binary types; only bool/list/option/pairs map to OCaml's.          *)
From Coq Require Import Extraction ExtrOcamlBasic NArith ZArith List.
From V Require Import Base.UString Base.Json Model.JcsText Model.Jcs Spec.Rfc8785.

Definition num_case (r : ustring) (neg : bool) (ds : list N) (n : Z)
  : jres ustring * ustring * ustring :=
  (canon (JFloat r), py_repr neg ds n, es6_tostring neg ds n).

Definition plain_case (r : ustring) : jres ustring := canon (JFloat r).

Extraction "c16num.ml" num_case plain_case.

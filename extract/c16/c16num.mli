
type nat =
| O
| S of nat

val option_map : ('a1 -> 'a2) -> 'a1 option -> 'a2 option

val fst : ('a1 * 'a2) -> 'a1

val snd : ('a1 * 'a2) -> 'a2

val length : 'a1 list -> nat

val app : 'a1 list -> 'a1 list -> 'a1 list

type comparison =
| Eq
| Lt
| Gt

val compOpp : comparison -> comparison

type uint =
| Nil
| D0 of uint
| D1 of uint
| D2 of uint
| D3 of uint
| D4 of uint
| D5 of uint
| D6 of uint
| D7 of uint
| D8 of uint
| D9 of uint

val revapp : uint -> uint -> uint

val rev : uint -> uint

module Little :
 sig
  val double : uint -> uint

  val succ_double : uint -> uint
 end

val add : nat -> nat -> nat

type positive =
| XI of positive
| XO of positive
| XH

type n =
| N0
| Npos of positive

type z =
| Z0
| Zpos of positive
| Zneg of positive

module Pos :
 sig
  type mask =
  | IsNul
  | IsPos of positive
  | IsNeg
 end

module Coq_Pos :
 sig
  val succ : positive -> positive

  val add : positive -> positive -> positive

  val add_carry : positive -> positive -> positive

  val pred_double : positive -> positive

  type mask = Pos.mask =
  | IsNul
  | IsPos of positive
  | IsNeg

  val succ_double_mask : mask -> mask

  val double_mask : mask -> mask

  val double_pred_mask : positive -> mask

  val sub_mask : positive -> positive -> mask

  val sub_mask_carry : positive -> positive -> mask

  val mul : positive -> positive -> positive

  val compare_cont : comparison -> positive -> positive -> comparison

  val compare : positive -> positive -> comparison

  val eqb : positive -> positive -> bool

  val iter_op : ('a1 -> 'a1 -> 'a1) -> positive -> 'a1 -> 'a1

  val to_nat : positive -> nat

  val of_succ_nat : nat -> positive

  val of_uint_acc : uint -> positive -> positive

  val of_uint : uint -> n

  val to_little_uint : positive -> uint

  val to_uint : positive -> uint
 end

module N :
 sig
  val succ_double : n -> n

  val double : n -> n

  val add : n -> n -> n

  val sub : n -> n -> n

  val compare : n -> n -> comparison

  val eqb : n -> n -> bool

  val leb : n -> n -> bool

  val ltb : n -> n -> bool

  val pos_div_eucl : positive -> n -> n * n

  val div_eucl : n -> n -> n * n

  val div : n -> n -> n

  val modulo : n -> n -> n

  val of_uint : uint -> n

  val to_uint : n -> uint
 end

val map : ('a1 -> 'a2) -> 'a1 list -> 'a2 list

val flat_map : ('a1 -> 'a2 list) -> 'a1 list -> 'a2 list

val firstn : nat -> 'a1 list -> 'a1 list

val skipn : nat -> 'a1 list -> 'a1 list

val repeat : 'a1 -> nat -> 'a1 list

module Z :
 sig
  val double : z -> z

  val succ_double : z -> z

  val pred_double : z -> z

  val pos_sub : positive -> positive -> z

  val add : z -> z -> z

  val opp : z -> z

  val sub : z -> z -> z

  val compare : z -> z -> comparison

  val leb : z -> z -> bool

  val ltb : z -> z -> bool

  val eqb : z -> z -> bool

  val abs : z -> z

  val abs_N : z -> n

  val to_nat : z -> nat

  val of_nat : nat -> z

  val of_N : n -> z
 end

type ustring = n list

val ustr_eqb : ustring -> ustring -> bool

val ustr_compare : ustring -> ustring -> comparison

type jvalue =
| JNull
| JBool of bool
| JInt of z
| JFloat of ustring
| JStr of ustring
| JArr of jvalue list
| JObj of (ustring * jvalue) list

val c_quote : n

val c_plus : n

val c_comma : n

val c_minus : n

val c_dot : n

val c_0 : n

val c_colon : n

val c_lbrack : n

val c_bslash : n

val c_rbrack : n

val c_e : n

val c_n : n

val c_lbrace : n

val c_rbrace : n

val dchar : n -> n

val dchars : n list -> ustring

val digits_of_uint : uint -> ustring

val uint_of_digits : ustring -> uint option

val dec_show : n -> ustring

val dec_parse : ustring -> n option

val find_idx : n -> ustring -> nat option

val py_int : ustring -> z option

val units_leb : n list -> n list -> bool

val join_with : ustring -> ustring list -> ustring

type jerr =
| ValueError
| UnicodeEncodeError
| OutOfModel

type 'a jres =
| JOk of 'a
| JRaise of jerr

val sign_text : bool -> ustring

val mant_text : n list -> ustring

val exp_text_py : z -> ustring

val py_repr : bool -> n list -> z -> ustring

val strip_trailing_zeros : n list -> n list

val digit_vals : ustring -> n list

val int_float_repr : z -> ustring option

val is_zero_repr : ustring -> bool

val strip_exp_zero : ustring -> ustring

val split_sign : ustring -> ustring * ustring

val split_exp : ustring -> ((ustring * ustring) * z) jres

val split_dot : ustring -> (ustring * ustring) * ustring

val strip_dot0 :
  ((ustring * ustring) * ustring) -> (ustring * ustring) * ustring

val assemble :
  ustring -> ustring -> ustring -> ustring -> ustring -> z -> ustring

val convert2es6 : ustring -> ustring jres

val hex_lower : n -> n

val escape_char : n -> ustring

val escape : ustring -> ustring

val encode_string : ustring -> ustring

val utf16_cp : n -> n list option

val utf16_units : ustring -> n list option

val be_bytes : n list -> n list

val sort_key : ustring -> n list option

val insert_by : n list -> 'a1 -> (n list * 'a1) list -> (n list * 'a1) list

val isort : (n list * 'a1) list -> (n list * 'a1) list

val keyed : (ustring * 'a1) list -> (n list * (ustring * 'a1)) list option

val sort_members : (ustring * 'a1) list -> (ustring * 'a1) list option

val sequence : ustring jres list -> ustring list jres

val member_text : (ustring * ustring jres) -> ustring jres

val canon : jvalue -> ustring jres

val es6_exp : z -> ustring

val es6_tostring : bool -> n list -> z -> ustring

val num_case :
  ustring -> bool -> n list -> z -> (ustring jres * ustring) * ustring

val plain_case : ustring -> ustring jres

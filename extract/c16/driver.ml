(* driver for the extracted number model: one case per line on stdin,
     N <repr> <neg:0|1> <digits> <n>     -> result|py_repr|es6_tostring
     P <repr>                            -> result
   texts are ASCII (number texts only) *)
open C16num

let rec pos_of_int (i : int) : positive =
  if i = 1 then XH else if i land 1 = 0 then XO (pos_of_int (i lsr 1)) else XI (pos_of_int (i lsr 1))
let n_of_int (i : int) : n = if i = 0 then N0 else Npos (pos_of_int i)
let z_of_int (i : int) : z = if i = 0 then Z0 else if i > 0 then Zpos (pos_of_int i) else Zneg (pos_of_int (- i))
let rec int_of_pos (p : positive) : int = match p with XH -> 1 | XO q -> 2 * int_of_pos q | XI q -> 2 * int_of_pos q + 1
let int_of_n (x : n) : int = match x with N0 -> 0 | Npos p -> int_of_pos p

let ustr_of_string (s : string) : n list = List.init (String.length s) (fun i -> n_of_int (Char.code s.[i]))
let string_of_ustr (u : n list) : string =
  let b = Buffer.create 32 in
  List.iter (fun c -> let i = int_of_n c in
                      if i >= 32 && i < 127 && i <> 124 then Buffer.add_char b (Char.chr i)
                      else Buffer.add_string b (Printf.sprintf "\\%06X" i)) u;
  Buffer.contents b

let show_res (r : n list jres) : string =
  match r with
  | JOk t -> "OK " ^ string_of_ustr t
  | JRaise ValueError -> "EXC ValueError"
  | JRaise UnicodeEncodeError -> "EXC UnicodeEncodeError"
  | JRaise OutOfModel -> "EXC OutOfModel"

let () =
  try
    while true do
      let line = input_line stdin in
      match String.split_on_char ' ' line with
      | ["N"; r; neg; ds; n] ->
        let digits = List.init (String.length ds) (fun i -> n_of_int (Char.code ds.[i] - 48)) in
        let ((res, pr), es) = num_case (ustr_of_string r) (neg = "1") digits (z_of_int (int_of_string n)) in
        print_string (show_res res); print_char '|'; print_string (string_of_ustr pr); print_char '|';
        print_endline (string_of_ustr es)
      | ["P"; r] -> print_endline (show_res (plain_case (ustr_of_string r)))
      | _ -> print_endline "BADLINE"
    done
  with End_of_file -> ()

#!/venv/bin/python
"""Run /repo's test suite (or VERIF_REPO) and compare with BASELINE stable_pass. Exit 0 iff every stable_pass test passes."""
import json, os, subprocess, sys, tempfile, xml.etree.ElementTree as ET
repo = sys.argv[1] if len(sys.argv) > 1 else "/repo"
base = json.load(open("/root/.vp/BASELINE.json"))
want = set(base["stable_pass"])
with tempfile.NamedTemporaryFile(suffix=".xml", dir="/verif/.scratch" if os.path.isdir("/verif/.scratch") else None, delete=False) as f:
    x = f.name
env = dict(os.environ); env.pop("CTI_PYTHON_STIX2_VERIF", None); env["PYTHONPATH"] = repo
subprocess.run(["/venv/bin/python", "-m", "pytest", "-q", "-p", "no:cacheprovider", "--timeout=900",
                "--continue-on-collection-errors", "--junitxml=" + x], cwd=repo, env=env,
               stdout=subprocess.DEVNULL, stderr=subprocess.DEVNULL)
passed = set()
for tc in ET.parse(x).getroot().iter("testcase"):
    if not any(c.tag in ("failure", "error", "skipped") for c in tc):
        passed.add("%s::%s" % (tc.get("classname"), tc.get("name")))
os.remove(x)
missing = sorted(want - passed)
print("stable_pass=%d passed_now=%d missing=%d" % (len(want), len(passed), len(missing)))
for m in missing[:30]:
    print("  MISSING", m)
sys.exit(1 if missing else 0)

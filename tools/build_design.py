#!/usr/bin/env python3
"""DESIGN.md = DESIGN.part1.md (the design as written before the code) + design_notes/00-as-built.md (coordinator)
+ design_notes/C*.md (one per builder) + seeded/RESULTS.md.  Run before committing."""
import glob, os, re
V = '/verif'
part1 = open(V + '/DESIGN.part1.md').read()
out = [part1.rstrip() + '\n\n---\n\n# Part II — the machinery as built\n\n(Part I above is the design as it was written before any code existed; where the two parts differ, Part II is what exists.)\n']
import sys; sys.path.insert(0, V + '/tools')
import status_table
asb = open(V + '/design_notes/00-as-built.md').read()
asb = asb.replace('<!--STATUS_TABLE-->', status_table.table())
chk = 'not yet run on this state (`tools/coqchk_all.sh`).'
if os.path.exists(V + '/coqchk_summary.txt'):
    chk = open(V + '/coqchk_summary.txt').read().strip()
asb = asb.replace('<!--COQCHK-->', chk)
out.append(asb)
out.append('\n## 20. Per-property notes (written by the builder of each property)\n')
for p in sorted(glob.glob(V + '/design_notes/C*.md')):
    t = open(p).read()
    t = re.sub(r'^(#+) ', lambda m: '#' * min(6, len(m.group(1)) + 2) + ' ', t, flags=re.M)   # demote headings
    out.append('\n### Notes file %s\n\n%s\n' % (os.path.basename(p), t))
if os.path.exists(V + '/seeded/RESULTS.md'):
    t = open(V + '/seeded/RESULTS.md').read()
    t = re.sub(r'^# ', '## 21. ', t, count=1, flags=re.M)
    out.append('\n' + t)
open(V + '/DESIGN.md', 'w').write('\n'.join(out))
print('DESIGN.md written: %d lines' % sum(x.count('\n') for x in out))

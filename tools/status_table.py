#!/usr/bin/env python3
"""Markdown status table (one row per property) from coq/Props, evidence/, MANIFEST.json, known findings and seeded/.
Used by tools/build_design.py (marker <!--STATUS_TABLE--> in design_notes/00-as-built.md)."""
import glob, json, os, re, subprocess
V = '/verif'
def table():
    man = json.load(open(V + '/MANIFEST.json'))
    checks = {c['property_id']: c for c in man['checks']}
    fixed = json.load(open(V + '/known_findings.json'))
    rows = ['| id | theorems in `Props/` (files) | obligations built by the quick check | tie to /repo (technique field, shortened) | defects: fixed / still known | seeded changes stored |',
            '|----|----|----|----|----|----|']
    for n in range(1, 21):
        pid = 'C%02d' % n
        files = sorted(glob.glob('%s/coq/Props/%s*.v' % (V, pid)))
        per = []
        for f in files:
            k = len(re.findall(r'^\s*(?:Theorem|Lemma|Corollary)\s', open(f).read(), flags=re.M))
            per.append('%s %d' % (os.path.basename(f)[:-2], k))
        ev = {}
        try: ev = json.load(open('%s/evidence/%s.json' % (V, pid)))
        except Exception: pass
        cov = ev.get('coverage', {})
        obl = '%s/%s' % (cov.get('discharged', '?'), cov.get('obligations', '?'))
        tech = checks.get(pid, {}).get('technique', 'not claimed')
        tech = re.sub(r'\s+', ' ', tech)
        if len(tech) > 260: tech = tech[:257] + '...'
        nf = sum(1 for e in fixed if e.get('property') == pid)
        try: nk = sum(1 for e in json.load(open('%s/known_findings.d/%s.json' % (V, pid))) if e.get('status') == 'known')
        except Exception: nk = 0
        ns = len(glob.glob('%s/seeded/%s-*/patch.diff' % (V, pid)))
        rows.append('| %s | %s | %s | %s | %d / %d | %d |' % (pid, '; '.join(per), obl, tech.replace('|', '/'), nf, nk, ns))
    loc = {}
    for d in ('Base', 'Spec', 'Model', 'Proofs', 'Props', 'Gen'):
        loc[d] = sum(open(f).read().count('\n') for f in glob.glob('%s/coq/%s/*.v' % (V, d)))
    nfix = len([l for l in subprocess.run(['git', '-C', '/repo', 'log', '--format=%s', '93b42bf..HEAD'], capture_output=True, text=True).stdout.splitlines() if l.startswith('fix:')])
    tail = ('\nLines of Coq written by hand: %d (Base %d, Spec %d, Model %d, Proofs %d, Props %d); regenerated from /repo on every run: %d lines in %d `Gen/` files. '
            '`fix:` commits in /repo since the pinned commit 93b42bf: %d. Entries in `known_findings.json` (all `fixed`): %d.\n'
            % (sum(loc[d] for d in ('Base', 'Spec', 'Model', 'Proofs', 'Props')), loc['Base'], loc['Spec'], loc['Model'], loc['Proofs'], loc['Props'],
               loc['Gen'], len(glob.glob(V + '/coq/Gen/*.v')), nfix, len(fixed)))
    return '\n'.join(rows) + '\n' + tail
if __name__ == '__main__':
    print(table())

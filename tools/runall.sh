#!/bin/bash
# tools/runall.sh [seed] [ids...]  -- run quick checks sequentially, one summary line each
seed=${1:-20260926}; shift
ids=${@:-C01 C02 C03 C04 C05 C06 C07 C08 C09 C10 C11 C12 C13 C14 C15 C16 C17 C18 C19 C20}
cd /verif
for p in $ids; do
  f=harness/props/$(echo $p | tr A-Z a-z).py
  [ -f $f ] || { echo "$p  (no check module)"; continue; }
  s=$(date +%s)
  VERIF_SEED=$seed timeout 1500 ./check $p --tier quick > /tmp/runall-$p.log 2>&1; rc=$?
  e=$(( $(date +%s) - s ))
  k=$(grep -c "^KNOWN-FINDING" /tmp/runall-$p.log); v=$(grep -c "^VIOLATION" /tmp/runall-$p.log)
  echo "$p seed=$seed exit=$rc known=$k violations=$v wall=${e}s :: $(grep -E '^(PASS|FAIL|BROKEN)' /tmp/runall-$p.log | tail -1 | cut -c1-120)"
done

#!/bin/bash
# tools/seed_run.sh <seed dir> <PID> [tier]  -- run ./check PID against a scratch worktree of /repo HEAD with the seeded patch applied
# (uses a private copy of /verif so that concurrently running checks are not disturbed). Prints the verdict lines.
d=$(readlink -f "$1"); pid=$2; tier=${3:-quick}; wt=/tmp/seedrun-$$; vc=/tmp/vseed-$$
git -C /repo worktree add -q --detach $wt HEAD || exit 2
git -C $wt apply $d/patch.diff || { echo APPLY-FAILED; git -C /repo worktree remove --force $wt; exit 2; }
rsync -a --exclude .git --exclude .scratch --exclude 'coq/Cases/*' /verif/ $vc/
cd $vc && VERIF_REPO=$wt timeout 3000 ./check $pid --tier $tier > $vc/out.txt 2>&1; rc=$?
grep -E "^(VIOLATION|KNOWN-FINDING|PASS|FAIL|BROKEN|  what|  broken)" $vc/out.txt | head -20
echo "exit=$rc"
{ echo "check=$pid tier=$tier repo_head=$(git -C /repo rev-parse --short HEAD) verif_head=$(git -C /verif rev-parse --short HEAD) date=$(date -u +%FT%TZ) exit=$rc"; grep -E "^(VIOLATION|PASS|FAIL|BROKEN|  what|  broken)" $vc/out.txt | head -8; } >> $d/result-$pid.txt
# replay file for the record
rp=$(grep -o "replay=[^ ]*" $vc/out.txt | head -1 | cut -d= -f2)
[ -n "$rp" ] && [ -f "$rp" ] && { echo "--- replay $rp"; head -c 1500 "$rp"; echo; }
git -C /repo worktree remove --force $wt; rm -rf $vc
exit $rc

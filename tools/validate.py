#!/venv/bin/python
"""Validate MANIFEST.json and every evidence file named in it against the schemas."""
import json, sys, os, jsonschema
m = json.load(open('/verif/MANIFEST.json'))
jsonschema.validate(m, json.load(open('/root/.vp/MANIFEST.schema.json')))
es = json.load(open('/root/.vp/EVIDENCE.schema.json'))
bad = 0
ids = {json.loads(l)['id'] for l in open('/verif/properties.jsonl')}
claimed = {c['property_id'] for c in m['checks']}
na = {c['property_id'] for c in m.get('not_applicable', [])}
assert claimed | na == ids and not (claimed & na), (claimed, na)
for c in m['checks']:
    p = c['evidence_file']
    try:
        e = json.load(open(p)); jsonschema.validate(e, es)
        cov = e['coverage']
        note = ''
        if cov.get('obligations') != cov.get('discharged'): note += ' OBLIGATIONS!=DISCHARGED'
        if not cov.get('samples'): note += ' NO-SAMPLES'
        if e.get('violations'): note += ' violations=%s' % e['violations']
        print('%s ok obligations=%s/%s eval=%s distinct=%s wall=%s%s' % (c['property_id'], cov.get('discharged'), cov.get('obligations'), cov.get('evaluations'), cov.get('distinct_nontrivial'), e['wall_s'], note))
        bad += bool(note)
    except Exception as ex:
        print(c['property_id'], 'INVALID', str(ex)[:300]); bad += 1
print('manifest valid; claimed=%d not_applicable=%d' % (len(claimed), len(na)))
sys.exit(1 if bad else 0)

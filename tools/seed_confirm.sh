#!/bin/bash
# tools/seed_confirm.sh <dir with patch.diff demo.py>  -- confirm a seeded change in a scratch worktree:
# applies cleanly, suite still passes, demo exits 0 unpatched and 1 patched.
d=$(readlink -f "$1"); wt=/tmp/seedconfirm-$$
git -C /repo worktree add -q --detach $wt HEAD || exit 2
trap 'git -C /repo worktree remove --force '$wt EXIT
cd $wt
PYTHONPATH=$wt PYTHONHASHSEED=0 timeout 300 /venv/bin/python $d/demo.py >/tmp/seedconfirm-$$.u 2>&1; u=$?
git apply $d/patch.diff || { echo "APPLY-FAILED"; exit 2; }
PYTHONPATH=$wt PYTHONHASHSEED=0 timeout 300 /venv/bin/python $d/demo.py >/tmp/seedconfirm-$$.p 2>&1; p=$?
s=$(/verif/tools/suite_check.py $wt | head -1)
echo "demo_unpatched_exit=$u demo_patched_exit=$p suite: $s"
tail -3 /tmp/seedconfirm-$$.p; rm -f /tmp/seedconfirm-$$.u /tmp/seedconfirm-$$.p
[ $u -eq 0 ] && [ $p -ne 0 ] && echo "$s" | grep -q "missing=0" && echo CONFIRMED

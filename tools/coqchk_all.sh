#!/bin/bash
# tools/coqchk_all.sh -- re-check every compiled Props module and its closure with coqchk -o (independent checker),
# 5 in parallel; writes /verif/coqchk_report.txt (one block per module: axioms, type-in-type, unsafe fixpoints, assumed positivity).
cd /verif/coq || exit 2
ls Props/*.v | sed 's#Props/\(.*\)\.v#\1#' | xargs -P 5 -I{} sh -c 'o=$(timeout 3000 coqchk -silent -o -Q . V V.Props.{} 2>&1 | tr "\n" " " | sed "s/  */ /g"); echo "V.Props.{} :: $o"' | sort > /verif/coqchk_report.txt
grep -c "Axioms: <none>" /verif/coqchk_report.txt; grep -v "Axioms: <none> \* Constants/Inductives relying on type-in-type: <none> \* Constants/Inductives relying on unsafe (co)fixpoints: <none> \* Inductives whose positivity is assumed: <none>" /verif/coqchk_report.txt | cut -c1-300

# one-paragraph summary used by tools/build_design.py
n=$(wc -l < /verif/coqchk_report.txt); ok=$(grep -c "Axioms: <none> \* Constants/Inductives relying on type-in-type: <none> \* Constants/Inductives relying on unsafe (co)fixpoints: <none> \* Inductives whose positivity is assumed: <none>" /verif/coqchk_report.txt)
echo "last complete run $(date -u +%Y-%m-%dT%H:%MZ) on /verif $(git -C /verif rev-parse --short HEAD): $ok of $n modules report \`Axioms: <none>\`, no type-in-type, no unsafe (co)fixpoints, no assumed positivity (\`coqchk_report.txt\`)." > /verif/coqchk_summary.txt
cat /verif/coqchk_summary.txt

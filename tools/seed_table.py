#!/usr/bin/env python3
"""Assemble seeded/RESULTS.md from seeded/<id>/meta.json and result-<PID>.txt (history of runs, oldest first)."""
import glob, json, os, re
rows = []
for d in sorted(glob.glob('/verif/seeded/C*-*')):
    sid = os.path.basename(d)
    try: meta = json.load(open(d + '/meta.json'))
    except Exception: meta = {}
    runs = []
    for rf in sorted(glob.glob(d + '/result-*.txt')):
        pid = re.search(r'result-(C\d\d)\.txt', rf).group(1)
        cur = None
        for line in open(rf):
            if line.startswith('check='):
                cur = {'hdr': line.strip(), 'lines': []}; runs.append((pid, cur))
            elif cur is not None: cur['lines'].append(line.rstrip())
    def verdict(r):
        ls = r['lines']
        if any(l.startswith('VIOLATION') and 'no-failing-input-found' not in l for l in ls): return 'VIOLATION+replay'
        if any('no-failing-input-found' in l for l in ls): return 'VIOLATION no-failing-input-found'
        if any(l.startswith('PASS') for l in ls): return 'MISSED (PASS)'
        return 'other: ' + (ls[-1][:60] if ls else r['hdr'][-20:])
    hist = ['%s@%s: %s' % (pid, (re.search(r'verif_head=(\w+)', r['hdr']) or re.search(r'repo_head=(\w+)', r['hdr'])).group(1), verdict(r)) for pid, r in runs]
    own = [verdict(r) for pid, r in runs if pid == sid.split('-')[0]]
    rows.append((sid, (meta.get('summary') or meta.get('what') or meta.get('description') or '')[:160].replace('|', '/'), hist, own))
with open('/verif/seeded/RESULTS.md', 'w') as f:
    f.write('# Seeded breaking changes and what the checks reported\n\nEach row: a change produced by an independent engineer who saw only the property text, confirmed by the coordinator (applies, suite passes, demo exits 0 unpatched / 1 patched), then run through `tools/seed_run.sh` (private copy of /verif, patched scratch worktree). History is oldest run first; a MISSED entry followed by VIOLATION means the check was strengthened in between.\n\n| seed | change | runs |\n|---|---|---|\n')
    for sid, s, hist, own in sorted(rows, key=lambda r: (r[0].split('-')[0], int(r[0].split('-')[1]))):
        f.write('| %s | %s | %s |\n' % (sid, s, '<br>'.join(hist) or '(not run yet)'))
    # summary per round: outcome of the FIRST run of the property's own check, and of the LAST one
    f.write('\n### Summary by round (own check of the seeded property; first run / latest run)\n\n| round | seeds | first run: replay | first run: no-failing-input-found | first run: missed | latest run: replay | latest: no-failing-input-found | latest: missed | not run |\n|---|---|---|---|---|---|---|---|---|\n')
    for rd in range(1, 7):
        sel = [r for r in rows if (int(r[0].split('-')[1]) - 1) // 3 + 1 == rd]
        def cnt(i, key): return sum(1 for r in sel if r[3] and r[3][i].startswith(key))
        f.write('| %d | %d | %d | %d | %d | %d | %d | %d | %d |\n' % (rd, len(sel), cnt(0, 'VIOLATION+replay'), cnt(0, 'VIOLATION no-'), cnt(0, 'MISSED'),
                cnt(-1, 'VIOLATION+replay'), cnt(-1, 'VIOLATION no-'), cnt(-1, 'MISSED'), sum(1 for r in sel if not r[3])))
    left = [r[0] for r in rows if r[3] and not r[3][-1].startswith('VIOLATION+replay')]
    f.write('\nSeeds whose latest run of their own check does not end in a violation with a failing input: %s\n' % (', '.join(sorted(left)) or 'none'))
print(open('/verif/seeded/RESULTS.md').read()[:200]); print(len(rows), 'seeds')

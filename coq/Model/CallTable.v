(* Model/CallTable.v -- the datatypes of the call-site table that
   translators/tr_callsites.py regenerates from the ast of /repo on every run
   (Gen/CallSites.v).  Identifiers are plain Coq strings (Python identifiers
   and dotted qualified names such as "memory.MemorySink.add").  No proofs.  *)
From Coq Require Import String List.
Import ListNotations.

(* an argument expression at a call site, classified by the translator *)
Inductive aexpr :=
| FromParam (p : string)                       (* a parameter of the calling def, never re-bound in it *)
| FromAttr (a : string)                        (* self.a *)
| Const (c : string)                           (* a literal; c is its repr() text *)
| Other (text : string) (deps : list string).  (* anything else; deps = the caller's parameters / "self.x"
                                                  attributes the value is computed from (data and control flow) *)

Inductive fkind := KFunc | KMethod (cls : string).

(* a def as it is NOW: parameters in order with their default (None = required) *)
Record fsig := mkSig {
  f_name : string;
  f_kind : fkind;
  f_params : list (string * option aexpr);
  f_vararg : string;                 (* "" when absent *)
  f_kwarg : string;
  f_idioms : list string             (* parameters re-bound only by `if not p: p = detect_spec_version(..)` *)
}.

Inductive via :=
| VDirect                      (* plain function call *)
| VSelf                        (* self.m(..): same object *)
| VLeaf                        (* obj_class(k=.., star-star data) inside the parser *)
| VConstruct (cls : string).   (* C(..): runs C.__init__ on a new object *)

Record site := mkSite {
  s_id : string;                          (* "caller>callee#k", k-th such call in source order *)
  s_caller : string;
  s_callee : string;
  s_via : via;
  s_binds : list (string * aexpr);        (* callee parameter name <- argument *)
  s_line : string;
  s_text : string
}.

Record attr_assign := mkAttr {
  aa_class : string; aa_method : string; aa_attr : string; aa_expr : aexpr
}.

(* a pure forwarder: a def taking only (self, star-args, star-star-kwargs) whose
   body returns  self.<role>.<method>  applied to exactly those  (fw_target = "")
   or returns  <fw_target>  applied to exactly those  (fw_role = fw_method = "") *)
Record forwarder := mkFwd {
  fw_caller : string; fw_role : string; fw_method : string; fw_target : string
}.

(* super().__init__(source=C1(..), sink=C2(..)) of a store class *)
Record component := mkComp {
  co_store : string; co_role : string; co_class : string; co_site : string
}.

(* Model/Chain.v -- semantics of the comparison chains that
   stix2/confidence/scales.py is written in.  No proofs here: the translator
   (translators/tr_scales.py) emits terms of these types into Gen/Scales.v and
   the functions below give them the meaning Python gives the source.

   Python form modelled (one function = one chain):
       if C1: A1 elif C2: A2 ... else: An
   where every Ci is a boolean combination of (chained) comparisons between
   the single parameter and integer literals (the value_to_X functions), or an equality
   test of the parameter against a string literal (the X_to_value functions), and every Ai
   is `return <literal>` or `raise ValueError(...)`.                          *)

From Coq Require Import ZArith List String Bool.
From V Require Export Base.UString.
Import ListNotations.
Open Scope Z_scope.

Inductive cmpop := OLt | OLe | OGt | OGe | OEq | ONe.

Inductive term := X | Lit (z : Z).

Inductive cond :=
| Cmp (a : term) (op : cmpop) (b : term)
| CAnd (c1 c2 : cond)
| COr (c1 c2 : cond)
| CNot (c : cond)
| CTrue.

(* what a branch does *)
Inductive act (A : Type) := Ret (a : A) | RaiseValueError.
Arguments Ret {A} a.
Arguments RaiseValueError {A}.

Definition vchain := list (cond * act string).     (* value -> label *)
Definition lchain := list (string * act Z).        (* label -> value *)

Definition eval_term (t : term) (x : Z) : Z :=
  match t with X => x | Lit z => z end.

Definition eval_op (op : cmpop) (a b : Z) : bool :=
  match op with
  | OLt => a <? b | OLe => a <=? b | OGt => b <? a | OGe => b <=? a
  | OEq => a =? b | ONe => negb (a =? b)
  end.

Fixpoint eval_cond (c : cond) (x : Z) : bool :=
  match c with
  | Cmp a op b => eval_op op (eval_term a x) (eval_term b x)
  | CAnd c1 c2 => eval_cond c1 x && eval_cond c2 x
  | COr c1 c2 => eval_cond c1 x || eval_cond c2 x
  | CNot c1 => negb (eval_cond c1 x)
  | CTrue => true
  end.

(* first branch whose condition holds; falling off the end of the chain is
   what Python does when there is no else: the function returns None, which
   the caller sees as "no label" -- modelled as a distinct outcome so that
   no theorem can mistake it for a refusal.                                  *)
Inductive outcome (A : Type) := Value (a : A) | Refused | FellThrough.
Arguments Value {A} a.
Arguments Refused {A}.
Arguments FellThrough {A}.

Definition run_act {A} (a : act A) : outcome A :=
  match a with Ret v => Value v | RaiseValueError => Refused end.

Fixpoint eval_vchain (ch : vchain) (x : Z) : outcome string :=
  match ch with
  | [] => FellThrough
  | (c, a) :: rest => if eval_cond c x then run_act a else eval_vchain rest x
  end.

Fixpoint eval_lchain (ch : lchain) (s : string) : outcome Z :=
  match ch with
  | [] => FellThrough
  | (l, a) :: rest => if String.eqb s l then run_act a else eval_lchain rest s
  end.

(* a label function: the == branches and the else branch *)
Record lfun := { lbranches : lchain; lelse : option (act Z) }.

Definition eval_lfun (f : lfun) (s : string) : outcome Z :=
  match eval_lchain (lbranches f) s with
  | FellThrough => match lelse f with Some a => run_act a | None => FellThrough end
  | o => o
  end.

(* ---- literals of a chain: outside [min-1, max+1] behaviour is constant ---- *)

Definition term_lits (t : term) : list Z :=
  match t with X => [] | Lit z => [z] end.

Fixpoint cond_lits (c : cond) : list Z :=
  match c with
  | Cmp a _ b => term_lits a ++ term_lits b
  | CAnd c1 c2 | COr c1 c2 => cond_lits c1 ++ cond_lits c2
  | CNot c1 => cond_lits c1
  | CTrue => []
  end.

Definition chain_lits (ch : vchain) : list Z :=
  flat_map (fun ca => cond_lits (fst ca)) ch.

Definition list_min (d : Z) (l : list Z) : Z := fold_right Z.min d l.
Definition list_max (d : Z) (l : list Z) : Z := fold_right Z.max d l.

(* the integers lo, lo+1, ..., lo+n-1 *)
Fixpoint zrange (lo : Z) (n : nat) : list Z :=
  match n with O => [] | S k => lo :: zrange (lo + 1) k end.

Definition zwindow (lo hi : Z) : list Z := zrange lo (Z.to_nat (hi - lo + 1)).

(* ---- the specification side: a table of inclusive ranges ---- *)

Definition range_table := list (Z * Z * string).

Fixpoint spec_label (t : range_table) (x : Z) : outcome string :=
  match t with
  | [] => Refused
  | (lo, hi, l) :: rest => if (lo <=? x) && (x <=? hi) then Value l else spec_label rest x
  end.

Definition label_table := list (string * Z).

Fixpoint spec_value (t : label_table) (s : string) : outcome Z :=
  match t with
  | [] => Refused
  | (l, v) :: rest => if String.eqb s l then Value v else spec_value rest s
  end.

Definition outcome_eqb {A} (eqb : A -> A -> bool) (a b : outcome A) : bool :=
  match a, b with
  | Value x, Value y => eqb x y
  | Refused, Refused => true
  | FellThrough, FellThrough => true
  | _, _ => false
  end.

(* index of the first occurrence of a label in the scale's label order *)
Fixpoint rank (order : list string) (s : string) : nat :=
  match order with
  | [] => O
  | l :: rest => if String.eqb s l then O else S (rank rest s)
  end.

Definition labels_of (t : range_table) : list string := map snd t.

(* ---- rendering for the correspondence run (one result per line) ---- *)



Definition show_outcome {A} (show : A -> string) (o : outcome A) : string :=
  match o with
  | Value a => append "V " (show a)
  | Refused => "ValueError"
  | FellThrough => "None"
  end.




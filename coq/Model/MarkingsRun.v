(* Model/MarkingsRun.v -- operation scripts over the marking model and the
   rendering of results for the correspondence case files (C07, C08).
   No proofs.  The harness (harness/props/c07.py, c08.py) renders the
   implementation's observations with the same conventions.                *)
From Coq Require Import NArith ZArith List String Ascii Bool.
From V Require Import Base.UString Model.Markings.
Import ListNotations.
Open Scope string_scope.

(* tokens: letters, digits and - _ . [ ] stand for themselves, anything else is \XXXXXX *)
Definition tok_plain (c : N) : bool :=
  ((97 <=? c) && (c <=? 122) || (65 <=? c) && (c <=? 90) || (48 <=? c) && (c <=? 57)
   || (c =? 45) || (c =? 95) || (c =? 46) || (c =? 91) || (c =? 93))%N.

Definition show_tok_cp (c : N) (acc : string) : string :=
  if tok_plain c then String (ascii_of_N c) acc
  else String "\" (String (hexdigit (c / 1048576 mod 16)) (String (hexdigit (c / 65536 mod 16))
       (String (hexdigit (c / 4096 mod 16)) (String (hexdigit (c / 256 mod 16))
       (String (hexdigit (c / 16 mod 16)) (String (hexdigit (c mod 16)) acc)))))).
Definition show_tok (s : ustring) : string := fold_right show_tok_cp EmptyString s.

Fixpoint join (sep : string) (l : list string) : string :=
  match l with
  | [] => ""
  | [a] => a
  | a :: l' => a ++ sep ++ join sep l'
  end.

Definition show_toks (l : list ustring) : string := join "," (map show_tok l).

Definition show_err (e : err) : string :=
  match e with
  | EInvalidSelector => "InvalidSelectorError"
  | EMarkingNotFound => "MarkingNotFoundError"
  | ETypeNotVersionable => "TypeNotVersionableError"
  | EObjectNotVersionable => "ObjectNotVersionableError"
  | ERevoked => "RevokeError"
  | EInvalidValue => "InvalidValueError"
  end.

Definition show_gm (g : gm) : string :=
  (if nonempty (g_ref g) then "r=" ++ show_tok (g_ref g) else "") ++
  (if nonempty (g_lang g) then "l=" ++ show_tok (g_lang g) else "") ++
  ":" ++ show_toks (g_sels g).

(* marking state + top-level keys; object_marking_refs is a set in the code (list(set(..))), shown sorted *)
Definition show_state (o : sobj) : string :=
  "omr=" ++ (match o_omr o with None => "-" | Some l => "{" ++ show_toks (py_sorted l) ++ "}" end) ++
  " gms=" ++ (match o_gms o with None => "-" | Some gs => "{" ++ join ";" (map show_gm gs) ++ "}" end) ++
  " keys=" ++ show_toks (py_sorted (map fst (o_props o))).

Definition show_outcome {A} (f : A -> string) (r : outcome A) : string :=
  match r with Ok a => f a | Err e => show_err e end.

Definition show_set (l : list ustring) : string := "{" ++ show_toks (sorted_set l) ++ "}".

Inductive op :=
| OpAdd (marking : list ustring) (sels : option (list ustring))
| OpRemove (marking : list ustring) (sels : option (list ustring))
| OpClear (sels : option (list ustring)) (marking_ref lang : bool)
| OpSet (marking : list ustring) (sels : option (list ustring)) (marking_ref lang : bool)
| OpGet (sels : option (list ustring)) (inherited descendants marking_ref lang : bool)
| OpIsMarked (marking : list ustring) (sels : option (list ustring)) (inherited descendants : bool).

Definition step_mut (o : sobj) (r : outcome sobj) (k : sobj -> list string) : list string :=
  match r with
  | Ok o' => show_state o' :: k o'
  | Err e => show_err e :: k o
  end.

Fixpoint run_ops (c : cfg) (o : sobj) (ops : list op) : list string :=
  match ops with
  | [] => []
  | x :: rest =>
      match x with
      | OpAdd m s => step_mut o (add_markings c o m s) (fun o' => run_ops c o' rest)
      | OpRemove m s => step_mut o (remove_markings c o m s) (fun o' => run_ops c o' rest)
      | OpClear s r l => step_mut o (clear_markings c o s r l) (fun o' => run_ops c o' rest)
      | OpSet m s r l => step_mut o (set_markings c o m s r l) (fun o' => run_ops c o' rest)
      | OpGet s i d r l => show_outcome show_set (get_markings c o s i d r l) :: run_ops c o rest
      | OpIsMarked m s i d => show_outcome show_bool (is_marked c o m s i d) :: run_ops c o rest
      end
  end.

Definition c07_line (c : cfg) (o : sobj) (ops : list op) : string := join " | " (run_ops c o ops).

(* ---- C08 ---- *)

(* all paths iterpath yields, as a sorted multiset *)
Definition show_paths (c : cfg) (o : sobj) : string :=
  show_toks (py_sorted (map (fun pv => join_dot (fst pv)) (iterpath c (view o)))).

Definition red : ustring := u "marking-definition--5e57c739-391a-4eb3-b6be-7d15ca92d5ed".

(* constructing / parsing the object with granular_markings=[{selectors: sels, marking_ref: RED}] added *)
Definition construct_with (c : cfg) (o : sobj) (sels : list ustring) : outcome sobj :=
  let o' := mkobj (o_kind o) (o_v21 o) (o_vtype o) (o_props o) (o_omr o)
                  (Some (List.app (gms_list o) [mkgm sels red []])) in
  match ctor_check c o' with
  | Some e => Err e
  | None => Ok o'
  end.

(* the same with a LANGUAGE marking {selectors: sels, lang: "en"} *)
Definition construct_with_lang (c : cfg) (o : sobj) (sels : list ustring) : outcome sobj :=
  let o' := mkobj (o_kind o) (o_v21 o) (o_vtype o) (o_props o) (o_omr o)
                  (Some (List.app (gms_list o) [mkgm sels [] (u "en")])) in
  match ctor_check c o' with
  | Some e => Err e
  | None => Ok o'
  end.

Definition show_unit_outcome {A} (r : outcome A) : string := show_outcome (fun _ => "ok") r.

(* one-letter outcome codes keep the result strings small *)
Definition code_err (e : err) : string :=
  match e with
  | EInvalidSelector => "S"
  | EMarkingNotFound => "M"
  | ETypeNotVersionable => "T"
  | EObjectNotVersionable => "O"
  | ERevoked => "R"
  | EInvalidValue => "V"
  end.
Definition code {A} (r : outcome A) : string := match r with Ok _ => "o" | Err e => code_err e end.

(* one selector list through validate, the six functions (marking RED where one is
   needed, default flags) and construction with the list in a granular
   marking, then is_marked / get_markings with inherited and descendants:
   validate get is_marked add remove clear set ctor is_marked_inh get_inh, one letter each *)
Definition c08_line (c : cfg) (o : sobj) (sels : list ustring) : string :=
  (if validate c (view o) sels then "o" else "S") ++
  code (get_markings c o (Some sels) false false true true) ++
  code (is_marked c o [] (Some sels) false false) ++
  code (add_markings c o [red] (Some sels)) ++
  code (remove_markings c o [red] (Some sels)) ++
  code (clear_markings c o (Some sels) true true) ++
  code (set_markings c o [red] (Some sels) true true) ++
  (match o_kind o with KObj => code (construct_with c o sels) | KDict => "-" end) ++
  (* the queries with inherited / descendants: asking for the first object marking if there is one *)
  code (is_marked c o (match omr_list o with m :: _ => [m] | [] => [] end) (Some sels) true true) ++
  code (get_markings c o (Some sels) true true true true) ++
  (* construction / parse with the selectors in a language marking *)
  (match o_kind o with KObj => code (construct_with_lang c o sels) | KDict => "-" end).

Definition c08_lines (c : cfg) (o : sobj) (sels : list (list ustring)) : string :=
  join " " (map (c08_line c o) sels).

(* the \d table, for the comparison with the implementation's regex *)
Definition show_nd_ranges : string :=
  join "," (map (fun r => show_N (fst r) ++ "-" ++ show_N (snd r)) nd_ranges).

(* Model/PatternSyntax.v -- property C10: STIX pattern text <-> object model.

   What is modelled (no proofs in this file):

   * the token vocabulary and the grammar of stix2patterns' STIXPattern.g4
     (2.1; the installed 2.0 grammar is the same minus the EXISTS alternative)
     as a concrete-syntax-tree datatype, one constructor per grammar
     alternative.  Left-recursive rules are given in the shape ANTLR's
     precedence climbing produces: the right operand of a binary alternative
     is of the next tighter level.  `yield` is the token sequence of a tree,
     `shape` prints the tree the way harness/impl/c10_impl.py prints the real
     ANTLR parse tree (this is what validates "the datatype is the grammar").
   * stix2/pattern_visitor.py: STIXPatternVisitorForSTIX2, method by method:
     each m_xxx below receives the Python list `children` that
     visitChildren/aggregateResult build and indexes it the way the Python
     method does.
   * stix2/patterns.py: the classes (as the datatypes aconst/acomp/apath/
     aqual/aexpr), their constructors' checks, every __str__,
     escape_quotes_and_backslashes, quote_if_needed.
   * `unvisit` (object model -> parse tree) and `meaning` of both trees.

   Variant parameters (BUILDING.md "Defects of the unchanged code"): the
   record `cfg` has one flag per deviation of the tree as found (`pinned`,
   all false) that a proposed fix repairs (`repaired`, all true): NOT passed
   through per operator class, WITHIN <float>, positional printing of floats,
   quoting of path keys, h'', root_types on append, 'k'[*].  Every function
   whose behaviour depends on a flag takes the record as first argument; the
   check selects the flags by running a witness per flag on the real code.   *)

From Coq Require Import NArith ZArith List String Ascii Bool Decimal DecimalN DecimalZ.
From V Require Export Base.UString.
Import ListNotations.
Open Scope N_scope.

(* ------------------------------------------------------------------ *)
(** * Small text utilities *)

Definition cp (a : ascii) : N := N_of_ascii a.

Definition c_quote : N := 39.      (* ' *)
Definition c_bslash : N := 92.     (* \ *)
Definition c_hyphen : N := 45.     (* - *)

Definition is_digit (c : N) : bool := (48 <=? c) && (c <=? 57).
Definition is_alpha_ (c : N) : bool :=
  ((65 <=? c) && (c <=? 90)) || ((97 <=? c) && (c <=? 122)) || (c =? 95).
Definition is_hex (c : N) : bool :=
  is_digit c || ((65 <=? c) && (c <=? 70)) || ((97 <=? c) && (c <=? 102)).
Definition is_b64 (c : N) : bool :=
  is_digit c || ((65 <=? c) && (c <=? 90)) || ((97 <=? c) && (c <=? 122)) || (c =? 43) || (c =? 47).

Fixpoint mem_N (x : N) (l : list N) : bool :=
  match l with [] => false | y :: r => (x =? y) || mem_N x r end.

Fixpoint mem_ustr (x : ustring) (l : list ustring) : bool :=
  match l with [] => false | y :: r => ustr_eqb x y || mem_ustr x r end.

Definition starts_with_quote (s : ustring) : bool :=
  match s with c :: _ => c =? c_quote | [] => false end.

(* Python  s[1:-1]  *)
Definition slice_1_m1 (s : ustring) : ustring := removelast (tl s).
(* Python  s[2:-1]  *)
Definition slice_2_m1 (s : ustring) : ustring := removelast (tl (tl s)).
(* Python  s[-1] == c  (False/IndexError never matter: only used after s[0] succeeded) *)
Definition last_is (s : ustring) (c : N) : bool := last s (c + 1) =? c.


(* decimal digits <-> Decimal.uint (stdlib conversions carry the arithmetic) *)
Fixpoint uint_of_digits (l : list N) : option uint :=
  match l with
  | [] => Some Nil
  | c :: r =>
      match uint_of_digits r with
      | None => None
      | Some d =>
          if c =? 48 then Some (D0 d) else if c =? 49 then Some (D1 d) else
          if c =? 50 then Some (D2 d) else if c =? 51 then Some (D3 d) else
          if c =? 52 then Some (D4 d) else if c =? 53 then Some (D5 d) else
          if c =? 54 then Some (D6 d) else if c =? 55 then Some (D7 d) else
          if c =? 56 then Some (D8 d) else if c =? 57 then Some (D9 d) else None
      end
  end.

Fixpoint digits_of_uint (d : uint) : list N :=
  match d with
  | Nil => []
  | D0 r => 48 :: digits_of_uint r | D1 r => 49 :: digits_of_uint r
  | D2 r => 50 :: digits_of_uint r | D3 r => 51 :: digits_of_uint r
  | D4 r => 52 :: digits_of_uint r | D5 r => 53 :: digits_of_uint r
  | D6 r => 54 :: digits_of_uint r | D7 r => 55 :: digits_of_uint r
  | D8 r => 56 :: digits_of_uint r | D9 r => 57 :: digits_of_uint r
  end.

(* str(n) for a non-negative Python int *)
Definition dec_of_N (n : N) : ustring := digits_of_uint (N.to_uint n).
(* str(z) for a Python int *)
Definition dec_of_Z (z : Z) : ustring :=
  match z with
  | Z0 => [48]
  | Zpos p => dec_of_N (Npos p)
  | Zneg p => c_hyphen :: dec_of_N (Npos p)
  end.

(* int(text) on  [+-]?[0-9]+  (the only texts an Int*Literal token can carry) *)
Definition nat_of_digits (l : list N) : option N :=
  match l with
  | [] => None
  | _ => match uint_of_digits l with Some d => Some (N.of_uint d) | None => None end
  end.

(* split an optional sign off: (is_negative, rest) *)
Definition split_sign (s : ustring) : bool * ustring :=
  match s with
  | c :: r => if c =? 45 then (true, r) else if c =? 43 then (false, r) else (false, s)
  | [] => (false, s)
  end.

Definition py_int (s : ustring) : option Z :=
  let (neg, r) := split_sign s in
  match nat_of_digits r with
  | Some n => Some (if neg then (- Z.of_N n)%Z else Z.of_N n)
  | None => None
  end.

Fixpoint strip0 (l : list N) : list N :=          (* drop leading '0's *)
  match l with
  | c :: r => if c =? 48 then strip0 r else l
  | [] => []
  end.
Definition rstrip0 (l : list N) : list N := List.rev (strip0 (List.rev l)).   (* .rstrip("0") *)

Fixpoint count0 (l : list N) : nat :=             (* number of leading '0's *)
  match l with
  | c :: r => if c =? 48 then S (count0 r) else O
  | [] => O
  end.

Fixpoint split_at (c : N) (l : list N) : option (list N * list N) :=   (* first occurrence *)
  match l with
  | [] => None
  | x :: r => if x =? c then Some ([], r)
              else match split_at c r with Some (a, b) => Some (x :: a, b) | None => None end
  end.

(* ------------------------------------------------------------------ *)
(** * Tokens *)

Inductive tkind :=
| KIntNeg | KIntPos | KFloatNeg | KFloatPos | KHex | KBinary | KString | KBool | KTimestamp
| KAND | KOR | KNOT | KFOLLOWEDBY | KLIKE | KMATCHES | KISSUPERSET | KISSUBSET | KEXISTS | KIN
| KSTART | KSTOP | KSECONDS | KWITHIN | KREPEATS | KTIMES
| KIdent | KIdentHyphen
| KEQ | KNEQ | KLT | KLE | KGT | KGE
| KCOLON | KDOT | KCOMMA | KRPAREN | KLPAREN | KRBRACK | KLBRACK | KASTERISK | KEOF.

Definition tkind_eqb (a b : tkind) : bool :=
  match a, b with
  | KIntNeg, KIntNeg | KIntPos, KIntPos | KFloatNeg, KFloatNeg | KFloatPos, KFloatPos
  | KHex, KHex | KBinary, KBinary | KString, KString | KBool, KBool | KTimestamp, KTimestamp
  | KAND, KAND | KOR, KOR | KNOT, KNOT | KFOLLOWEDBY, KFOLLOWEDBY | KLIKE, KLIKE
  | KMATCHES, KMATCHES | KISSUPERSET, KISSUPERSET | KISSUBSET, KISSUBSET | KEXISTS, KEXISTS
  | KIN, KIN | KSTART, KSTART | KSTOP, KSTOP | KSECONDS, KSECONDS | KWITHIN, KWITHIN
  | KREPEATS, KREPEATS | KTIMES, KTIMES | KIdent, KIdent | KIdentHyphen, KIdentHyphen
  | KEQ, KEQ | KNEQ, KNEQ | KLT, KLT | KLE, KLE | KGT, KGT | KGE, KGE
  | KCOLON, KCOLON | KDOT, KDOT | KCOMMA, KCOMMA | KRPAREN, KRPAREN | KLPAREN, KLPAREN
  | KRBRACK, KRBRACK | KLBRACK, KLBRACK | KASTERISK, KASTERISK | KEOF, KEOF => true
  | _, _ => false
  end.

(* a token: its lexer type and its text *)
Record token := Tok { tk : tkind; tx : ustring }.

Definition t_AND := Tok KAND (u "AND").
Definition t_OR := Tok KOR (u "OR").
Definition t_NOT := Tok KNOT (u "NOT").
Definition t_FOLLOWEDBY := Tok KFOLLOWEDBY (u "FOLLOWEDBY").
Definition t_LIKE := Tok KLIKE (u "LIKE").
Definition t_MATCHES := Tok KMATCHES (u "MATCHES").
Definition t_ISSUPERSET := Tok KISSUPERSET (u "ISSUPERSET").
Definition t_ISSUBSET := Tok KISSUBSET (u "ISSUBSET").
Definition t_EXISTS := Tok KEXISTS (u "EXISTS").
Definition t_IN := Tok KIN (u "IN").
Definition t_START := Tok KSTART (u "START").
Definition t_STOP := Tok KSTOP (u "STOP").
Definition t_SECONDS := Tok KSECONDS (u "SECONDS").
Definition t_WITHIN := Tok KWITHIN (u "WITHIN").
Definition t_REPEATS := Tok KREPEATS (u "REPEATS").
Definition t_TIMES := Tok KTIMES (u "TIMES").
Definition t_COLON := Tok KCOLON (u ":").
Definition t_DOT := Tok KDOT (u ".").
Definition t_COMMA := Tok KCOMMA (u ",").
Definition t_RPAREN := Tok KRPAREN (u ")").
Definition t_LPAREN := Tok KLPAREN (u "(").
Definition t_RBRACK := Tok KRBRACK (u "]").
Definition t_LBRACK := Tok KLBRACK (u "[").
Definition t_EOF := Tok KEOF (u "<EOF>").
Definition t_EQ := Tok KEQ (u "=").
Definition t_LT := Tok KLT (u "<").
Definition t_LE := Tok KLE (u "<=").
Definition t_GT := Tok KGT (u ">").
Definition t_GE := Tok KGE (u ">=").

Definition keywords : list ustring :=
  map u ["AND"; "OR"; "NOT"; "FOLLOWEDBY"; "LIKE"; "MATCHES"; "ISSUPERSET"; "ISSUBSET"; "EXISTS";
         "LAST"; "IN"; "START"; "STOP"; "SECONDS"; "true"; "false"; "WITHIN"; "REPEATS"; "TIMES"]%string.

(* ---- the lexer's token classes, as recognisers of a token's text ---- *)

(* IdentifierWithoutHyphen : [a-zA-Z_][a-zA-Z0-9_]*   (and not a keyword) *)
Definition ident_ok (s : ustring) : bool :=
  match s with
  | c :: r => is_alpha_ c && forallb (fun x => is_alpha_ x || is_digit x) r && negb (mem_ustr s keywords)
  | [] => false
  end.
(* IdentifierWithHyphen : [a-zA-Z_][a-zA-Z0-9_-]*  chosen by the lexer only when a hyphen occurs *)
Definition ident_hyphen_ok (s : ustring) : bool :=
  match s with
  | c :: r => is_alpha_ c && forallb (fun x => is_alpha_ x || is_digit x || (x =? c_hyphen)) r && mem_N c_hyphen r
  | [] => false
  end.

(* '0' | [1-9][0-9]* *)
Definition is_nil {A} (l : list A) : bool := match l with [] => true | _ => false end.

Definition int_body_ok (s : ustring) : bool :=
  match s with
  | c :: r => is_digit c && forallb is_digit r && (negb (c =? 48) || is_nil r)
  | [] => false
  end.
Definition intpos_ok (s : ustring) : bool :=
  match s with
  | c :: r => if c =? 43 then int_body_ok r else int_body_ok s
  | [] => false
  end.
Definition intneg_ok (s : ustring) : bool :=
  match s with
  | c :: r => (c =? 45) && int_body_ok r
  | [] => false
  end.

(* [0-9]* '.' [0-9]+ *)
Definition float_body_ok (s : ustring) : bool :=
  match split_at 46 s with
  | Some (a, b) => forallb is_digit a && forallb is_digit b && negb (is_nil b)
  | None => false
  end.
Definition floatpos_ok (s : ustring) : bool :=
  match s with
  | c :: r => if c =? 43 then float_body_ok r else float_body_ok s
  | [] => false
  end.
Definition floatneg_ok (s : ustring) : bool :=
  match s with
  | c :: r => (c =? 45) && float_body_ok r
  | [] => false
  end.

(* body of a StringLiteral:  ( ~['\\] | '\\\'' | '\\\\' )*  -- returns the
   unescaped text when the body is well formed *)
Fixpoint lex_body (s : ustring) : option ustring :=
  match s with
  | [] => Some []
  | c :: r =>
      if c =? c_bslash then
        match r with
        | d :: r' => if (d =? c_quote) || (d =? c_bslash)
                     then match lex_body r' with Some t => Some (d :: t) | None => None end
                     else None
        | [] => None
        end
      else if c =? c_quote then None
      else match lex_body r with Some t => Some (c :: t) | None => None end
  end.

(* StringLiteral : QUOTE body QUOTE; gives the string the literal denotes *)
Definition lex_string (s : ustring) : option ustring :=
  match s with
  | c :: r =>
      if c =? c_quote then
        match List.rev r with
        | q :: br => if q =? c_quote then lex_body (List.rev br) else None
        | [] => None
        end
      else None
  | [] => None
  end.
Definition string_ok (s : ustring) : bool := match lex_string s with Some _ => true | None => false end.

(* the unescaping a reader of a (well formed) literal body performs *)
Fixpoint unescape (s : ustring) : ustring :=
  match s with
  | [] => []
  | c :: r =>
      if c =? c_bslash then
        match r with
        | d :: r' => d :: unescape r'
        | [] => [c]
        end
      else c :: unescape r
  end.

(* HexLiteral : 'h' QUOTE TwoHexDigits* QUOTE *)
Fixpoint hex_pairs (s : ustring) : bool :=
  match s with
  | [] => true
  | a :: r => match r with b :: r' => is_hex a && is_hex b && hex_pairs r' | [] => false end
  end.
(* text = <letter> ' body '  : gives body *)
Definition prefixed_body (letter : N) (s : ustring) : option ustring :=
  match s with
  | a :: b :: r => if (a =? letter) && (b =? c_quote) && last_is r c_quote then Some (removelast r) else None
  | _ => None
  end.
Definition hex_ok (s : ustring) : bool :=
  match prefixed_body 104 s with Some body => hex_pairs body | None => false end.

(* BinaryLiteral : 'b' QUOTE quad* ( quad | 3 '=' | 2 '==' ) QUOTE *)
Fixpoint b64_groups (s : ustring) : bool :=
  match s with
  | a :: r1 =>
    match r1 with
    | b :: r2 =>
      match r2 with
      | c :: r3 =>
        match r3 with
        | d :: r4 =>
            is_b64 a && is_b64 b &&
            (match r4 with
             | [] => (is_b64 c && (is_b64 d || (d =? 61))) || ((c =? 61) && (d =? 61))
             | _ => is_b64 c && is_b64 d && b64_groups r4
             end)
        | [] => false
        end
      | [] => false
      end
    | [] => false
    end
  | [] => false
  end.
Definition binary_ok (s : ustring) : bool :=
  match prefixed_body 98 s with Some body => b64_groups body | None => false end.

Definition bool_ok (s : ustring) : bool := ustr_eqb s (u "true") || ustr_eqb s (u "false").

Definition d2 (a b : N) : N := (a - 48) * 10 + (b - 48).

(* TimestampLiteral:  t'YYYY-MM-DDTHH:MM:SS(.d+)?Z'  with the lexer's digit ranges *)
(* the fixed-width part  YYYY-MM-DDTHH:MM:SS  and what follows it *)
Record ts_fields := TsF { tf_y : N; tf_mo : N; tf_d : N; tf_h : N; tf_mi : N; tf_s : N; tf_rest : ustring }.
Definition ts_split (s : ustring) : option ts_fields :=
  match s with
  | y1 :: y2 :: y3 :: y4 :: c1 :: m1 :: m2 :: c2 :: dd1 :: dd2 :: c3 :: h1 :: h2 :: c4 :: mi1 :: mi2 :: c5 :: s1 :: s2 :: rest =>
      if forallb is_digit [y1; y2; y3; y4; m1; m2; dd1; dd2; h1; h2; mi1; mi2; s1; s2] &&
         (c1 =? 45) && (c2 =? 45) && (c3 =? 84) && (c4 =? 58) && (c5 =? 58)
      then Some (TsF (d2 y1 y2 * 100 + d2 y3 y4) (d2 m1 m2) (d2 dd1 dd2) (d2 h1 h2) (d2 mi1 mi2) (d2 s1 s2) rest)
      else None
  | _ => None
  end.
(* what follows the seconds:  Z  |  . digits+ Z   -- gives the fraction digits *)
Definition ts_frac (rest : ustring) : option (list N) :=
  match rest with
  | c :: fr =>
      if (c =? 90) && is_nil fr then Some []
      else if (c =? 46) && last_is fr 90 && forallb is_digit (removelast fr) && negb (is_nil (removelast fr))
           then Some (removelast fr) else None
  | [] => None
  end.
Definition ts_inner_ok (s : ustring) : bool :=
  match ts_split s with
  | Some f =>
      (1 <=? tf_mo f) && (tf_mo f <=? 12) && (1 <=? tf_d f) && (tf_d f <=? 31) &&
      (tf_h f <=? 23) && (tf_mi f <=? 59) && (tf_s f <=? 60) &&
      (match ts_frac (tf_rest f) with Some _ => true | None => false end)
  | None => false
  end.
Definition timestamp_ok (s : ustring) : bool :=
  match prefixed_body 116 s with Some body => ts_inner_ok body | None => false end.

(* is the text one the lexer gives this token type? *)
Definition token_ok (t : token) : bool :=
  match tk t with
  | KIntNeg => intneg_ok (tx t) | KIntPos => intpos_ok (tx t)
  | KFloatNeg => floatneg_ok (tx t) | KFloatPos => floatpos_ok (tx t)
  | KHex => hex_ok (tx t) | KBinary => binary_ok (tx t) | KString => string_ok (tx t)
  | KBool => bool_ok (tx t) | KTimestamp => timestamp_ok (tx t)
  | KIdent => ident_ok (tx t) | KIdentHyphen => ident_hyphen_ok (tx t)
  | KEQ => ustr_eqb (tx t) (u "=") || ustr_eqb (tx t) (u "==")
  | KNEQ => ustr_eqb (tx t) (u "!=") || ustr_eqb (tx t) (u "<>")
  | KLT => ustr_eqb (tx t) (u "<") | KLE => ustr_eqb (tx t) (u "<=")
  | KGT => ustr_eqb (tx t) (u ">") | KGE => ustr_eqb (tx t) (u ">=")
  | KASTERISK => ustr_eqb (tx t) (u "*")
  | _ => true    (* keyword and punctuation tokens are never carried by a tree *)
  end.

(* ------------------------------------------------------------------ *)
(** * The grammar as a datatype (concrete syntax trees) *)

(* objectPathComponent
     : <assoc=left> objectPathComponent objectPathComponent   # pathStep
     | '.' (IdentifierWithoutHyphen | StringLiteral)          # keyPathStep
     | LBRACK (IntPosLiteral|IntNegLiteral|ASTERISK) RBRACK   # indexPathStep *)
Inductive pstep :=
| KeyStep (name : token)
| IndexStep (idx : token).
Inductive opc :=
| OStep (s : pstep)
| OPathStep (l : opc) (r : pstep).

(* objectPath : objectType COLON firstPathComponent objectPathComponent? *)
Record objpath := ObjPath { op_type : token; op_first : token; op_rest : option opc }.

Inductive strop := SLike | SRegex | SIsSubset | SIsSuperset.

(* propTest (nine labelled alternatives; the four  objectPath NOT? KW StringLiteral
   alternatives share one constructor with a tag), comparisonExpressionAnd,
   comparisonExpression *)
Inductive proptest :=
| PTEqual (p : objpath) (nt : bool) (op : token) (l : token)      (* NOT? (EQ|NEQ) primitiveLiteral *)
| PTOrder (p : objpath) (nt : bool) (op : token) (l : token)      (* NOT? (GT|LT|GE|LE) orderableLiteral *)
| PTSet (p : objpath) (nt : bool) (elems : list token)            (* NOT? IN setLiteral *)
| PTStr (o : strop) (p : objpath) (nt : bool) (s : token)         (* NOT? LIKE|MATCHES|ISSUBSET|ISSUPERSET StringLiteral *)
| PTParen (e : cmpor)                                             (* LPAREN comparisonExpression RPAREN *)
| PTExists (nt : bool) (p : objpath)                              (* NOT? EXISTS objectPath   (2.1 only) *)
with cmpand :=
| CAndBase (p : proptest)
| CAnd (l : cmpand) (r : proptest)
with cmpor :=
| COrBase (a : cmpand)
| COr (l : cmpor) (r : cmpand).

Inductive qual :=
| QStartStop (t1 t2 : token)      (* START TimestampLiteral STOP TimestampLiteral *)
| QWithin (n : token)             (* WITHIN (IntPosLiteral|FloatPosLiteral) SECONDS *)
| QRepeat (n : token).            (* REPEATS IntPosLiteral TIMES *)

Inductive obs :=                  (* observationExpression *)
| OSimple (e : cmpor)             (* LBRACK comparisonExpression RBRACK *)
| OCompound (e : obsfb)           (* LPAREN observationExpressions RPAREN *)
| OQual (o : obs) (q : qual)      (* observationExpression (startStop|within|repeated)Qualifier *)
with obsand :=
| OAndBase (o : obs)
| OAnd (l : obsand) (r : obs)
with obsor :=
| OOrBase (a : obsand)
| OOr (l : obsor) (r : obsand)
with obsfb :=                     (* observationExpressions *)
| OFbBase (o : obsor)
| OFb (l : obsfb) (r : obsor).

Definition pattern := obsfb.      (* pattern : observationExpressions EOF *)

(* ---- yield ---- *)

Definition opt_not (nt : bool) : list token := if nt then [t_NOT] else [].

Definition yield_pstep (s : pstep) : list token :=
  match s with
  | KeyStep n => [t_DOT; n]
  | IndexStep i => [t_LBRACK; i; t_RBRACK]
  end.
Fixpoint yield_opc (c : opc) : list token :=
  match c with
  | OStep s => yield_pstep s
  | OPathStep l r => yield_opc l ++ yield_pstep r
  end.
Definition yield_path (p : objpath) : list token :=
  op_type p :: t_COLON :: op_first p :: match op_rest p with Some c => yield_opc c | None => [] end.

Fixpoint yield_set (l : list token) : list token :=
  match l with
  | [] => []
  | [x] => [x]
  | x :: r => x :: t_COMMA :: yield_set r
  end.

Definition strop_tok (o : strop) : token :=
  match o with SLike => t_LIKE | SRegex => t_MATCHES | SIsSubset => t_ISSUBSET | SIsSuperset => t_ISSUPERSET end.

Fixpoint yield_pt (p : proptest) : list token :=
  match p with
  | PTEqual p nt op l => yield_path p ++ opt_not nt ++ [op; l]
  | PTOrder p nt op l => yield_path p ++ opt_not nt ++ [op; l]
  | PTSet p nt es => yield_path p ++ opt_not nt ++ [t_IN; t_LPAREN] ++ yield_set es ++ [t_RPAREN]
  | PTStr o p nt s => yield_path p ++ opt_not nt ++ [strop_tok o; s]
  | PTParen e => [t_LPAREN] ++ yield_or e ++ [t_RPAREN]
  | PTExists nt p => opt_not nt ++ [t_EXISTS] ++ yield_path p
  end
with yield_and (a : cmpand) : list token :=
  match a with
  | CAndBase p => yield_pt p
  | CAnd l r => yield_and l ++ [t_AND] ++ yield_pt r
  end
with yield_or (o : cmpor) : list token :=
  match o with
  | COrBase a => yield_and a
  | COr l r => yield_or l ++ [t_OR] ++ yield_and r
  end.

Definition yield_qual (q : qual) : list token :=
  match q with
  | QStartStop a b => [t_START; a; t_STOP; b]
  | QWithin n => [t_WITHIN; n; t_SECONDS]
  | QRepeat n => [t_REPEATS; n; t_TIMES]
  end.

Fixpoint yield_obs (o : obs) : list token :=
  match o with
  | OSimple e => [t_LBRACK] ++ yield_or e ++ [t_RBRACK]
  | OCompound e => [t_LPAREN] ++ yield_fb e ++ [t_RPAREN]
  | OQual o q => yield_obs o ++ yield_qual q
  end
with yield_oand (a : obsand) : list token :=
  match a with
  | OAndBase o => yield_obs o
  | OAnd l r => yield_oand l ++ [t_AND] ++ yield_obs r
  end
with yield_oor (a : obsor) : list token :=
  match a with
  | OOrBase o => yield_oand o
  | OOr l r => yield_oor l ++ [t_OR] ++ yield_oand r
  end
with yield_fb (a : obsfb) : list token :=
  match a with
  | OFbBase o => yield_oor o
  | OFb l r => yield_fb l ++ [t_FOLLOWEDBY] ++ yield_oor r
  end.

Definition yield (p : pattern) : list token := yield_fb p.

(* ---- well-formedness: every carried token has the type the grammar asks
        for at its position and a text the lexer gives that type ---- *)

Definition kind_in (t : token) (ks : list tkind) : bool :=
  existsb (tkind_eqb (tk t)) ks && token_ok t.

Definition orderable_kinds := [KIntPos; KIntNeg; KFloatPos; KFloatNeg; KString; KBinary; KHex; KTimestamp].
Definition primitive_kinds := KBool :: orderable_kinds.

Definition wf_pstep (s : pstep) : bool :=
  match s with
  | KeyStep n => kind_in n [KIdent; KString]
  | IndexStep i => kind_in i [KIntPos; KIntNeg; KASTERISK]
  end.
Fixpoint wf_opc (c : opc) : bool :=
  match c with OStep s => wf_pstep s | OPathStep l r => wf_opc l && wf_pstep r end.
Definition wf_path (p : objpath) : bool :=
  kind_in (op_type p) [KIdent; KIdentHyphen] && kind_in (op_first p) [KIdent; KString] &&
  match op_rest p with Some c => wf_opc c | None => true end.

Fixpoint wf_pt (p : proptest) : bool :=
  match p with
  | PTEqual p _ op l => wf_path p && kind_in op [KEQ; KNEQ] && kind_in l primitive_kinds
  | PTOrder p _ op l => wf_path p && kind_in op [KGT; KLT; KGE; KLE] && kind_in l orderable_kinds
  | PTSet p _ es => wf_path p && forallb (fun t => kind_in t primitive_kinds) es
  | PTStr _ p _ s => wf_path p && kind_in s [KString]
  | PTParen e => wf_or e
  | PTExists _ p => wf_path p
  end
with wf_and (a : cmpand) : bool :=
  match a with CAndBase p => wf_pt p | CAnd l r => wf_and l && wf_pt r end
with wf_or (o : cmpor) : bool :=
  match o with COrBase a => wf_and a | COr l r => wf_or l && wf_and r end.

Definition wf_qual (q : qual) : bool :=
  match q with
  | QStartStop a b => kind_in a [KTimestamp] && kind_in b [KTimestamp]
  | QWithin n => kind_in n [KIntPos; KFloatPos]
  | QRepeat n => kind_in n [KIntPos]
  end.

Fixpoint wf_obs (o : obs) : bool :=
  match o with
  | OSimple e => wf_or e
  | OCompound e => wf_fb e
  | OQual o q => wf_obs o && wf_qual q
  end
with wf_oand (a : obsand) : bool :=
  match a with OAndBase o => wf_obs o | OAnd l r => wf_oand l && wf_obs r end
with wf_oor (a : obsor) : bool :=
  match a with OOrBase o => wf_oand o | OOr l r => wf_oor l && wf_oand r end
with wf_fb (a : obsfb) : bool :=
  match a with OFbBase o => wf_oor o | OFb l r => wf_fb l && wf_oor r end.

Definition wf (p : pattern) : bool := wf_fb p.

(* ------------------------------------------------------------------ *)
(** * The object model of stix2/patterns.py *)

Record tsval := TsVal { ts_y : N; ts_mo : N; ts_d : N; ts_h : N; ts_mi : N; ts_s : N; ts_us : list N }.
(* ts_us: the six digits of datetime.microsecond *)

(* a Python float that came from  [+-]?[0-9]*.[0-9]+ : sign, integer digits
   without leading zeros, fraction digits without trailing zeros.  Every digit
   is kept, which float() does only for at most 15 significant digits in the
   normal range: Spec/PatternSpec.v `fshort`, a conjunct of `sem` and of
   `aprint`, so the theorems are silent about longer floats.               *)
Record fval := FVal { f_neg : bool; f_ip : list N; f_fp : list N }.

Inductive aconst :=
| CString (v : ustring) (needs_quote : bool)      (* StringConstant.value, .needs_to_be_quoted *)
| CTimestamp (t : tsval)                          (* TimestampConstant.value *)
| CInt (z : Z)
| CFloat (f : fval)
| CBool (b : bool)
| CBinary (v : ustring)
| CHex (v : ustring)
| CList (l : list aconst).

Inductive aindex := IdxInt (z : Z) | IdxStr (s : ustring).
Inductive acomp :=
| ABasic (name : ustring)
| AList (name : ustring) (idx : aindex)
| ARef (name : ustring).
Record apath := APath { ap_type : ustring; ap_comps : list acomp }.

Inductive cmpcls := KlEq | KlGt | KlLt | KlGe | KlLe | KlIn | KlLike | KlMatches | KlSubset | KlSuperset.
Inductive obsop := OpAnd | OpOr | OpFb.

Inductive aqual :=
| AQRepeat (c : aconst)
| AQWithin (c : aconst)
| AQStartStop (a b : aconst).

Inductive aexpr :=
| ECmp (cls : cmpcls) (lhs : apath) (rhs : aconst) (neg : bool)
| EBool (isand : bool) (ops : list aexpr)          (* And/OrBooleanExpression *)
| EObs (e : aexpr)                                 (* ObservationExpression *)
| ECompound (op : obsop) (ops : list aexpr)        (* And/Or/FollowedByObservationExpression *)
| EParen (e : aexpr)                               (* ParentheticalExpression *)
| EQualified (e : aexpr) (q : aqual).              (* QualifiedObservationExpression *)

Inductive exn := ValueError | TypeError | AttributeError | IndexError | ParseException | Junk.
(* Junk: a value that is not an instance of the model classes (a Python list,
   a TerminalNode, None) was stored inside a model object *)
Inductive result (A : Type) := Ok (a : A) | Raise (e : exn).
Arguments Ok {A} a.
Arguments Raise {A} e.

Definition bind {A B} (r : result A) (k : A -> result B) : result B :=
  match r with Ok a => k a | Raise e => Raise e end.
Notation "x <- r ;; k" := (bind r (fun x => k)) (at level 61, r at next level, right associativity).

(* ---- object paths given as text to the model classes ---- *)

(* str.split(sep) for a one-character separator *)
Fixpoint split_all (c : N) (s : ustring) : list ustring :=
  match s with
  | [] => [[]]
  | x :: r =>
      if x =? c then [] :: split_all c r
      else match split_all c r with h :: t => (x :: h) :: t | [] => [[x]] end
  end.

(* str.endswith("_ref") *)
Definition ends_with_ref (s : ustring) : bool := ustr_prefix (u "fer_") (List.rev s).

(* _ObjectPathComponent.create_ObjectPathComponent on a str:
     endswith("_ref") -> Reference;  find("[") != -1 -> split("[") : List(parse1[0], parse1[1][:-1]);  else Basic *)
Definition create_component_str (s : ustring) : acomp :=
  if ends_with_ref s then ARef s
  else match split_all 91 s with
       | name :: seg :: _ => AList name (IdxStr (removelast seg))
       | _ => ABasic s
       end.

(* ObjectPath.make_object_path(lhs):  parts = lhs.split(":");  ObjectPath(parts[0], parts[1].split(".")) *)
Definition make_object_path (lhs : ustring) : result apath :=
  match split_all 58 lhs with
  | ty :: p :: _ => Ok (APath ty (map create_component_str (split_all 46 p)))
  | _ => Raise IndexError
  end.

(* ---- variants ---- *)
Record cfg := Cfg {
  neg_eq : bool; neg_order : bool; neg_set : bool; neg_like : bool;
  neg_regex : bool; neg_subset : bool; neg_superset : bool;
  within_float : bool;       (* WithinQualifier accepts a FloatConstant *)
  float_pos : bool;          (* FloatConstant.__str__ never uses exponent notation *)
  key_quote : bool;          (* quote_if_needed quotes every name that is not an identifier of the grammar *)
  hex_empty : bool;          (* HexConstant accepts h'' *)
  rt_append : bool;          (* a third and later operand of an AND/OR chain updates root_types *)
  star_quoted : bool }.      (* a quoted key step followed by [*] keeps its quoted text as the name *)
Definition pinned : cfg := Cfg false false false false false false false false false false false false false.
Definition repaired : cfg := Cfg true true true true true true true true true true true true true.

(* ------------------------------------------------------------------ *)
(** * Constants from tokens (visitTerminal and the constructors it calls) *)

Definition digs (l : list N) : bool := forallb is_digit l.

(* float(text) *)
Definition py_float_body (neg : bool) (s : ustring) : option fval :=
  match split_at 46 s with
  | Some (a, b) =>
      if digs a && digs b && negb (is_nil a && is_nil b)
      then Some (FVal neg (strip0 a) (rstrip0 b)) else None
  | None => None
  end.
Definition py_float (s : ustring) : option fval :=
  let (neg, r) := split_sign s in py_float_body neg r.

Definition is_leap (y : N) : bool :=
  ((y mod 4 =? 0) && negb (y mod 100 =? 0)) || (y mod 400 =? 0).
Definition days_in_month (y m : N) : N :=
  if (m =? 2) then (if is_leap y then 29 else 28)
  else if (m =? 4) || (m =? 6) || (m =? 9) || (m =? 11) then 30 else 31.

Definition pad_right6 (l : list N) : list N := firstn 6 (l ++ [48; 48; 48; 48; 48; 48]).

(* datetime.strptime(value, "%Y-%m-%dT%H:%M:%S[.%f]Z") on the texts a
   TimestampLiteral can carry; None = ValueError *)
Definition py_strptime (s : ustring) : option tsval :=
  match ts_split s with
  | Some f =>
      match ts_frac (tf_rest f) with
      | Some fr =>
          if (N.of_nat (List.length fr) <=? 6) &&
             (1 <=? tf_y f) && (1 <=? tf_mo f) && (tf_mo f <=? 12) && (1 <=? tf_d f) &&
             (tf_d f <=? days_in_month (tf_y f) (tf_mo f)) &&
             (tf_h f <=? 23) && (tf_mi f <=? 59) && (tf_s f <=? 59)
          then Some (TsVal (tf_y f) (tf_mo f) (tf_d f) (tf_h f) (tf_mi f) (tf_s f) (pad_right6 fr)) else None
      | None => None
      end
  | None => None
  end.

(* HexConstant(text, from_parse_tree=True):  re.match("^h'(([a-fA-F0-9]{2})+)'$") *)
Definition mk_hex_from_tree (g : cfg) (s : ustring) : result aconst :=
  match prefixed_body 104 s with
  | Some body => if (hex_empty g || negb (is_nil body)) && hex_pairs body then Ok (CHex body) else Raise ValueError
  | None => Raise ValueError
  end.

(* BinaryConstant(text, from_parse_tree=True):  re.match("^b'(.+)'$"), then b64decode *)
Definition mk_binary_from_tree (s : ustring) : result aconst :=
  match prefixed_body 98 s with
  | Some body => if b64_groups body then Ok (CBinary body) else Raise ValueError
  | None => Raise ValueError
  end.

(* ---- plain Python values handed to the model classes: make_constant ---- *)

Inductive pyval := PyInt (z : Z) | PyFloat (f : fval) | PyBool (b : bool) | PyStr (s : ustring) | PyList (l : list pyval).

(* make_constant(value): TimestampConstant(value) if that works (a str in timestamp form), else by type:
   str, bool (before int), int, float, list *)
Fixpoint make_constant (v : pyval) : aconst :=
  match v with
  | PyStr s => match py_strptime s with Some t => CTimestamp t | None => CString s true end
  | PyBool b => CBool b
  | PyInt z => CInt z
  | PyFloat f => CFloat f
  | PyList l => CList (map make_constant l)
  end.

Inductive vres :=
| VNone
| VTok (t : token)
| VConst (c : aconst)
| VComp (c : acomp)
| VPath (p : apath)
| VExpr (e : aexpr) (rt : option (list ustring))     (* .root_types when the object has the attribute *)
| VQual (q : aqual)
| VList (l : list vres).

(* visitTerminal *)
Definition visit_terminal (g : cfg) (t : token) : result vres :=
  match tk t with
  | KIntPos | KIntNeg =>
      match py_int (tx t) with Some z => Ok (VConst (CInt z)) | None => Raise ValueError end
  | KFloatPos | KFloatNeg =>
      match py_float (tx t) with Some f => Ok (VConst (CFloat f)) | None => Raise ValueError end
  | KHex => c <- mk_hex_from_tree g (tx t) ;; Ok (VConst c)
  | KBinary => c <- mk_binary_from_tree (tx t) ;; Ok (VConst c)
  | KString =>
      if starts_with_quote (tx t) && last_is (tx t) c_quote
      then Ok (VConst (CString (slice_1_m1 (tx t)) false))
      else Raise ParseException
  | KBool =>
      if ustr_eqb (tx t) (u "true") then Ok (VConst (CBool true))
      else if ustr_eqb (tx t) (u "false") then Ok (VConst (CBool false))
      else Raise ValueError
  | KTimestamp =>
      let value := match tx t with c :: _ => if c =? 116 then slice_2_m1 (tx t) else tx t | [] => tx t end in
      match py_strptime value with Some v => Ok (VConst (CTimestamp v)) | None => Raise ValueError end
  | _ => Ok (VTok t)
  end.

(* ------------------------------------------------------------------ *)
(** * Printing: every __str__ of patterns.py

    The result is a list of items: tokens and the single spaces the format
    strings put between them.  `text_of` is str(); `toks_of` is what a lexer
    sees.  A token's text is exactly what Python prints; its kind is the
    kind that text has when it is lexically valid.                          *)

Inductive item := T (t : token) | Sp.

Definition text_of (l : list item) : ustring :=
  flat_map (fun i => match i with T t => tx t | Sp => [32] end) l.
Fixpoint toks_of (l : list item) : list token :=
  match l with [] => [] | T t :: r => t :: toks_of r | Sp :: r => toks_of r end.

(* escape_quotes_and_backslashes:  s.replace('\\','\\\\').replace("'","\\'") *)
Definition escape (s : ustring) : ustring :=
  flat_map (fun c => if c =? c_bslash then [c_bslash; c_bslash]
                     else if c =? c_quote then [c_bslash; c_quote] else [c]) s.

(* StringConstant.__str__ *)
Definition print_string_const (v : ustring) (needs_quote : bool) : ustring :=
  [c_quote] ++ (if needs_quote then escape v else v) ++ [c_quote].
Definition print_string (s : ustring) : ustring := print_string_const s true.

(* quote_if_needed on a str *)
Definition quote_if_needed (g : cfg) (x : ustring) : ustring :=
  if key_quote g then
    (* not x.startswith("'") and (not identifier or keyword) *)
    if negb (starts_with_quote x) && negb (ident_ok x) then [c_quote] ++ x ++ [c_quote] else x
  else
    if mem_N c_hyphen x && negb (starts_with_quote x) then [c_quote] ++ x ++ [c_quote] else x.

Definition pad2 (n : N) : ustring := [48 + n / 10 mod 10; 48 + n mod 10].
Definition pad4 (n : N) : ustring := [48 + n / 1000 mod 10; 48 + n / 100 mod 10; 48 + n / 10 mod 10; 48 + n mod 10].

(* format_datetime for precision ANY; the year is "{:04d}".format(year) *)
Definition print_ts (t : tsval) : ustring :=
  u "t'" ++ pad4 (ts_y t) ++ [45] ++ pad2 (ts_mo t) ++ [45] ++ pad2 (ts_d t) ++ [84] ++
  pad2 (ts_h t) ++ [58] ++ pad2 (ts_mi t) ++ [58] ++ pad2 (ts_s t) ++
  (match rstrip0 (ts_us t) with [] => [] | fr => 46 :: fr end) ++ [90; 39].

Definition or0 (l : list N) : list N := match l with [] => [48] | _ => l end.

(* repr(float): positional for -4 < decpt <= 16, else scientific *)
Definition f_decpt (f : fval) : Z :=
  match f_ip f, f_fp f with
  | [], [] => 1%Z
  | [], fp => (- Z.of_nat (count0 fp))%Z
  | ip, _ => Z.of_nat (List.length ip)
  end.
Definition float_plain (f : fval) : bool := ((-4 <? f_decpt f) && (f_decpt f <=? 16))%Z.
Definition print_float (g : cfg) (f : fval) : ustring :=
  (if f_neg f then [45] else []) ++
  if float_pos g || float_plain f then or0 (f_ip f) ++ [46] ++ or0 (f_fp f)
  else
    let sig := rstrip0 (strip0 (f_ip f ++ f_fp f)) in
    let e := (f_decpt f - 1)%Z in
    let ea := dec_of_N (Z.abs_N e) in
    let ea2 := if Nat.eqb (List.length ea) 1 then 48 :: ea else ea in
    (match sig with
     | [] => [48]
     | [d] => [d]
     | d :: r => d :: 46 :: r
     end) ++ [101] ++ (if (e <? 0)%Z then [45] else [43]) ++ ea2.

Definition num_kind (s : ustring) (pos neg : tkind) : tkind :=
  match s with c :: _ => if c =? 45 then neg else pos | [] => pos end.

Fixpoint sep_items (sep : list item) (l : list (list item)) : list item :=
  match l with
  | [] => []
  | [x] => x
  | x :: r => x ++ sep ++ sep_items sep r
  end.

Fixpoint pr_const (g : cfg) (c : aconst) : list item :=
  match c with
  | CString v q => [T (Tok KString (print_string_const v q))]
  | CTimestamp t => [T (Tok KTimestamp (print_ts t))]
  | CInt z => [T (Tok (num_kind (dec_of_Z z) KIntPos KIntNeg) (dec_of_Z z))]
  | CFloat f => [T (Tok (num_kind (print_float g f) KFloatPos KFloatNeg) (print_float g f))]
  | CBool b => [T (Tok KBool (if b then u "true" else u "false"))]
  | CBinary v => [T (Tok KBinary (u "b'" ++ v ++ [c_quote]))]
  | CHex v => [T (Tok KHex (u "h'" ++ v ++ [c_quote]))]
  | CList l => [T t_LPAREN] ++ sep_items [T t_COMMA; Sp] (map (pr_const g) l) ++ [T t_RPAREN]
  end.

(* str(x) as one text (used where the visitor calls str() on a constant) *)
Definition str_const (g : cfg) (c : aconst) : ustring := text_of (pr_const g c).

Definition name_tok (g : cfg) (name : ustring) : token :=
  let s := quote_if_needed g name in
  Tok (if starts_with_quote s then KString else KIdent) s.

Definition idx_tok (i : aindex) : token :=
  match i with
  | IdxInt z => Tok (num_kind (dec_of_Z z) KIntPos KIntNeg) (dec_of_Z z)
  | IdxStr s => Tok (if ustr_eqb s (u "*") then KASTERISK else num_kind s KIntPos KIntNeg) s
  end.

(* _ObjectPathComponent.__str__, ListObjectPathComponent.__str__ *)
Definition pr_comp (g : cfg) (c : acomp) : list item :=
  match c with
  | ABasic n | ARef n => [T (name_tok g n)]
  | AList n i => [T (name_tok g n); T t_LBRACK; T (idx_tok i); T t_RBRACK]
  end.

Definition type_tok (s : ustring) : token :=
  Tok (if mem_N c_hyphen s then KIdentHyphen else KIdent) s.

(* ObjectPath.__str__ *)
Definition pr_path (g : cfg) (p : apath) : list item :=
  [T (type_tok (ap_type p)); T t_COLON] ++ sep_items [T t_DOT] (map (pr_comp g) (ap_comps p)).

(* the operator a _ComparisonExpression stores *)
Definition cls_operator (c : cmpcls) (rhs : aconst) : token :=
  match c with
  | KlEq => match rhs with CList _ => t_IN | _ => t_EQ end
  | KlGt => t_GT | KlLt => t_LT | KlGe => t_GE | KlLe => t_LE
  | KlIn => t_IN | KlLike => t_LIKE | KlMatches => t_MATCHES
  | KlSubset => t_ISSUBSET | KlSuperset => t_ISSUPERSET
  end.

Definition obsop_tok (o : obsop) : token :=
  match o with OpAnd => t_AND | OpOr => t_OR | OpFb => t_FOLLOWEDBY end.

Definition pr_qual (g : cfg) (q : aqual) : list item :=
  match q with
  | AQRepeat c => [T t_REPEATS; Sp] ++ pr_const g c ++ [Sp; T t_TIMES]
  | AQWithin c => [T t_WITHIN; Sp] ++ pr_const g c ++ [Sp; T t_SECONDS]
  | AQStartStop a b => [T t_START; Sp] ++ pr_const g a ++ [Sp; T t_STOP; Sp] ++ pr_const g b
  end.

Fixpoint pr (g : cfg) (e : aexpr) : list item :=
  match e with
  | ECmp cls lhs rhs neg =>
      pr_path g lhs ++ [Sp] ++ (if neg then [T t_NOT; Sp] else []) ++ [T (cls_operator cls rhs); Sp] ++ pr_const g rhs
  | EBool isand ops => sep_items [Sp; T (if isand then t_AND else t_OR); Sp] (map (pr g) ops)
  | EObs x =>
      match x with
      | EObs _ | ECompound _ _ => pr g x
      | _ => [T t_LBRACK] ++ pr g x ++ [T t_RBRACK]
      end
  | ECompound op ops => sep_items [Sp; T (obsop_tok op); Sp] (map (pr g) ops)
  | EParen x => [T t_LPAREN] ++ pr g x ++ [T t_RPAREN]
  | EQualified x q => pr g x ++ [Sp] ++ pr_qual g q
  end.

Definition print (g : cfg) (e : aexpr) : list token := toks_of (pr g e).
Definition print_text (g : cfg) (e : aexpr) : ustring := text_of (pr g e).

(* ------------------------------------------------------------------ *)
(** * The visitor *)

(* aggregateResult:  if aggregate: append  elif nextResult: aggregate=[nextResult].
   Every visit result except None is truthy, so leading Nones vanish and a
   node all of whose children gave None has children = None.                *)
Fixpoint aggregate (rs : list vres) : option (list vres) :=
  match rs with
  | [] => None
  | VNone :: r => aggregate r
  | _ => Some rs
  end.

Fixpoint seq_results (l : list (result vres)) : result (list vres) :=
  match l with
  | [] => Ok []
  | r :: rest => x <- r ;; xs <- seq_results rest ;; Ok (x :: xs)
  end.

(* children = self.visitChildren(ctx); any use of None (len, []) is a TypeError *)
Definition visit_children (l : list (result vres)) : result (list vres) :=
  rs <- seq_results l ;;
  match aggregate rs with Some cs => Ok cs | None => Raise TypeError end.

(* children[i] *)
Definition child (cs : list vres) (i : nat) : result vres :=
  match nth_error cs i with Some v => Ok v | None => Raise IndexError end.

Definition len_gt (cs : list vres) (n : nat) : bool := Nat.ltb n (List.length cs).

(* x.symbol.type / x.getText() need a TerminalNode *)
Definition as_tok (v : vres) : result token :=
  match v with VTok t => Ok t | _ => Raise AttributeError end.

(* --- constructors of patterns.py --- *)

Definition set_inter (a b : list ustring) : list ustring := filter (fun x => mem_ustr x b) a.
Definition set_union (a b : list ustring) : list ustring := a ++ b.

(* _BooleanExpression.__init__ *)
Fixpoint bool_rts (isand : bool) (acc : option (list ustring)) (ops : list vres) : result (list ustring) :=
  match ops with
  | [] => match acc with Some r => Ok r | None => Raise AttributeError end
  | VExpr _ (Some r) :: rest =>
      let acc' := match acc with
                  | None => r
                  | Some a => if isand then set_inter a r else set_union a r
                  end in
      match acc' with
      | [] => Raise ValueError
      | _ => bool_rts isand (Some acc') rest
      end
  | _ => Raise AttributeError          (* arg.root_types on an object without it *)
  end.

Definition expr_of (v : vres) : result aexpr :=
  match v with VExpr e _ => Ok e | _ => Raise Junk end.

Fixpoint exprs_of (l : list vres) : result (list aexpr) :=
  match l with
  | [] => Ok []
  | v :: r => e <- expr_of v ;; es <- exprs_of r ;; Ok (e :: es)
  end.

Definition mk_bool (isand : bool) (ops : list vres) : result vres :=
  rt <- bool_rts isand None ops ;;
  es <- exprs_of ops ;;
  Ok (VExpr (EBool isand es) (Some rt)).

(* ListConstant.__init__ / make_constant on what the visitor can pass *)
Fixpoint consts_of (l : list vres) : result (list aconst) :=
  match l with
  | [] => Ok []
  | VConst c :: r => cs <- consts_of r ;; Ok (c :: cs)
  | _ => Raise ValueError
  end.

(* _ComparisonExpression.__init__ *)
Definition mk_cmp (cls : cmpcls) (lhs rhs : vres) (neg : bool) : result vres :=
  match lhs with
  | VPath p =>
      match rhs with
      | VConst c => Ok (VExpr (ECmp cls p c neg) (Some [ap_type p]))
      | _ => Raise ValueError           (* make_constant: "Unable to create a constant" *)
      end
  | _ => Raise AttributeError           (* ObjectPath.make_object_path(lhs): lhs.split *)
  end.

(* _ObjectPathComponent.create_ObjectPathComponent *)
Definition create_component (v : vres) : result acomp :=
  match v with
  | VComp c => Ok c
  | VConst (CString s _) => Ok (ABasic s)
  | _ => Raise AttributeError           (* component_name.endswith *)
  end.

Fixpoint create_components (l : list vres) : result (list acomp) :=
  match l with
  | [] => Ok []
  | v :: r => c <- create_component v ;; cs <- create_components r ;; Ok (c :: cs)
  end.

Definition mk_qual_int (mk : aconst -> aqual) (allow_float : bool) (v : vres) : result vres :=
  match v with
  | VConst (CInt z) => Ok (VQual (mk (CInt z)))
  | VConst (CFloat f) => if allow_float then Ok (VQual (mk (CFloat f))) else Raise ValueError
  | _ => Raise ValueError
  end.

Definition mk_startstop (a b : vres) : result vres :=
  let conv v := match v with
                | VConst (CTimestamp t) => Ok (CTimestamp t)
                | VConst (CString s _) => Ok (CString s true)
                | _ => Raise ValueError
                end in
  x <- conv a ;; y <- conv b ;; Ok (VQual (AQStartStop x y)).

(* --- visitor methods: each takes the list `children` --- *)

Definition m_first (cs : list vres) : result vres := child cs 0.     (* return children[0] *)

(* visitObservationExpressions / Or / And *)
Definition m_obs_binary (op : obsop) (cs : list vres) : result vres :=
  if Nat.eqb (List.length cs) 1 then child cs 0
  else a <- child cs 0 ;; b <- child cs 2 ;;
       x <- expr_of a ;; y <- expr_of b ;;
       Ok (VExpr (ECompound op [x; y]) None).

(* visitObservationExpressionSimple *)
Definition m_obs_simple (cs : list vres) : result vres :=
  a <- child cs 1 ;; x <- expr_of a ;; Ok (VExpr (EObs x) None).

Definition rt_of (v : vres) : option (list ustring) :=
  match v with VExpr _ r => r | _ => None end.

(* visitObservationExpressionCompound *)
Definition m_obs_compound (cs : list vres) : result vres :=
  a <- child cs 0 ;;
  match a with
  | VTok (Tok KLPAREN _) => b <- child cs 1 ;; x <- expr_of b ;; Ok (VExpr (EParen x) (rt_of b))
  | _ => x <- expr_of a ;; Ok (VExpr (EObs x) None)
  end.

(* visitObservationExpressionWithin / Repeated / StartStop *)
Definition m_obs_qualified (cs : list vres) : result vres :=
  a <- child cs 0 ;; b <- child cs 1 ;;
  x <- expr_of a ;;
  match b with VQual q => Ok (VExpr (EQualified x q) None) | _ => Raise Junk end.

Definition rt_of_v (v : vres) : option (list ustring) :=
  match v with VExpr _ r => r | _ => None end.

(* visitComparisonExpression *)
(* x.root_types of a model object (None: the object has no such attribute) *)
Fixpoint expr_rt (e : aexpr) : option (list ustring) :=
  match e with
  | ECmp _ lhs _ _ => Some [ap_type lhs]
  | EParen x => expr_rt x
  | EBool isand ops =>
      (fix go (acc : option (list ustring)) (l : list aexpr) : option (list ustring) :=
         match l with
         | [] => acc
         | x :: r =>
             match expr_rt x with
             | Some t => go (Some (match acc with
                                   | None => t
                                   | Some a => if isand then set_inter a t else set_union a t
                                   end)) r
             | None => None
             end
         end) None ops
  | _ => None
  end.

(* _BooleanExpression.__init__ on a list of model objects *)
Fixpoint bool_rts_e (isand : bool) (acc : option (list ustring)) (ops : list aexpr) : result (list ustring) :=
  match ops with
  | [] => match acc with Some r => Ok r | None => Raise AttributeError end
  | e :: rest =>
      match expr_rt e with
      | Some r =>
          let acc' := match acc with
                      | None => r
                      | Some a => if isand then set_inter a r else set_union a r
                      end in
          match acc' with
          | [] => Raise ValueError
          | _ => bool_rts_e isand (Some acc') rest
          end
      | None => Raise AttributeError
      end
  end.

(* pinned:    children[0].operands.append(children[2]); return children[0]
   repaired:  return instantiate("<newop>BooleanExpression", children[0].operands + [children[2]])
              -- the node is rebuilt, root_types computed from all operands *)
Definition append_operand (g : cfg) (newop : bool) (isand : bool) (ops : list aexpr) (rt : option (list ustring)) (b : vres) : result vres :=
  y <- expr_of b ;;
  if rt_append g then
    r <- bool_rts_e newop None (ops ++ [y]) ;;
    Ok (VExpr (EBool newop (ops ++ [y])) (Some r))
  else Ok (VExpr (EBool isand (ops ++ [y])) rt).

Definition m_cmp_or (g : cfg) (cs : list vres) : result vres :=
  if Nat.eqb (List.length cs) 1 then child cs 0
  else
    a <- child cs 0 ;; o <- child cs 1 ;; b <- child cs 2 ;;
    match a with
    | VExpr (EBool isand ops) rt =>
        t <- as_tok o ;;
        if ustr_eqb (tx (if isand then t_AND else t_OR)) (tx t)
        then append_operand g false isand ops rt b
        else mk_bool false [a; b]
    | _ => mk_bool false [a; b]
    end.

(* visitComparisonExpressionAnd *)
Definition m_cmp_and (g : cfg) (cs : list vres) : result vres :=
  if Nat.eqb (List.length cs) 1 then child cs 0
  else
    a <- child cs 0 ;; b <- child cs 2 ;;
    match a with
    | VExpr (EBool isand ops) rt => append_operand g true isand ops rt b
    | _ => mk_bool true [a; b]
    end.

(* children[3 if len(children) > 3 else 2] *)
Definition rhs_child (cs : list vres) : result vres := child cs (if len_gt cs 3 then 3 else 2).

(* visitPropTestEqual *)
Definition m_pt_equal (g : cfg) (cs : list vres) : result vres :=
  lhs <- child cs 0 ;;
  if neg_eq g then
    let has_not := len_gt cs 3 in
    o <- child cs (if has_not then 2 else 1) ;; t <- as_tok o ;;
    rhs <- rhs_child cs ;;
    mk_cmp KlEq lhs rhs (xorb (negb (tkind_eqb (tk t) KEQ)) has_not)
  else
    o <- child cs 1 ;; t <- as_tok o ;;                (* operator = children[1].symbol.type *)
    rhs <- rhs_child cs ;;
    mk_cmp KlEq lhs rhs (negb (tkind_eqb (tk t) KEQ)).

(* visitPropTestOrder *)
Definition m_pt_order (g : cfg) (cs : list vres) : result vres :=
  let has_not := len_gt cs 3 in
  o <- child cs (if neg_order g && has_not then 2 else 1) ;; t <- as_tok o ;;
  let neg := neg_order g && has_not in
  match tk t with
  | KGT => lhs <- child cs 0 ;; rhs <- rhs_child cs ;; mk_cmp KlGt lhs rhs neg
  | KLT => lhs <- child cs 0 ;; rhs <- rhs_child cs ;; mk_cmp KlLt lhs rhs neg
  | KGE => lhs <- child cs 0 ;; rhs <- rhs_child cs ;; mk_cmp KlGe lhs rhs neg
  | KLE => lhs <- child cs 0 ;; rhs <- rhs_child cs ;; mk_cmp KlLe lhs rhs neg
  | _ => Ok VNone                                       (* falls off the end of the method *)
  end.

(* visitPropTestSet / Like / Regex / IsSubset / IsSuperset *)
Definition m_pt_simple (cls : cmpcls) (pass_not : bool) (cs : list vres) : result vres :=
  lhs <- child cs 0 ;; rhs <- rhs_child cs ;;
  mk_cmp cls lhs rhs (pass_not && len_gt cs 3).

(* visitPropTestParen *)
Definition m_pt_paren (cs : list vres) : result vres :=
  a <- child cs 1 ;; x <- expr_of a ;; Ok (VExpr (EParen x) (rt_of a)).

(* visitPropTestExists is not defined by STIXPatternVisitorForSTIX2: the
   generated base class returns visitChildren(ctx), the list itself *)
Definition m_pt_exists (cs : list vres) : result vres := Ok (VList cs).

(* visitStartStopQualifier (the 2.0 string check cannot fire: both are TimestampLiterals) *)
Definition m_startstop (cs : list vres) : result vres :=
  a <- child cs 1 ;; b <- child cs 3 ;; mk_startstop a b.
Definition m_within (g : cfg) (cs : list vres) : result vres := a <- child cs 1 ;; mk_qual_int AQWithin (within_float g) a.
Definition m_repeat (cs : list vres) : result vres := a <- child cs 1 ;; mk_qual_int AQRepeat false a.

(* collapse_lists *)
Fixpoint collapse_lists (l : list vres) : list vres :=
  match l with
  | [] => []
  | VList x :: r => x ++ collapse_lists r
  | v :: r => v :: collapse_lists r
  end.

(* current.property_name *)
Definition property_name (v : vres) : result ustring :=
  match v with
  | VComp (ABasic n) | VComp (AList n _) | VComp (ARef n) => Ok n
  | _ => Raise AttributeError
  end.

(* str(current) *)
Definition py_str (g : cfg) (v : vres) : result ustring :=
  match v with
  | VConst c => Ok (str_const g c)
  | VTok t => Ok (tx t)
  | VComp c => Ok (text_of (pr_comp g c))
  | _ => Raise Junk
  end.

(* the while loop of visitObjectPath *)
Fixpoint path_loop (g : cfg) (flat : list vres) : result (list vres) :=
  match flat with
  | [] => Ok []
  | cur :: tl =>
      match tl with
      | [] => Ok [cur]
      | nxt :: rest =>
          match nxt with
          | VTok t =>
              n <- (if star_quoted g then (match cur with VComp (ABasic n) => Ok n | _ => py_str g cur end)
                    else property_name cur) ;;
              r <- path_loop g rest ;;
              Ok (VComp (AList n (IdxStr (tx t))) :: r)
          | VConst (CInt z) =>
              n <- (match cur with VComp (ABasic n) => Ok n | _ => py_str g cur end) ;;
              r <- path_loop g rest ;;
              Ok (VComp (AList n (IdxInt z)) :: r)
          | _ => r <- path_loop g tl ;; Ok (cur :: r)
          end
      end
  end.

(* visitObjectPath *)
Definition m_object_path (g : cfg) (cs : list vres) : result vres :=
  pp <- path_loop g (collapse_lists (skipn 2 cs)) ;;
  ty <- child cs 0 ;; t <- as_tok ty ;;
  comps <- create_components pp ;;
  Ok (VPath (APath (tx t) comps)).

(* visitFirstPathComponent *)
Definition m_first_component (g : cfg) (cs : list vres) : result vres :=
  a <- child cs 0 ;;
  step <- (match a with VTok t => Ok (tx t) | _ => py_str g a end) ;;
  Ok (VComp (ABasic step)).

(* visitIndexPathStep *)
Definition m_index_step (cs : list vres) : result vres := child cs 1.

(* visitPathStep *)
Definition m_path_step (cs : list vres) : result vres := Ok (VList (collapse_lists cs)).

(* visitKeyPathStep *)
Definition m_key_step (cs : list vres) : result vres :=
  a <- child cs 1 ;;
  match a with
  | VConst (CString _ _) => Ok a
  | _ => t <- as_tok a ;; Ok (VComp (ABasic (tx t)))
  end.

(* visitSetLiteral: ListConstant(remove_terminal_nodes(children)) *)
Definition m_set_literal (cs : list vres) : result vres :=
  l <- consts_of (filter (fun v => match v with VTok _ => false | _ => true end) cs) ;;
  Ok (VConst (CList l)).

(* --- the traversal: which children each parse-tree node has --- *)

Definition tokv (t : token) : result vres := Ok (VTok t).

Definition v_literal (g : cfg) (t : token) : result vres :=
  (* primitiveLiteral : orderableLiteral | BoolLiteral ; orderableLiteral : <one token> *)
  match tk t with
  | KBool => cs <- visit_children [visit_terminal g t] ;; m_first cs
  | _ => cs <- visit_children [ (cs' <- visit_children [visit_terminal g t] ;; m_first cs') ] ;; m_first cs
  end.

Definition v_orderable (g : cfg) (t : token) : result vres :=
  cs <- visit_children [visit_terminal g t] ;; m_first cs.

Definition v_pstep (g : cfg) (s : pstep) : result vres :=
  match s with
  | KeyStep n => cs <- visit_children [tokv t_DOT; visit_terminal g n] ;; m_key_step cs
  | IndexStep i => cs <- visit_children [tokv t_LBRACK; visit_terminal g i; tokv t_RBRACK] ;; m_index_step cs
  end.

Fixpoint v_opc (g : cfg) (c : opc) : result vres :=
  match c with
  | OStep s => v_pstep g s
  | OPathStep l r => cs <- visit_children [v_opc g l; v_pstep g r] ;; m_path_step cs
  end.

Definition v_path (g : cfg) (p : objpath) : result vres :=
  cs <- visit_children
          ([ (cs' <- visit_children [visit_terminal g (op_type p)] ;; m_first cs');      (* visitObjectType *)
             tokv t_COLON;
             (cs' <- visit_children [visit_terminal g (op_first p)] ;; m_first_component g cs') ]
           ++ match op_rest p with Some c => [v_opc g c] | None => [] end) ;;
  m_object_path g cs.

Fixpoint v_set_children (g : cfg) (l : list token) : list (result vres) :=
  match l with
  | [] => []
  | [x] => [v_literal g x]
  | x :: r => v_literal g x :: tokv t_COMMA :: v_set_children g r
  end.

Definition v_set (g : cfg) (es : list token) : result vres :=
  cs <- visit_children ([tokv t_LPAREN] ++ v_set_children g es ++ [tokv t_RPAREN]) ;; m_set_literal cs.

Definition optnot_children (nt : bool) : list (result vres) := if nt then [tokv t_NOT] else [].

Definition strop_cls (o : strop) : cmpcls :=
  match o with SLike => KlLike | SRegex => KlMatches | SIsSubset => KlSubset | SIsSuperset => KlSuperset end.
Definition strop_flag (g : cfg) (o : strop) : bool :=
  match o with SLike => neg_like g | SRegex => neg_regex g | SIsSubset => neg_subset g | SIsSuperset => neg_superset g end.

Fixpoint v_pt (g : cfg) (p : proptest) : result vres :=
  match p with
  | PTEqual p nt op l =>
      cs <- visit_children ([v_path g p] ++ optnot_children nt ++ [tokv op; v_literal g l]) ;; m_pt_equal g cs
  | PTOrder p nt op l =>
      cs <- visit_children ([v_path g p] ++ optnot_children nt ++ [tokv op; v_orderable g l]) ;; m_pt_order g cs
  | PTSet p nt es =>
      cs <- visit_children ([v_path g p] ++ optnot_children nt ++ [tokv t_IN; v_set g es]) ;; m_pt_simple KlIn (neg_set g) cs
  | PTStr o p nt s =>
      cs <- visit_children ([v_path g p] ++ optnot_children nt ++ [tokv (strop_tok o); visit_terminal g s]) ;;
      m_pt_simple (strop_cls o) (strop_flag g o) cs
  | PTParen e =>
      cs <- visit_children [tokv t_LPAREN; v_or g e; tokv t_RPAREN] ;; m_pt_paren cs
  | PTExists nt p =>
      cs <- visit_children (optnot_children nt ++ [tokv t_EXISTS; v_path g p]) ;; m_pt_exists cs
  end
with v_and (g : cfg) (a : cmpand) : result vres :=
  match a with
  | CAndBase p => cs <- visit_children [v_pt g p] ;; m_cmp_and g cs
  | CAnd l r =>
      (* the right operand is a comparisonExpressionAnd node with the single child propTest *)
      cs <- visit_children [v_and g l; tokv t_AND; (cs' <- visit_children [v_pt g r] ;; m_cmp_and g cs')] ;; m_cmp_and g cs
  end
with v_or (g : cfg) (o : cmpor) : result vres :=
  match o with
  | COrBase a => cs <- visit_children [v_and g a] ;; m_cmp_or g cs
  | COr l r =>
      cs <- visit_children [v_or g l; tokv t_OR; (cs' <- visit_children [v_and g r] ;; m_cmp_or g cs')] ;; m_cmp_or g cs
  end.

Definition v_qual (g : cfg) (q : qual) : result vres :=
  match q with
  | QStartStop a b => cs <- visit_children [tokv t_START; visit_terminal g a; tokv t_STOP; visit_terminal g b] ;; m_startstop cs
  | QWithin n => cs <- visit_children [tokv t_WITHIN; visit_terminal g n; tokv t_SECONDS] ;; m_within g cs
  | QRepeat n => cs <- visit_children [tokv t_REPEATS; visit_terminal g n; tokv t_TIMES] ;; m_repeat cs
  end.

Fixpoint v_obs (g : cfg) (o : obs) : result vres :=
  match o with
  | OSimple e => cs <- visit_children [tokv t_LBRACK; v_or g e; tokv t_RBRACK] ;; m_obs_simple cs
  | OCompound e => cs <- visit_children [tokv t_LPAREN; v_fb g e; tokv t_RPAREN] ;; m_obs_compound cs
  | OQual o q => cs <- visit_children [v_obs g o; v_qual g q] ;; m_obs_qualified cs
  end
with v_oand (g : cfg) (a : obsand) : result vres :=
  match a with
  | OAndBase o => cs <- visit_children [v_obs g o] ;; m_obs_binary OpAnd cs
  | OAnd l r =>
      cs <- visit_children [v_oand g l; tokv t_AND; (cs' <- visit_children [v_obs g r] ;; m_obs_binary OpAnd cs')] ;;
      m_obs_binary OpAnd cs
  end
with v_oor (g : cfg) (a : obsor) : result vres :=
  match a with
  | OOrBase o => cs <- visit_children [v_oand g o] ;; m_obs_binary OpOr cs
  | OOr l r =>
      cs <- visit_children [v_oor g l; tokv t_OR; (cs' <- visit_children [v_oand g r] ;; m_obs_binary OpOr cs')] ;;
      m_obs_binary OpOr cs
  end
with v_fb (g : cfg) (a : obsfb) : result vres :=
  match a with
  | OFbBase o => cs <- visit_children [v_oor g o] ;; m_obs_binary OpFb cs
  | OFb l r =>
      cs <- visit_children [v_fb g l; tokv t_FOLLOWEDBY; (cs' <- visit_children [v_oor g r] ;; m_obs_binary OpFb cs')] ;;
      m_obs_binary OpFb cs
  end.

(* visitPattern: children = [observationExpressions, EOF]; return children[0];
   create_pattern_object returns that value, whatever it is *)
Definition visit (g : cfg) (p : pattern) : result aexpr :=
  cs <- visit_children [v_fb g p; tokv t_EOF] ;;
  r <- m_first cs ;;
  expr_of r.

(* ------------------------------------------------------------------ *)
(** * unvisit: from the object model back to a parse tree

    Every function is structural on the object model.  The result is the
    tightest grammar level the value fits; `lift_*` wrap it into the level a
    context needs (total upwards, partial downwards: a looser expression in a
    tighter position has no parse tree without parentheses).                *)

Definition tok_of_const (g : cfg) (c : aconst) : option token :=
  match pr_const g c with [T t] => Some t | _ => None end.

Fixpoint toks_of_consts (g : cfg) (l : list aconst) : option (list token) :=
  match l with
  | [] => Some []
  | c :: r => match tok_of_const g c, toks_of_consts g r with
              | Some t, Some ts => Some (t :: ts) | _, _ => None end
  end.

Definition pstep_of_idx (i : aindex) : pstep := IndexStep (idx_tok i).

(* the path steps one component contributes after the first position *)
Definition psteps_of_comp (g : cfg) (c : acomp) : list pstep :=
  match c with
  | ABasic n | ARef n => [KeyStep (name_tok g n)]
  | AList n i => [KeyStep (name_tok g n); pstep_of_idx i]
  end.

Fixpoint opc_snoc (acc : opc) (l : list pstep) : opc :=
  match l with [] => acc | s :: r => opc_snoc (OPathStep acc s) r end.
Definition opc_of_steps (l : list pstep) : option opc :=
  match l with [] => None | s :: r => Some (opc_snoc (OStep s) r) end.

Definition unv_path (g : cfg) (p : apath) : option objpath :=
  match ap_comps p with
  | [] => None
  | c :: r =>
      let first_steps := match c with
                         | ABasic n | ARef n => (name_tok g n, [])
                         | AList n i => (name_tok g n, [pstep_of_idx i])
                         end in
      Some (ObjPath (type_tok (ap_type p)) (fst first_steps)
                    (opc_of_steps (snd first_steps ++ flat_map (psteps_of_comp g) r)))
  end.

Inductive anycmp := AC_pt (p : proptest) | AC_and (a : cmpand) | AC_or (o : cmpor).
Inductive anyobs := AO_obs (o : obs) | AO_and (a : obsand) | AO_or (o : obsor) | AO_fb (f : obsfb).
Inductive ucst := UCmp (c : anycmp) | UObs (o : anyobs).

Definition lift_or (c : anycmp) : cmpor :=
  match c with AC_pt p => COrBase (CAndBase p) | AC_and a => COrBase a | AC_or o => o end.
Definition lift_and (c : anycmp) : option cmpand :=
  match c with AC_pt p => Some (CAndBase p) | AC_and a => Some a | AC_or _ => None end.
Definition lift_pt (c : anycmp) : option proptest :=
  match c with AC_pt p => Some p | _ => None end.

Definition lift_fb (o : anyobs) : obsfb :=
  match o with
  | AO_obs x => OFbBase (OOrBase (OAndBase x)) | AO_and x => OFbBase (OOrBase x)
  | AO_or x => OFbBase x | AO_fb x => x
  end.
Definition lift_oor (o : anyobs) : option obsor :=
  match o with
  | AO_obs x => Some (OOrBase (OAndBase x)) | AO_and x => Some (OOrBase x) | AO_or x => Some x | AO_fb _ => None
  end.
Definition lift_oand (o : anyobs) : option obsand :=
  match o with AO_obs x => Some (OAndBase x) | AO_and x => Some x | _ => None end.
Definition lift_obs (o : anyobs) : option obs :=
  match o with AO_obs x => Some x | _ => None end.

Definition as_cmp (x : option ucst) : option anycmp := match x with Some (UCmp c) => Some c | _ => None end.
Definition as_obs (x : option ucst) : option anyobs := match x with Some (UObs c) => Some c | _ => None end.

Definition unv_cmp (g : cfg) (cls : cmpcls) (lhs : apath) (rhs : aconst) (neg : bool) : option proptest :=
  match unv_path g lhs with
  | None => None
  | Some p =>
      match cls, rhs with
      | KlEq, CList l | KlIn, CList l =>
          match toks_of_consts g l with Some ts => Some (PTSet p neg ts) | None => None end
      | KlEq, _ => match tok_of_const g rhs with Some t => Some (PTEqual p neg t_EQ t) | None => None end
      | KlGt, _ => match tok_of_const g rhs with Some t => Some (PTOrder p neg t_GT t) | None => None end
      | KlLt, _ => match tok_of_const g rhs with Some t => Some (PTOrder p neg t_LT t) | None => None end
      | KlGe, _ => match tok_of_const g rhs with Some t => Some (PTOrder p neg t_GE t) | None => None end
      | KlLe, _ => match tok_of_const g rhs with Some t => Some (PTOrder p neg t_LE t) | None => None end
      | KlLike, _ => match tok_of_const g rhs with Some t => Some (PTStr SLike p neg t) | None => None end
      | KlMatches, _ => match tok_of_const g rhs with Some t => Some (PTStr SRegex p neg t) | None => None end
      | KlSubset, _ => match tok_of_const g rhs with Some t => Some (PTStr SIsSubset p neg t) | None => None end
      | KlSuperset, _ => match tok_of_const g rhs with Some t => Some (PTStr SIsSuperset p neg t) | None => None end
      | KlIn, _ => None
      end
  end.

Definition unv_qual (g : cfg) (q : aqual) : option qual :=
  match q with
  | AQRepeat c => match tok_of_const g c with Some t => Some (QRepeat t) | None => None end
  | AQWithin c => match tok_of_const g c with Some t => Some (QWithin t) | None => None end
  | AQStartStop a b => match tok_of_const g a, tok_of_const g b with
                       | Some x, Some y => Some (QStartStop x y) | _, _ => None end
  end.

(* left-nested chains from operand lists:  x1 OP x2 OP ... *)
Fixpoint chain_and (acc : cmpand) (l : list (option anycmp)) : option cmpand :=
  match l with
  | [] => Some acc
  | Some c :: r => match lift_pt c with Some p => chain_and (CAnd acc p) r | None => None end
  | None :: _ => None
  end.
Fixpoint chain_or (acc : cmpor) (l : list (option anycmp)) : option cmpor :=
  match l with
  | [] => Some acc
  | Some c :: r => match lift_and c with Some a => chain_or (COr acc a) r | None => None end
  | None :: _ => None
  end.
Fixpoint chain_oand (acc : obsand) (l : list (option anyobs)) : option obsand :=
  match l with
  | [] => Some acc
  | Some c :: r => match lift_obs c with Some a => chain_oand (OAnd acc a) r | None => None end
  | None :: _ => None
  end.
Fixpoint chain_oor (acc : obsor) (l : list (option anyobs)) : option obsor :=
  match l with
  | [] => Some acc
  | Some c :: r => match lift_oand c with Some a => chain_oor (OOr acc a) r | None => None end
  | None :: _ => None
  end.
Fixpoint chain_fb (acc : obsfb) (l : list (option anyobs)) : option obsfb :=
  match l with
  | [] => Some acc
  | Some c :: r => match lift_oor c with Some a => chain_fb (OFb acc a) r | None => None end
  | None :: _ => None
  end.

Fixpoint unv (g : cfg) (e : aexpr) : option ucst :=
  match e with
  | ECmp cls lhs rhs neg =>
      match unv_cmp g cls lhs rhs neg with Some p => Some (UCmp (AC_pt p)) | None => None end
  | EBool isand ops =>
      match map (fun x => as_cmp (unv g x)) ops with
      | Some first :: ((_ :: _) as rest) =>
          if isand then
            match lift_and first with
            | Some a => match chain_and a rest with Some r => Some (UCmp (AC_and r)) | None => None end
            | None => None
            end
          else
            match chain_or (lift_or first) rest with Some r => Some (UCmp (AC_or r)) | None => None end
      | _ => None
      end
  | EObs x =>
      match as_cmp (unv g x) with
      | Some c => Some (UObs (AO_obs (OSimple (lift_or c))))
      | None => None
      end
  | ECompound op ops =>
      match map (fun x => as_obs (unv g x)) ops with
      | Some first :: ((_ :: _) as rest) =>
          match op with
          | OpAnd => match lift_oand first with
                     | Some a => match chain_oand a rest with Some r => Some (UObs (AO_and r)) | None => None end
                     | None => None end
          | OpOr => match lift_oor first with
                    | Some a => match chain_oor a rest with Some r => Some (UObs (AO_or r)) | None => None end
                    | None => None end
          | OpFb => match chain_fb (lift_fb first) rest with Some r => Some (UObs (AO_fb r)) | None => None end
          end
      | _ => None
      end
  | EParen x =>
      match unv g x with
      | Some (UCmp c) => Some (UCmp (AC_pt (PTParen (lift_or c))))
      | Some (UObs o) => Some (UObs (AO_obs (OCompound (lift_fb o))))
      | None => None
      end
  | EQualified x q =>
      match as_obs (unv g x), unv_qual g q with
      | Some o, Some q' => match lift_obs o with Some o' => Some (UObs (AO_obs (OQual o' q'))) | None => None end
      | _, _ => None
      end
  end.

Definition unvisit (g : cfg) (e : aexpr) : option pattern :=
  match unv g e with Some (UObs o) => Some (lift_fb o) | _ => None end.

(* ------------------------------------------------------------------ *)
(** * Meaning: what a pattern says, as one explicit tree

    Every comparison with its operator AND its negation, typed constants,
    path steps, qualifiers, and the grouping.  Spelling is abstracted
    (`==` / `=`, `+5` / `5`, `!=` / `NOT =`, a quoted or unquoted key, escapes
    in a string); nothing else is.  Unparenthesised chains of one operator
    are n-ary (that is how the text reads); parentheses are kept.            *)

Inductive mconst :=
| MStr (s : ustring) | MTs (t : tsval) | MInt (z : Z) | MFloat (f : fval) | MBool (b : bool)
| MBin (s : ustring) | MHex (s : ustring) | MList (l : list mconst) | MBadConst.

Inductive mstep := MKey (name : ustring) | MIndex (z : Z) | MStar | MBadStep.
Record mpath := MPath { mp_type : ustring; mp_steps : list mstep }.

Inductive mop := MoEq | MoGt | MoLt | MoGe | MoLe | MoIn | MoLike | MoMatches | MoSubset | MoSuperset | MoExists.

Inductive mqual := MRepeat (c : mconst) | MWithin (c : mconst) | MStartStop (a b : mconst) | MBadQual.

Inductive mexpr :=
| MCmp (p : mpath) (op : mop) (neg : bool) (c : mconst)
| MExists (p : mpath) (neg : bool)
| MBoolOp (isand : bool) (ops : list mexpr)      (* AND / OR of comparisons *)
| MObs (e : mexpr)                                (* [ ... ] *)
| MObsOp (op : obsop) (ops : list mexpr)          (* AND / OR / FOLLOWEDBY of observations *)
| MParen (e : mexpr)
| MQualified (e : mexpr) (q : mqual)
| MBad.

(* ---- of tokens / parse trees ---- *)

(* read directly off the token text (independent of visitTerminal) *)
Definition m_ts (s : ustring) : mconst :=
  match ts_split s with
  | Some f =>
      match ts_frac (tf_rest f) with
      | Some fr => MTs (TsVal (tf_y f) (tf_mo f) (tf_d f) (tf_h f) (tf_mi f) (tf_s f) (rstrip0 fr))
      | None => MBadConst
      end
  | None => MBadConst
  end.

Definition m_tok (t : token) : mconst :=
  match tk t with
  | KString => MStr (unescape (slice_1_m1 (tx t)))
  | KTimestamp => match prefixed_body 116 (tx t) with Some b => m_ts b | None => MBadConst end
  | KIntPos | KIntNeg => match py_int (tx t) with Some z => MInt z | None => MBadConst end
  | KFloatPos | KFloatNeg => match py_float (tx t) with Some f => MFloat f | None => MBadConst end
  | KBool => if ustr_eqb (tx t) (u "true") then MBool true
             else if ustr_eqb (tx t) (u "false") then MBool false else MBadConst
  | KBinary => match prefixed_body 98 (tx t) with Some b => MBin b | None => MBadConst end
  | KHex => match prefixed_body 104 (tx t) with Some b => MHex b | None => MBadConst end
  | _ => MBadConst
  end.

(* a name as written: quoted (a string literal) or an identifier *)
Definition m_name_text (s : ustring) : ustring :=
  if starts_with_quote s then unescape (slice_1_m1 s) else s.

Definition m_pstep (s : pstep) : mstep :=
  match s with
  | KeyStep n => MKey (m_name_text (tx n))
  | IndexStep i =>
      match tk i with
      | KASTERISK => MStar
      | _ => match py_int (tx i) with Some z => MIndex z | None => MBadStep end
      end
  end.
Fixpoint m_opc (c : opc) : list mstep :=
  match c with OStep s => [m_pstep s] | OPathStep l r => m_opc l ++ [m_pstep r] end.
Definition m_path (p : objpath) : mpath :=
  MPath (tx (op_type p))
        (MKey (m_name_text (tx (op_first p))) :: match op_rest p with Some c => m_opc c | None => [] end).

Definition m_order_op (t : token) : mop :=
  match tk t with KGT => MoGt | KLT => MoLt | KGE => MoGe | _ => MoLe end.
Definition m_strop (o : strop) : mop :=
  match o with SLike => MoLike | SRegex => MoMatches | SIsSubset => MoSubset | SIsSuperset => MoSuperset end.

Definition one_or {A} (mk : list A -> A) (l : list A) : A := match l with [x] => x | _ => mk l end.

Fixpoint mc_pt (p : proptest) : mexpr :=
  match p with
  | PTEqual p nt op l => MCmp (m_path p) MoEq (xorb nt (negb (tkind_eqb (tk op) KEQ))) (m_tok l)
  | PTOrder p nt op l => MCmp (m_path p) (m_order_op op) nt (m_tok l)
  | PTSet p nt es => MCmp (m_path p) MoIn nt (MList (map m_tok es))
  | PTStr o p nt s => MCmp (m_path p) (m_strop o) nt (m_tok s)
  | PTParen e => MParen (one_or (MBoolOp false) (mc_or_list e))
  | PTExists nt p => MExists (m_path p) nt
  end
with mc_and_list (a : cmpand) : list mexpr :=
  match a with
  | CAndBase p => [mc_pt p]
  | CAnd l r => mc_and_list l ++ [mc_pt r]
  end
with mc_or_list (o : cmpor) : list mexpr :=
  match o with
  | COrBase a => [one_or (MBoolOp true) (mc_and_list a)]
  | COr l r => mc_or_list l ++ [one_or (MBoolOp true) (mc_and_list r)]
  end.
Definition mc_and (a : cmpand) : mexpr := one_or (MBoolOp true) (mc_and_list a).
Definition mc_or (o : cmpor) : mexpr := one_or (MBoolOp false) (mc_or_list o).

Definition mc_qual (q : qual) : mqual :=
  match q with
  | QStartStop a b => MStartStop (m_tok a) (m_tok b)
  | QWithin n => MWithin (m_tok n)
  | QRepeat n => MRepeat (m_tok n)
  end.

Fixpoint mc_obs (o : obs) : mexpr :=
  match o with
  | OSimple e => MObs (mc_or e)
  | OCompound e => MParen (one_or (MObsOp OpFb) (mc_fb_list e))
  | OQual o q => MQualified (mc_obs o) (mc_qual q)
  end
with mc_oand_list (a : obsand) : list mexpr :=
  match a with OAndBase o => [mc_obs o] | OAnd l r => mc_oand_list l ++ [mc_obs r] end
with mc_oor_list (a : obsor) : list mexpr :=
  match a with
  | OOrBase o => [one_or (MObsOp OpAnd) (mc_oand_list o)]
  | OOr l r => mc_oor_list l ++ [one_or (MObsOp OpAnd) (mc_oand_list r)]
  end
with mc_fb_list (a : obsfb) : list mexpr :=
  match a with
  | OFbBase o => [one_or (MObsOp OpOr) (mc_oor_list o)]
  | OFb l r => mc_fb_list l ++ [one_or (MObsOp OpOr) (mc_oor_list r)]
  end.

Definition meaning_cst (p : pattern) : mexpr := one_or (MObsOp OpFb) (mc_fb_list p).

(* ---- of the object model ---- *)

Fixpoint ma_const (c : aconst) : mconst :=
  match c with
  | CString v q => MStr (if q then v else unescape v)
  | CTimestamp t => MTs (TsVal (ts_y t) (ts_mo t) (ts_d t) (ts_h t) (ts_mi t) (ts_s t) (rstrip0 (ts_us t)))
  | CInt z => MInt z
  | CFloat f => MFloat f
  | CBool b => MBool b
  | CBinary v => MBin v
  | CHex v => MHex v
  | CList l => MList (map ma_const l)
  end.

(* a component's name is read the way it prints *)
Definition ma_name (g : cfg) (n : ustring) : ustring := m_name_text (quote_if_needed g n).
Definition ma_idx (i : aindex) : mstep :=
  match i with
  | IdxInt z => MIndex z
  | IdxStr s => if ustr_eqb s (u "*") then MStar
                else match py_int s with Some z => MIndex z | None => MBadStep end
  end.
Definition ma_comp (g : cfg) (c : acomp) : list mstep :=
  match c with
  | ABasic n | ARef n => [MKey (ma_name g n)]
  | AList n i => [MKey (ma_name g n); ma_idx i]
  end.
Definition ma_path (g : cfg) (p : apath) : mpath := MPath (ap_type p) (flat_map (ma_comp g) (ap_comps p)).

Definition ma_op (cls : cmpcls) (rhs : aconst) : mop :=
  match cls with
  | KlEq => match rhs with CList _ => MoIn | _ => MoEq end
  | KlGt => MoGt | KlLt => MoLt | KlGe => MoGe | KlLe => MoLe | KlIn => MoIn
  | KlLike => MoLike | KlMatches => MoMatches | KlSubset => MoSubset | KlSuperset => MoSuperset
  end.

Definition ma_qual (q : aqual) : mqual :=
  match q with
  | AQRepeat c => MRepeat (ma_const c)
  | AQWithin c => MWithin (ma_const c)
  | AQStartStop a b => MStartStop (ma_const a) (ma_const b)
  end.

(* an operand list reads as the text it prints to: a first operand that is
   an unparenthesised chain of the same operator continues the chain *)
Definition splice_first (same : mexpr -> option (list mexpr)) (l : list mexpr) : list mexpr :=
  match l with
  | x :: r => match same x with Some xs => xs ++ r | None => l end
  | [] => []
  end.

Fixpoint ma (g : cfg) (e : aexpr) : mexpr :=
  match e with
  | ECmp cls lhs rhs neg => MCmp (ma_path g lhs) (ma_op cls rhs) neg (ma_const rhs)
  | EBool isand ops =>
      MBoolOp isand (splice_first (fun m => match m with
                                            | MBoolOp b xs => if Bool.eqb b isand then Some xs else None
                                            | _ => None end) (map (ma g) ops))
  | EObs x => match x with EObs _ | ECompound _ _ => ma g x | _ => MObs (ma g x) end
  | ECompound op ops =>
      MObsOp op (splice_first (fun m => match m with
                                        | MObsOp o xs => if match o, op with
                                                            | OpAnd, OpAnd | OpOr, OpOr | OpFb, OpFb => true
                                                            | _, _ => false end
                                                         then Some xs else None
                                        | _ => None end) (map (ma g) ops))
  | EParen x => MParen (ma g x)
  | EQualified x q => MQualified (ma g x) (ma_qual q)
  end.

Definition meaning_ast (g : cfg) (e : aexpr) : mexpr := ma g e.

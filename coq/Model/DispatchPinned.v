(* Model/DispatchPinned.v -- a FROZEN excerpt of the call-site table as
   tr_callsites.py produced it from the pinned tree (commit 93b42bf), before
   the repair "fix: pass version by keyword from the memory and filesystem
   stores to parse()".  It is the defective variant of DESIGN 7 / C14: the two
   store call sites  parse(x, allow_custom, version)  bind `version` to the
   parser's third parameter, `interoperability`.  Hand-copied, never
   regenerated; used only for the `_refuted` theorems.  No proofs here.      *)
From Coq Require Import String List.
From V Require Import Model.CallTable Model.Dispatch.
Import ListNotations. Open Scope string_scope.

Definition pinned_signatures : list fsig := [
  mkSig "filesystem._check_object_from_file" (KFunc) [("query", None); ("filepath", None); ("allow_custom", None); ("version", None); ("encoding", None)] "" "" [];
  mkSig "memory.MemorySink.__init__" (KMethod "memory.MemorySink") [("self", None); ("stix_data", Some (Const "None")); ("allow_custom", Some (Const "True")); ("version", Some (Const "None")); ("_store", Some (Const "False"))] "" "" [];
  mkSig "memory.MemorySink.add" (KMethod "memory.MemorySink") [("self", None); ("stix_data", None); ("version", Some (Const "None"))] "" "" [];
  mkSig "memory._add" (KFunc) [("store", None); ("stix_data", None); ("allow_custom", Some (Const "True")); ("version", Some (Const "None"))] "" "" [];
  mkSig "parsing.dict_to_stix2" (KFunc) [("stix_dict", None); ("allow_custom", Some (Const "False")); ("interoperability", Some (Const "False")); ("version", Some (Const "None"))] "" "" ["version"];
  mkSig "parsing.parse" (KFunc) [("data", None); ("allow_custom", Some (Const "False")); ("interoperability", Some (Const "False")); ("version", Some (Const "None"))] "" "" []
].

Definition pinned_callsites : list site := [
  mkSite "parsing.parse>parsing.dict_to_stix2#1" "parsing.parse" "parsing.dict_to_stix2" VDirect
    [("stix_dict", (Other "local obj" ["allow_custom"; "data"; "interoperability"; "version"])); ("allow_custom", (FromParam "allow_custom")); ("interoperability", (FromParam "interoperability")); ("version", (FromParam "version"))]
    "40" "dict_to_stix2(obj, allow_custom, interoperability, version)";
  mkSite "memory._add>memory._add#1" "memory._add" "memory._add" VDirect
    [("store", (FromParam "store")); ("stix_data", (Other "local stix_obj" ["allow_custom"; "stix_data"; "version"])); ("allow_custom", (FromParam "allow_custom")); ("version", (FromParam "version"))]
    "35" "_add(store, stix_obj, allow_custom, version)";
  mkSite "memory._add>memory._add#2" "memory._add" "memory._add" VDirect
    [("store", (FromParam "store")); ("stix_data", (Other "local stix_obj" ["allow_custom"; "stix_data"; "version"])); ("allow_custom", (FromParam "allow_custom")); ("version", (FromParam "version"))]
    "40" "_add(store, stix_obj, allow_custom, version)";
  mkSite "memory._add>parsing.parse#1" "memory._add" "parsing.parse" VDirect
    [("data", (FromParam "stix_data")); ("allow_custom", (FromParam "allow_custom")); ("interoperability", (FromParam "version"))]
    "47" "parse(stix_data, allow_custom, version)";
  mkSite "memory.MemorySink.__init__>memory._add#1" "memory.MemorySink.__init__" "memory._add" VDirect
    [("store", (Other "self" [])); ("stix_data", (FromParam "stix_data")); ("allow_custom", (FromParam "allow_custom")); ("version", (FromParam "version"))]
    "184" "_add(self, stix_data, allow_custom, version)";
  mkSite "memory.MemorySink.add>memory._add#1" "memory.MemorySink.add" "memory._add" VDirect
    [("store", (Other "self" [])); ("stix_data", (FromParam "stix_data")); ("allow_custom", (FromAttr "allow_custom")); ("version", (FromParam "version"))]
    "187" "_add(self, stix_data, self.allow_custom, version)";
  mkSite "filesystem._check_object_from_file>parsing.parse#1" "filesystem._check_object_from_file" "parsing.parse" VDirect
    [("data", (Other "local stix_json" ["encoding"; "filepath"])); ("allow_custom", (FromParam "allow_custom")); ("interoperability", (FromParam "version"))]
    "322" "parse(stix_json, allow_custom, version)"
].

Definition pinned_attr_assigns : list attr_assign := [
  mkAttr "memory.MemorySink" "__init__" "allow_custom" (FromParam "allow_custom")
].

Definition pinned_defective : table :=
  mkTable pinned_signatures pinned_callsites pinned_attr_assigns [] [] [] [] "".

(* ---- frozen excerpt of the TAXII source as of /repo 9bfe19c: all_versions calls
   self.query(query=query, _composite_filters=..) WITHOUT version=, then parses again with it ---- *)
Definition pinned_taxii_signatures : list fsig := [
  mkSig "parsing.dict_to_stix2" (KFunc) [("stix_dict", None); ("allow_custom", Some (Const "False")); ("interoperability", Some (Const "False")); ("version", Some (Const "None"))] "" "" ["version"];
  mkSig "parsing.parse" (KFunc) [("data", None); ("allow_custom", Some (Const "False")); ("interoperability", Some (Const "False")); ("version", Some (Const "None"))] "" "" [];
  mkSig "taxii.TAXIICollectionSource.__init__" (KMethod "taxii.TAXIICollectionSource") [("self", None); ("collection", None); ("allow_custom", Some (Const "True")); ("items_per_page", Some (Const "5000"))] "" "" [];
  mkSig "taxii.TAXIICollectionSource.all_versions" (KMethod "taxii.TAXIICollectionSource") [("self", None); ("stix_id", None); ("version", Some (Const "None")); ("_composite_filters", Some (Const "None"))] "" "" [];
  mkSig "taxii.TAXIICollectionSource.query" (KMethod "taxii.TAXIICollectionSource") [("self", None); ("query", Some (Const "None")); ("version", Some (Const "None")); ("_composite_filters", Some (Const "None"))] "" "" []
].

Definition pinned_taxii_callsites : list site := [
  mkSite "parsing.parse>parsing.dict_to_stix2#1" "parsing.parse" "parsing.dict_to_stix2" VDirect
    [("stix_dict", (Other "local obj" ["allow_custom"; "data"; "interoperability"; "version"])); ("allow_custom", (FromParam "allow_custom")); ("interoperability", (FromParam "interoperability")); ("version", (FromParam "version"))]
    "40" "dict_to_stix2(obj, allow_custom, interoperability, version)";
  mkSite "taxii.TAXIICollectionSource.all_versions>taxii.TAXIICollectionSource.query#1" "taxii.TAXIICollectionSource.all_versions" "taxii.TAXIICollectionSource.query" VSelf
    [("query", (Other "local query" ["stix_id"])); ("_composite_filters", (FromParam "_composite_filters"))]
    "252" "self.query(query=query, _composite_filters=_composite_filters)";
  mkSite "taxii.TAXIICollectionSource.all_versions>parsing.parse#1" "taxii.TAXIICollectionSource.all_versions" "parsing.parse" VDirect
    [("data", (Other "local stix_obj" ["_composite_filters"; "self.allow_custom"; "self.query"; "stix_id"; "version"])); ("allow_custom", (FromAttr "allow_custom")); ("version", (FromParam "version"))]
    "255" "parse(stix_obj, allow_custom=self.allow_custom, version=version)";
  mkSite "taxii.TAXIICollectionSource.query>parsing.parse#1" "taxii.TAXIICollectionSource.query" "parsing.parse" VDirect
    [("data", (Other "local stix_obj_dict" ["query"])); ("allow_custom", (FromAttr "allow_custom")); ("version", (FromParam "version"))]
    "328" "parse(stix_obj_dict, allow_custom=self.allow_custom, version=version)"
].

Definition pinned_taxii_attr_assigns : list attr_assign := [
  mkAttr "taxii.TAXIICollectionSource" "__init__" "allow_custom" (FromParam "allow_custom")
].

Definition pinned_taxii : table :=
  mkTable pinned_taxii_signatures pinned_taxii_callsites pinned_taxii_attr_assigns [] [] [] [] "".

(* the one-line repair, applied to ANY table: the call site all_versions -> self.query also binds
   version <- the caller's version (no change when it already binds it) *)
Definition taxii_query_site : string := "taxii.TAXIICollectionSource.all_versions>taxii.TAXIICollectionSource.query#1".
Definition with_query_version (T : table) : table :=
  mkTable (t_sigs T)
          (map (fun s => if String.eqb (s_id s) taxii_query_site
                         then match assoc "version" (s_binds s) with
                              | Some _ => s
                              | None => mkSite (s_id s) (s_caller s) (s_callee s) (s_via s)
                                               (s_binds s ++ [("version", FromParam "version")]) (s_line s) (s_text s)
                              end
                         else s) (t_sites T))
          (t_attrs T) (t_fwds T) (t_comps T) (t_bases T) (t_aliases T) (t_wbenv T).

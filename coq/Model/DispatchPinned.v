(* Model/DispatchPinned.v -- a FROZEN excerpt of the call-site table as
   tr_callsites.py produced it from the pinned tree (commit 93b42bf), before
   the repair "fix: pass version by keyword from the memory and filesystem
   stores to parse()".  It is the defective variant of DESIGN 7 / C14: the two
   store call sites  parse(x, allow_custom, version)  bind `version` to the
   parser's third parameter, `interoperability`.  Hand-copied, never
   regenerated; used only for the `_refuted` theorems.  No proofs here.      *)
From Coq Require Import String List.
From V Require Import Model.CallTable Model.Dispatch.
Import ListNotations. Open Scope string_scope.

Definition pinned_signatures : list fsig := [
  mkSig "filesystem._check_object_from_file" (KFunc) [("query", None); ("filepath", None); ("allow_custom", None); ("version", None); ("encoding", None)] "" "" [];
  mkSig "memory.MemorySink.__init__" (KMethod "memory.MemorySink") [("self", None); ("stix_data", Some (Const "None")); ("allow_custom", Some (Const "True")); ("version", Some (Const "None")); ("_store", Some (Const "False"))] "" "" [];
  mkSig "memory.MemorySink.add" (KMethod "memory.MemorySink") [("self", None); ("stix_data", None); ("version", Some (Const "None"))] "" "" [];
  mkSig "memory._add" (KFunc) [("store", None); ("stix_data", None); ("allow_custom", Some (Const "True")); ("version", Some (Const "None"))] "" "" [];
  mkSig "parsing.dict_to_stix2" (KFunc) [("stix_dict", None); ("allow_custom", Some (Const "False")); ("interoperability", Some (Const "False")); ("version", Some (Const "None"))] "" "" ["version"];
  mkSig "parsing.parse" (KFunc) [("data", None); ("allow_custom", Some (Const "False")); ("interoperability", Some (Const "False")); ("version", Some (Const "None"))] "" "" []
].

Definition pinned_callsites : list site := [
  mkSite "parsing.parse>parsing.dict_to_stix2#1" "parsing.parse" "parsing.dict_to_stix2" VDirect
    [("stix_dict", (Other "local obj" ["allow_custom"; "data"; "interoperability"; "version"])); ("allow_custom", (FromParam "allow_custom")); ("interoperability", (FromParam "interoperability")); ("version", (FromParam "version"))]
    "40" "dict_to_stix2(obj, allow_custom, interoperability, version)";
  mkSite "memory._add>memory._add#1" "memory._add" "memory._add" VDirect
    [("store", (FromParam "store")); ("stix_data", (Other "local stix_obj" ["allow_custom"; "stix_data"; "version"])); ("allow_custom", (FromParam "allow_custom")); ("version", (FromParam "version"))]
    "35" "_add(store, stix_obj, allow_custom, version)";
  mkSite "memory._add>memory._add#2" "memory._add" "memory._add" VDirect
    [("store", (FromParam "store")); ("stix_data", (Other "local stix_obj" ["allow_custom"; "stix_data"; "version"])); ("allow_custom", (FromParam "allow_custom")); ("version", (FromParam "version"))]
    "40" "_add(store, stix_obj, allow_custom, version)";
  mkSite "memory._add>parsing.parse#1" "memory._add" "parsing.parse" VDirect
    [("data", (FromParam "stix_data")); ("allow_custom", (FromParam "allow_custom")); ("interoperability", (FromParam "version"))]
    "47" "parse(stix_data, allow_custom, version)";
  mkSite "memory.MemorySink.__init__>memory._add#1" "memory.MemorySink.__init__" "memory._add" VDirect
    [("store", (Other "self" [])); ("stix_data", (FromParam "stix_data")); ("allow_custom", (FromParam "allow_custom")); ("version", (FromParam "version"))]
    "184" "_add(self, stix_data, allow_custom, version)";
  mkSite "memory.MemorySink.add>memory._add#1" "memory.MemorySink.add" "memory._add" VDirect
    [("store", (Other "self" [])); ("stix_data", (FromParam "stix_data")); ("allow_custom", (FromAttr "allow_custom")); ("version", (FromParam "version"))]
    "187" "_add(self, stix_data, self.allow_custom, version)";
  mkSite "filesystem._check_object_from_file>parsing.parse#1" "filesystem._check_object_from_file" "parsing.parse" VDirect
    [("data", (Other "local stix_json" ["encoding"; "filepath"])); ("allow_custom", (FromParam "allow_custom")); ("interoperability", (FromParam "version"))]
    "322" "parse(stix_json, allow_custom, version)"
].

Definition pinned_attr_assigns : list attr_assign := [
  mkAttr "memory.MemorySink" "__init__" "allow_custom" (FromParam "allow_custom")
].

Definition pinned_defective : table :=
  mkTable pinned_signatures pinned_callsites pinned_attr_assigns [] [] [] [] "".

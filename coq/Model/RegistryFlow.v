(* Model/RegistryFlow.v -- the control flow of stix2/registration.py's `_register_*`
   functions as DATA (a list of steps, what translators/tr_regflow.py reads from
   the source into Gen/RegFlow.v) and an interpreter of such lists over the
   registry of Model/Registry.v.  Proofs/C19Src.v shows that the interpreter run
   on the lists the model transcribes IS the model's register_* function; the
   obligations of Props/C19Src.v then say the source's lists are those lists.
   No proofs here.                                                            *)
From Coq Require Import NArith List String Bool.
From V Require Import Base.UString Model.Registry.
Import ListNotations.

Inductive obs20_mode := NeverObs20 | IfVersion20.        (* _validate_props(..., is_observable20=(version == "2.0")) or without *)
Inductive mapkey := ByVersion | FixedVersion (v : version).   (* registry.STIX2_OBJ_MAPS[version] or a literal *)

Inductive step :=
| SSubclass                 (* if not issubclass(new_type, _DomainObject): raise ValueError  (true for what the decorators build) *)
| SDefaultVersion           (* if not version: version = DEFAULT_VERSION  (the decorators always pass one) *)
| SValidateType             (* _validate_type(<type>, version) *)
| SValidateExtName          (* _register_extension's first check (Registry.validate_ext_name) *)
| SExtSuffixRule            (* 2.1: must end with -ext or start with extension-definition-- *)
| SExtNonEmpty              (* at least one property / a given toplevel mapping is not empty *)
| SValidateProps (m : obs20_mode)
| SSelectMap (c : category) (k : mapkey)
| SDupTest                  (* if <type> in MAP: raise DuplicateRegistrationError *)
| SWrite.                   (* MAP[<type>] = cls *)

(* the shape of _validate_props *)
Inductive vp_shape := FullRuleAbsent | FullRuleEveryVersion | FullRuleNot20Only.

(* what one call works on *)
Record ctx := {
  cx_ver : version; cx_name : ustring; cx_cls : classid;
  cx_props : propmap;          (* the mapping handed to _validate_props *)
  cx_empty : bool              (* _register_extension: no property / an empty toplevel mapping *)
}.

Fixpoint interp (vt : variant) (c : ctx) (steps : list step) (sel : option (version * category)) (r : registry)
  : result registry :=
  match steps with
  | [] => Ok r
  | s :: k =>
    match s with
    | SSubclass | SDefaultVersion => interp vt c k sel r
    | SValidateType => if validate_type vt (cx_ver c) (cx_name c) then interp vt c k sel r else Raise EValue
    | SValidateExtName => if validate_ext_name vt (cx_ver c) (cx_name c) then interp vt c k sel r else Raise EValue
    | SExtSuffixRule =>
        if version_eqb (cx_ver c) V21 && negb (ustr_suffix s_dash_ext (cx_name c) || ustr_prefix s_extdef (cx_name c))
        then Raise EValue else interp vt c k sel r
    | SExtNonEmpty => if cx_empty c then Raise EValue else interp vt c k sel r
    | SValidateProps m =>
        let obs20 := match m with NeverObs20 => false | IfVersion20 => version_eqb (cx_ver c) V20 end in
        if validate_props vt (cx_ver c) obs20 (cx_props c) then interp vt c k sel r else Raise EValue
    | SSelectMap cat key =>
        interp vt c k (Some (match key with ByVersion => cx_ver c | FixedVersion v => v end, cat)) r
    | SDupTest =>
        match sel with
        | Some (V, cat) => match lookup r V cat (cx_name c) with
                           | Some _ => Raise EDuplicate
                           | None => interp vt c k sel r
                           end
        | None => Raise EValue         (* no map selected: not a flow the model knows *)
        end
    | SWrite =>
        match sel with
        | Some (V, cat) => interp vt c k sel (r ++ [ {| e_ver := V; e_cat := cat; e_name := cx_name c; e_cls := cx_cls c |} ])
        | None => Raise EValue
        end
    end
  end.

(* the lists Model/Registry.v transcribes *)
Definition model_object_flow : list step :=
  [SSubclass; SDefaultVersion; SValidateProps NeverObs20; SSelectMap Objects ByVersion; SDupTest; SWrite].
Definition model_marking_flow : list step :=
  [SDefaultVersion; SValidateType; SValidateProps NeverObs20; SSelectMap Markings ByVersion; SDupTest; SWrite].
Definition model_observable_flow : list step :=
  [SDefaultVersion; SValidateProps IfVersion20; SSelectMap Observables ByVersion; SDupTest; SWrite].
Definition model_extension_flow : list step :=
  [SValidateExtName; SExtSuffixRule; SExtNonEmpty; SValidateProps NeverObs20; SSelectMap Extensions ByVersion; SDupTest; SWrite].

(* the context _custom_extension_builder hands to _register_extension *)
Definition extension_ctx (V : version) (n : ustring) (xt : option exttype) (user : list (ustring * propkind)) (cls : classid) : ctx :=
  let props := dict_of_pairs user in
  let nested := match xt with
                | None => props
                | Some XToplevel => [(s_extension_type, KPlain)]
                | Some _ => dict_update [(s_extension_type, KPlain)] props
                end in
  let toplevel := match xt with Some XToplevel => Some props | _ => None end in
  {| cx_ver := V; cx_name := n; cx_cls := cls;
     cx_props := dict_update nested (match toplevel with Some t => t | None => [] end);
     cx_empty := is_nil nested || match toplevel with Some [] => true | _ => false end |}.

Definition plain_ctx (V : version) (n : ustring) (d : propmap) (cls : classid) : ctx :=
  {| cx_ver := V; cx_name := n; cx_cls := cls; cx_props := d; cx_empty := false |}.

(* which _validate_props shape each property-name variant of the model stands for *)
Definition vp_shape_of (m : prop_mode) : vp_shape :=
  match m with FirstCharOnly => FullRuleAbsent | FullRule => FullRuleEveryVersion end.

(* class_for_type's search order when no category is given *)
Definition model_cft_search_order : list category := [Objects; Observables; Markings; Extensions].

(* Model/PyTs.v -- a tiny imperative language, just large enough for the two places of
   stix2/utils.py where the digits of a timestamp are decided: the precision branches of
   format_datetime (which build frac_seconds_str from zoned.microsecond) and the "ensure correct
   precision" branches of parse_into_datetime (which replace ts.microsecond).
   translators/tr_timestamp_src.py turns the ast of those branches into terms of this language on
   every run (Gen/TimestampSrc.v); Props/C15Src.v ties them to frac_digits / stored_trunc of
   Model/Timestamp.v.  State: the string variable and the microsecond value.  No proofs.       *)
From Coq Require Import ZArith NArith List Bool.
From V Require Import Base.UString Model.Calendar Model.Timestamp.
Import ListNotations.
Open Scope Z_scope.

Inductive sx :=
| SLit (s : ustring)                  (* "..." *)
| SFmt06                              (* "{:06d}".format(<microsecond>) *)
| SRStrip (e : sx) (c : N)            (* e.rstrip("<c>") *)
| SLJust (e : sx) (n : Z) (c : N)     (* e.ljust(n, "<c>") *)
| SSliceTo (e : sx) (hi : Z).         (* e[:hi] *)

Inductive ix :=
| IUs                                 (* <ts>.microsecond *)
| ILit (z : Z)
| IFloorDiv (a b : ix)                (* a // b *)
| IMul (a b : ix).

Inductive cond :=
| CPrec (p : precision)               (* precision == Precision.X *)
| CCons (c : pconstraint)             (* precision_constraint == PrecisionConstraint.X *)
| CUs.                                (* truthiness of <zoned>.microsecond *)

Inductive stmt :=
| SAssign (e : sx)                    (* frac_seconds_str = e *)
| IAssign (e : ix)                    (* ts = ts.replace(microsecond=e) *)
| SIf (b : cond) (t e : list stmt).

Definition prec_eqb (a b : precision) : bool :=
  match a, b with PAny, PAny | PSecond, PSecond | PMilli, PMilli => true | _, _ => false end.
Definition cons_eqb (a b : pconstraint) : bool :=
  match a, b with CExact, CExact | CMin, CMin => true | _, _ => false end.

(* str.rstrip(c) on a code-point list *)
Fixpoint rstrip_c (c : N) (s : ustring) : ustring :=
  match s with
  | [] => []
  | x :: r => match rstrip_c c r with
              | [] => if (x =? c)%N then [] else [x]
              | r' => x :: r'
              end
  end.

Section Eval.
  Variable p : precision.
  Variable c : pconstraint.

  Fixpoint eval_s (us : Z) (e : sx) : ustring :=
    match e with
    | SLit s => s
    | SFmt06 => text_of (digitsn 6 us)                         (* 0 <= us < 10^6 *)
    | SRStrip e ch => rstrip_c ch (eval_s us e)
    | SLJust e n ch => let s := eval_s us e in s ++ repeat ch (Z.to_nat n - length s)
    | SSliceTo e hi => firstn (Z.to_nat hi) (eval_s us e)      (* hi >= 0 *)
    end.

  Fixpoint eval_i (us : Z) (e : ix) : Z :=
    match e with
    | IUs => us
    | ILit z => z
    | IFloorDiv a b => eval_i us a / eval_i us b               (* Python // on ints: floor, like Z./ *)
    | IMul a b => eval_i us a * eval_i us b
    end.

  Definition eval_c (us : Z) (b : cond) : bool :=
    match b with CPrec x => prec_eqb p x | CCons x => cons_eqb c x | CUs => negb (us =? 0) end.

  (* state: (frac_seconds_str, microsecond) *)
  Fixpoint exec_stmt (s : stmt) (st : ustring * Z) : ustring * Z :=
    match s with
    | SAssign e => (eval_s (snd st) e, snd st)
    | IAssign e => (fst st, eval_i (snd st) e)
    | SIf b t e =>
        let run := fix run (l : list stmt) (st : ustring * Z) : ustring * Z :=
                     match l with [] => st | x :: r => run r (exec_stmt x st) end in
        if eval_c (snd st) b then run t st else run e st
    end.

  Fixpoint exec (l : list stmt) (st : ustring * Z) : ustring * Z :=
    match l with [] => st | x :: r => exec r (exec_stmt x st) end.
End Eval.

(* the two fragments as the hand-written model reads them *)
Definition ufrac : sx := SRStrip SFmt06 48%N.
Definition model_format_prog : list stmt :=
  [SIf (CPrec PAny)
     [SIf CUs [SAssign ufrac] []]
     [SIf (CPrec PSecond)
        [SIf (CCons CMin) [SIf CUs [SAssign ufrac] []] []]
        [SIf (CCons CExact) [SAssign (SSliceTo SFmt06 3)] [SAssign (SLJust ufrac 3 48%N)]]]].

Definition model_parse_prog : list stmt :=
  [SIf (CPrec PSecond)
     [SIf (CCons CExact) [IAssign (ILit 0)] []]
     [SIf (CPrec PMilli)
        [SIf (CCons CExact) [IAssign (IMul (IFloorDiv IUs (ILit 1000)) (ILit 1000))] []]
        []]].

(* what the fragments compute *)
Definition format_frac (prog : list stmt) (p : precision) (c : pconstraint) (us : Z) : ustring :=
  fst (exec p c prog ([], us)).
Definition parse_us (prog : list stmt) (p : precision) (c : pconstraint) (us : Z) : Z :=
  snd (exec p c prog ([], us)).

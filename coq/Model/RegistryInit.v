(* Model/RegistryInit.v -- the model instantiated at what the translator read
   from the current source (Gen/Regexes.v): the built-in registries and the
   variant the regex texts denote.  No proofs here.                          *)
From Coq Require Import NArith List String.
From V Require Import Base.UString Model.Registry Gen.Regexes.
Import ListNotations.

Definition builtin_registry : registry :=
  match registry_of_rows builtin_rows with Some r => r | None => [] end.

Definition source_variant : option variant :=
  variant_of_texts TYPE_REGEX_text TYPE_21_REGEX_text PREFIX_21_REGEX_text PROPERTY_NAME_REGEX_text
                   EXTENSION_DEFINITION_ID_REGEX_text.

Open Scope string_scope.
Definition show_end (m : end_mode) : string := match m with Dollar => "Dollar" | Strict => "Strict" end.
Definition show_pmode (m : prop_mode) : string := match m with FirstCharOnly => "FirstCharOnly" | FullRule => "FullRule" end.
Definition show_hyph (m : hyphen_mode) : string := match m with AnyHyphens => "AnyHyphens" | SingleHyphens => "SingleHyphens" end.
Definition show_extid (m : extid_mode) : string := match m with ViaTypeRegex => "ViaTypeRegex" | OwnRegex => "OwnRegex" end.
Definition show_variant (v : option variant) : string :=
  match v with
  | None => "unknown-regex-text"
  | Some v => show_end (end20 v) ++ " " ++ show_end (end21 v) ++ " " ++ show_pmode (pmode v)
              ++ " " ++ show_hyph (hyph21 v) ++ " " ++ show_extid (extid v)
  end.
Definition show_source : string :=
  show_variant source_variant ++ " rows=" ++ show_nat (List.length builtin_rows)
  ++ " registry=" ++ show_nat (List.length builtin_registry)
  ++ " distinct=" ++ show_bool (keys_distinct builtin_registry).

(* Model/StoreCases.v -- the case language of the C11 / C18 correspondence runs
   and the rendering of results as one ASCII line per case.  No proofs.      *)
From Coq Require Import NArith ZArith List String Bool.
From V Require Import Base.UString Model.Store.
Import ListNotations.
Open Scope string_scope.

Definition cat (l : list string) : string := fold_right append EmptyString l.

Definition show_err (e : err) : string :=
  match e with
  | EParse => "EParse" | EKind => "EKind" | EType => "EType" | EKey => "EKey"
  | EOverwrite => "EOverwrite" | ETime => "ETime" | EAttr => "EAttr" | EValue => "EValue"
  end.

(* finite table standing for parse_into_datetime on the texts of one case *)
Definition inst_tbl (t : list (ustring * Z)) (s : ustring) : option Z := dict_get ustr_eqb t s.
Definition ts2fn_dec (t : Z) : ustring := ustr_of_Z t.

Definition pay_is (p : N) (o : obj) : bool := N.eqb (opay o) p.

(* filters with the other operators, as verdicts (Filter._check_property on the property the harness names):
   a property the object lacks makes every operator answer False *)
Inductive cop := CEq | CNe | CLt | CGt | CLe | CGe.
Definition pay_op (op : cop) (p : N) (o : obj) : bool :=
  match op with
  | CEq => N.eqb (opay o) p | CNe => negb (N.eqb (opay o) p)
  | CLt => N.ltb (opay o) p | CGt => N.ltb p (opay o)
  | CLe => N.leb (opay o) p | CGe => N.leb p (opay o)
  end.
Definition pay_in (l : list N) (o : obj) : bool := existsb (N.eqb (opay o)) l.
(* ordering operators on string properties: Python str comparison (code points) *)
Definition str_op (op : cop) (x v : ustring) : bool :=
  match op with
  | CEq => ustr_eqb x v | CNe => negb (ustr_eqb x v)
  | CLt => ustr_ltb x v | CGt => ustr_ltb v x
  | CLe => negb (ustr_ltb v x) | CGe => negb (ustr_ltb x v)
  end.
Definition z_op (op : cop) (x v : Z) : bool :=
  match op with
  | CEq => Z.eqb x v | CNe => negb (Z.eqb x v)
  | CLt => Z.ltb x v | CGt => Z.ltb v x
  | CLe => Z.leb x v | CGe => Z.leb v x
  end.
(* Filter("modified", op, text): against a datetime the text is read as an instant (t); against text kept as
   text it is compared as text (s); an object without `modified` fails every operator *)
Definition mod_op (op : cop) (t : Z) (s : ustring) (o : obj) : bool :=
  match omod o with
  | VInst x => z_op op x t
  | VNaive x => z_op op x t
  | VText x => str_op op x s
  | VNone => false
  end.
Definition cre_op (op : cop) (t : Z) (s : ustring) (o : obj) : bool :=
  match ocre o with
  | VInst x => z_op op x t
  | VNaive x => z_op op x t
  | VText x => str_op op x s
  | VNone => false
  end.
Definition type_op (op : cop) (v : ustring) (o : obj) : bool := str_op op (otype o) v.
Definition oid_op (op : cop) (v : ustring) (o : obj) : bool := str_op op (oid o) v.
Definition type_ne (v : ustring) (o : obj) : bool := negb (ustr_eqb (otype o) v).
Definition type_in (l : list ustring) (o : obj) : bool := existsb (ustr_eqb (otype o)) l.
Definition oid_ne (v : ustring) (o : obj) : bool := negb (ustr_eqb (oid o) v).
Definition oid_in (l : list ustring) (o : obj) : bool := existsb (ustr_eqb (oid o)) l.
Definition prop_ne (k v : ustring) (o : obj) : bool :=
  match prop_get k o with Some x => negb (ustr_eqb x v) | None => false end.
Definition prop_in (k : ustring) (l : list ustring) (o : obj) : bool :=
  match prop_get k o with Some x => existsb (ustr_eqb x) l | None => false end.

Section Render.
  Variable mode : text_mode.
  Variable it : ustring -> option Z.
  Variable rm : related_mode.

  (* a version is shown as the instant it denotes when it denotes one *)
  Definition show_v (k : vkey) : string :=
    match k with
    | VInst t => append "I" (show_Z t)
    | VNaive t => append "I" (show_Z t)
    | VText s => match it s with Some t => append "I" (show_Z t) | None => append "T" (show_ustr s) end
    | VNone => "N"
    end.
  Definition show_obj (o : obj) : string :=
    cat [show_ustr (oid o); ","; show_v (omod o); ","; show_N (opay o)].
  Definition show_objs (l : list obj) : string :=
    cat ["["; cat (map (fun o => append (show_obj o) ";") l); "]"].
  Definition show_opt (x : option obj) : string :=
    match x with Some o => cat ["["; show_obj o; ";]"] | None => "[]" end.
  Definition show_res {A} (f : A -> string) (r : res A) : string :=
    match r with Ok a => f a | Err e => append "!" (show_err e) end.
  Definition show_outcome (e : option err) : string :=
    match e with None => "ok" | Some x => append "!" (show_err x) end.

  (* ---------- C11: one store, adds interleaved with reads ---------- *)
  Inductive step :=
  | SAdd (segs : list segment)
  | SGet (id : ustring)
  | SAll (id : ustring)
  | SQuery (q : list sfilter)
  | SCount                      (* number of stored objects / files *)
  | SSaveLoad.                  (* memory only: save_to_file, then load_from_file into a fresh store *)

  Fixpoint mem_steps (af : list sfilter) (steps : list step) (m : mem) : list string :=
    match steps with
    | [] => []
    | SAdd segs :: r => let (m', e) := mem_add_segs mode it segs m in show_outcome e :: mem_steps af r m'
    | SGet id :: r => show_opt (mem_get af id m) :: mem_steps af r m
    | SAll id :: r => show_objs (mem_all af id m) :: mem_steps af r m
    | SQuery q :: r => show_objs (mem_query (q ++ af) m) :: mem_steps af r m
    | SCount :: r => show_nat (List.length (mem_query af m)) :: mem_steps af r m
    | SSaveLoad :: r => let (m', e) := mem_load_saved mode it m [] in show_outcome e :: mem_steps af r m'
    end.

  Fixpoint fs_steps (af : list sfilter) (steps : list step) (s : fs) : list string :=
    match steps with
    | [] => []
    | SAdd segs :: r => let (s', e) := fs_add_segs mode it ts2fn_dec segs s in show_outcome e :: fs_steps af r s'
    | SGet id :: r => show_res show_opt (fs_get af id s) :: fs_steps af r s
    | SAll id :: r => show_objs (fs_all af id s) :: fs_steps af r s
    | SQuery q :: r => show_objs (fs_query (q ++ af) s) :: fs_steps af r s
    | SCount :: r => show_nat (List.length s) :: fs_steps af r s
    | SSaveLoad :: r => "n/a" :: fs_steps af r s
    end.

  (* separator: a backslash followed by a comma never occurs in a rendered token
     (show_ustr writes a backslash only in front of six hex digits) *)
  Definition join_sp (l : list string) : string := cat (map (fun x => append x "\,") l).
  Definition run_mem (af : list sfilter) (steps : list step) : string := join_sp (mem_steps af steps []).
  Definition run_fs (af : list sfilter) (steps : list step) : string := join_sp (fs_steps af steps []).

  (* ---------- C18: source expressions and reads ---------- *)
  Inductive srcexp :=
  | XMem (af : list sfilter) (adds : list (list segment))
  | XFs (af : list sfilter) (adds : list (list segment))
  | XComp (af : list sfilter) (ms : list srcexp).

  Definition build_mem (adds : list (list segment)) : mem :=
    fold_left (fun m segs => fst (mem_add_segs mode it segs m)) adds [].
  Definition build_fs (adds : list (list segment)) : fs :=
    fold_left (fun s segs => fst (fs_add_segs mode it ts2fn_dec segs s)) adds [].

  Fixpoint eval_src (e : srcexp) : source :=
    match e with
    | XMem af adds => mem_source af (build_mem adds)
    | XFs af adds => fs_source af (build_fs adds)
    | XComp af ms => composite_source rm af (map eval_src ms)
    end.

  Inductive nread :=
  | NGet (id : ustring)
  | NAll (id : ustring)
  | NQuery (q : list sfilter)
  | NRels (a : ustring) (rt : option ustring) (so to : bool)
  | NRelated (a : ustring) (rt : option ustring) (so to : bool) (fl : list sfilter)
  | NCreator (o : obj).

  Definition do_read (src : source) (r : nread) : string :=
    match r with
    | NGet id => show_res show_opt (s_get src [] id)
    | NAll id => show_res show_objs (s_all src [] id)
    | NQuery q => show_res show_objs (s_query src [] q)
    | NRels a rt so to => show_res show_objs (s_rels src a rt so to)
    | NRelated a rt so to fl => show_res show_objs (s_related src a rt so to fl)
    | NCreator o => show_res show_opt (creator_of src o)
    end.

  Definition run_src (e : srcexp) (reads : list nread) : string :=
    let src := eval_src e in join_sp (map (do_read src) reads).
End Render.

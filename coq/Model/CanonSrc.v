(* Model/CanonSrc.v -- the vocabulary in which translators/tr_numtojson.py
   (translate_canon) reports what stix2/canonicalization/Canonicalize.py says, read
   from its ast on every run (Gen/CanonFacts.v), and the escaping function that an
   ESCAPE_DCT table denotes.  No proofs here.                                      *)
From Coq Require Import String NArith List Bool.
From V Require Import Base.UString Model.JcsText.
Import ListNotations.
Open Scope N_scope.

(* the key= argument of sorted() in _iterencode_dict *)
Inductive sort_key_src :=
| KeyUtf16BE          (* lambda kv: kv[0].encode('utf-16_be') *)
| KeyCodePoints       (* lambda kv: kv[0]  (or no key at all) *)
| KeyOtherEncoding (name : ustring).   (* kv[0].encode(<another codec>) *)

(* which function a name is bound to at import time: `(c_x or py_x)` *)
Inductive binding_src := CAccelOrPython | PythonOnly | AccelOnly.

Record canon_src := {
  cs_sort_key : sort_key_src;
  cs_sort_guard_sort_keys : bool;        (* the sorted() call sits under `if _sort_keys:` *)
  cs_canonicalize_sort_keys : bool;      (* canonicalize() builds JSONEncoder(sort_keys=True) *)
  cs_ensure_ascii_default : bool;        (* JSONEncoder.__init__ default *)
  cs_separators_default : ustring * ustring;     (* (item, key) *)
  cs_indent_default_none : bool;
  cs_escape_regex : ustring;             (* ESCAPE pattern text *)
  cs_escape_table : list (N * ustring);  (* ESCAPE_DCT literal *)
  cs_escape_fill_format : ustring;       (* format used by the setdefault loop over range(0x20) *)
  cs_escape_fill_bound : N;
  cs_encode_basestring : binding_src;
  cs_numbers_via_convert2es6 : bool;     (* every int/float branch of the three encoders calls convert2Es6Format(value) *)
  cs_literals : ustring * ustring * ustring      (* None, True, False *)
}.

Fixpoint tlookup (c : N) (t : list (N * ustring)) : option ustring :=
  match t with [] => None | (a, s) :: r => if a =? c then Some s else tlookup c r end.

Definition hex4_lower (c : N) : ustring :=
  let h n := if n <? 10 then 48 + n else 87 + n in
  [h (c / 4096 mod 16); h (c / 256 mod 16); h (c / 16 mod 16); h (c mod 16)].

(* what ESCAPE.sub(replace, s) does to one character, for a table completed by
   the setdefault loop (backslash, u, four lower-case hex digits) for i below the
   bound; the regex class is: code points below 0x20, backslash, double quote *)
Definition escape_char_of (t : list (N * ustring)) (bound : N) (c : N) : ustring :=
  if (c <? 32) || (c =? 92) || (c =? 34) then
    match tlookup c t with
    | Some s => s
    | None => if c <? bound then [92; 117] ++ hex4_lower c else [c]     (* KeyError in Python; not reachable for bound = 32 *)
    end
  else [c].

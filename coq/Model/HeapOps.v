(* Model/HeapOps.v -- the copy-then-mutate skeletons of cti-python-stix2 over
   the explicit heap of Model/Heap.v.  Each definition names the Python it
   mirrors.  Validation is NOT modelled (that is C02/C03): the skeletons keep
   exactly the allocation, copying, sharing and writing structure of the
   code, which is what decides C13.  No proofs in this file.

   Variant parameters (DESIGN 2.3): the copy made at each of the five
   defensive-copy sites is a `copy_mode`; the code as written is `Deep`
   everywhere.                                                              *)
From Coq Require Import NArith ZArith String Bool Arith List.
From V Require Export Model.Heap.
Import ListNotations.
Open Scope nat_scope.

Record variant := {
  cm_ext : copy_mode;     (* ExtensionsProperty.clean *)
  cm_obs : copy_mode;     (* ObservableProperty.clean *)
  cm_pobs : copy_mode;    (* parse_observable *)
  cm_nv : copy_mode;      (* new_version *)
  cm_fac : copy_mode      (* ObjectFactory.create *)
}.

Definition as_written : variant := {| cm_ext := Deep; cm_obs := Deep; cm_pobs := Deep; cm_nv := Deep; cm_fac := Deep |}.

(* what the `clean` of a Property class does with containers *)
Inductive kind :=
| KAtom                   (* String/Integer/Timestamp/Reference/...: an immutable value comes back *)
| KPass                   (* Property.clean, MarkingProperty.clean: the value itself comes back *)
| KList (k : kind)        (* ListProperty(contained Property): new list, items cleaned *)
| KListObj (c : ustring)  (* ListProperty(_STIXBase subclass): new list; objects kept, mappings instantiated *)
| KDict                   (* DictionaryProperty: _get_dict returns the SAME dict for a dict *)
| KHashes                 (* HashesProperty: new dict *)
| KEmbedded (c : ustring) (* EmbeddedObjectProperty: dict instantiated, object kept *)
| KExt (v21 : bool)       (* ExtensionsProperty: copy, then entries replaced *)
| KObs (v21 : bool)       (* ObservableProperty: copy, then entries replaced by parsed observables *)
| KStixObj.               (* STIXObjectProperty: object kept, dict parsed *)

Definition schema := list (ustring * kind).

Record world := {
  classes : list (ustring * schema);       (* Python class -> _properties in order *)
  registry : list (ustring * ustring);     (* "2.1/objects/identity" -> class *)
  det_id : list ustring;                   (* 2.1 observable classes (deterministic id written into _inner) *)
  defaults : list (ustring * list (ustring * atom));  (* class -> properties with a `default` (all immutable values) *)
  defn_classes : list (ustring * list (ustring * ustring));
     (* MarkingDefinition classes -> OBJ_MAP_MARKING (definition_type -> marking class) *)
  with_ext : list (ustring * ustring);
     (* custom 2.1 classes declared with extension_name= -> that extension id *)
  observables : list ustring;
     (* subclasses of base._Observable: `self.__valid_refs = kwargs.pop('_valid_refs', [])` *)
  keep_in_bundle : list ustring
     (* classes STIXObjectProperty.clean keeps as they are: _DomainObject / _RelationshipObject /
        MarkingDefinition in the class hierarchy (an observable is re-parsed from dict(value)) *)
}.

Fixpoint lookup {A : Type} (k : ustring) (m : list (ustring * A)) : option A :=
  match m with
  | [] => None
  | (k', v) :: r => if ustr_eqb k k' then Some v else lookup k r
  end.

Definition ver_str (v21 : bool) : ustring := if v21 then u "2.1" else u "2.0".

Definition class_for_type (W : world) (ty : ustring) (v21 : bool) (cat : string) : option ustring :=
  lookup (ver_str v21 ++ slash ++ u cat ++ slash ++ ty) (registry W).

(* members of a mapping: a dict, or a library object (Mapping over _inner) *)
Definition mapping_entries (h : heap) (v : val) : option (list (ustring * val)) :=
  match v with
  | VA _ => None
  | VR l =>
    match get h l with
    | Some (NDict m) => Some m
    | Some (NObj _ fs) =>
      match assoc (u "_inner") fs with
      | Some (VR i) => match get h i with Some (NDict m) => Some m | _ => None end
      | _ => None
      end
    | _ => None
    end
  end.

Definition mapping_get (h : heap) (v : val) (k : ustring) : option val :=
  match mapping_entries h v with Some m => assoc k m | None => None end.

Definition list_items (h : heap) (v : val) : option (list val) :=
  match v with
  | VR l => match get h l with Some (NList xs) => Some xs | _ => None end
  | VA _ => None
  end.

Definition class_of (h : heap) (v : val) : option ustring :=
  match v with
  | VR l => match get h l with Some (NObj c _) => Some c | _ => None end
  | VA _ => None
  end.

Definition is_dict (h : heap) (v : val) : bool :=
  match v with VR l => match get h l with Some (NDict _) => true | _ => false end | _ => false end.

Definition is_obj (h : heap) (v : val) : bool :=
  match class_of h v with Some _ => true | None => false end.

Definition str_atom (v : option val) : option ustring :=
  match v with Some (VA (AStr s)) => Some s | _ => None end.

(* stix2.utils._get_dict: a dict is returned as it is; another mapping goes
   through dict(data) (new dict, same members); text is not modelled        *)
Definition get_dict (v : val) (h : heap) : heap * res :=
  if is_dict h v then (h, RVal v)
  else match mapping_entries h v with
       | Some m => let (h1, l) := alloc h (NDict m) in (h1, RVal (VR l))
       | None => (h, RExc "ValueError")
       end.

(* stix2.utils.detect_spec_version *)
Definition detect_v21 (W : world) (h : heap) (v : val) : bool :=
  match str_atom (mapping_get h v (u "type")) with
  | None => false
  | Some ty =>
    let bundle := ustr_eqb ty (u "bundle") in
    match mapping_get h v (u "spec_version") with
    | Some sv => if bundle then false else match sv with VA (AStr s) => ustr_eqb s (u "2.1") | _ => false end
    | None =>
      match mapping_get h v (u "id") with
      | None => false
      | Some _ => if bundle then true
                  else match class_for_type W ty true "observables" with Some _ => true | None => false end
      end
    end
  end.

Inductive req :=
| QClean (k : kind) (v : val)
| QConstruct (c : ustring) (kw : val)                 (* cls( **kw ) *)
| QParse (v : val) (ver : option bool) (ac : bool)    (* parsing.dict_to_stix2 *)
| QParseObs (v : val) (vr : val) (ver : option bool) (ac : bool).   (* parsing.parse_observable *)

Definition bindv (x : heap * res) (f : val -> heap -> heap * res) : heap * res :=
  match x with
  | (h, RVal v) => f v h
  | (h, e) => (h, e)
  end.

Definition lift (o : option heap) (h : heap) (v : val) : heap * res :=
  match o with Some h1 => (h1, RVal v) | None => (h, RExc "TypeError") end.

Definition reserved_kw (k : ustring) : bool :=
  ustr_eqb k (u "allow_custom") || ustr_eqb k (u "interoperability") || ustr_eqb k (u "_valid_refs").

Section Interp.
  Variable vt : variant.
  Variable W : world.
  Variable rec : req -> heap -> heap * res.     (* the interpreter with less fuel *)
  Variable fuel : nat.                          (* fuel for deep copies *)

  (* ListProperty.clean: `result = []`, then `result.append(valid)` *)
  Fixpoint list_loop (mk : val -> req) (r : nat) (items : list val) (h : heap) : heap * res :=
    match items with
    | [] => (h, RVal (VR r))
    | it :: rest =>
      bindv (rec (mk it) h) (fun c h1 =>
        match append_item h1 r c with
        | Some h2 => list_loop mk r rest h2
        | None => (h1, RExc "TypeError")
        end)
    end.

  Definition clean_list (mk : val -> req) (v : val) (h : heap) : heap * res :=
    let items :=
      match v with
      | VA _ => Some [v]                                   (* a str is wrapped: [value] *)
      | VR l => match get h l with
                | Some (NList xs) => Some xs
                | Some (NObj _ _) => Some [v]              (* a _STIXBase is wrapped too *)
                | _ => None
                end
      end in
    match items with
    | None => (h, RExc "Unmodelled")
    | Some [] => (h, RExc "ValueError")                    (* must not be empty *)
    | Some its => let (h1, r) := alloc h (NList []) in list_loop mk r its h1
    end.

  (* HashesProperty.clean: `spec_dict = {}`, then `spec_dict[name] = value` *)
  Definition clean_hashes (v : val) (h : heap) : heap * res :=
    bindv (get_dict v h) (fun d h0 =>
      match mapping_entries h0 d with
      | None => (h0, RExc "ValueError")
      | Some m =>
        let (h1, r) := alloc h0 (NDict []) in
        lift (update_items h1 r m) h1 (VR r)
      end).

  (* ExtensionsProperty.clean: `dictified = copy.deepcopy(_get_dict(value))`,
     then for each member `dictified[key] = ext` or `= subvalue` *)
  Fixpoint ext_loop (v21 : bool) (c : nat) (ents : list (ustring * val)) (h : heap) : heap * res :=
    match ents with
    | [] => (h, RVal (VR c))
    | (key, sub) :: rest =>
      let k := fun (x : val) (h1 : heap) =>
        match set_item h1 c key x with
        | Some h2 => ext_loop v21 c rest h2
        | None => (h1, RExc "TypeError")
        end in
      match class_for_type W key v21 "extensions" with
      | Some cls =>
        if is_dict h sub then bindv (rec (QConstruct cls sub) h) k
        else if is_obj h sub then k sub h
        else (h, RExc "TypeError")
      | None => k sub h
      end
    end.

  Definition clean_ext (v21 : bool) (v : val) (h : heap) : heap * res :=
    bindv (get_dict v h) (fun d h0 =>
    bindv (copy_at (cm_ext vt) fuel d h0) (fun cv h1 =>
      match cv with
      | VR c => match mapping_entries h1 cv with
                | Some ents => ext_loop v21 c ents h1
                | None => (h1, RExc "ValueError")
                end
      | VA _ => (h1, RExc "ValueError")
      end)).

  (* ObservableProperty.clean: copy, `valid_refs = {k: v['type']}`, then
     `dictified[key] = parse_observable(obj, valid_refs, ...)` *)
  Fixpoint obs_loop (v21 : bool) (c : nat) (vr : val) (ents : list (ustring * val)) (h : heap) : heap * res :=
    match ents with
    | [] => (h, RVal (VR c))
    | (key, obj) :: rest =>
      bindv (rec (QParseObs obj vr (Some v21) true) h) (fun p h1 =>
        match set_item h1 c key p with
        | Some h2 => obs_loop v21 c vr rest h2
        | None => (h1, RExc "TypeError")
        end)
    end.

  Definition clean_obs (v21 : bool) (v : val) (h : heap) : heap * res :=
    bindv (get_dict v h) (fun d h0 =>
    bindv (copy_at (cm_obs vt) fuel d h0) (fun cv h1 =>
      match cv with
      | VR c =>
        match mapping_entries h1 cv with
        | Some [] => (h1, RExc "ValueError")
        | Some ents =>
          let types := map (fun kv => (fst kv, match mapping_get h1 (snd kv) (u "type") with Some t => t | None => VA ANone end)) ents in
          let (h2, r) := alloc h1 (NDict types) in
          obs_loop v21 c (VR r) ents h2
        | None => (h1, RExc "ValueError")
        end
      | VA _ => (h1, RExc "ValueError")
      end)).

  Definition clean (k : kind) (v : val) (h : heap) : heap * res :=
    match k with
    | KAtom => match v with VA _ => (h, RVal v) | VR _ => (h, RExc "Unmodelled") end
    | KPass => (h, RVal v)
    | KList k' => clean_list (QClean k') v h
    | KListObj c =>
        clean_list (fun it => if is_obj h it then QClean KPass it else QConstruct c it) v h
    | KDict => get_dict v h
    | KHashes => clean_hashes v h
    | KEmbedded c => if is_dict h v then rec (QConstruct c v) h
                     else if is_obj h v then (h, RVal v) else (h, RExc "ValueError")
    | KExt v21 => clean_ext v21 v h
    | KObs v21 => clean_obs v21 v h
    | KStixObj => if match class_of h v with Some c => mem_ustr c (keep_in_bundle W) | None => false end
                  then (h, RVal v)
                  else bindv (get_dict v h) (fun d h0 => rec (QParse d None true) h0)
    end.

  (* _STIXBase.__init__: `setting_kwargs = {}`; per property
     `setting_kwargs[name] = value`, `setting_kwargs[name] = prop.clean(value)`;
     finally `self._inner = setting_kwargs` *)
  Fixpoint init_loop (s : nat) (sch : schema) (props : list (ustring * val)) (h : heap) : heap * res :=
    match props with
    | [] => (h, RVal (VR s))
    | (name, v) :: rest =>
      if reserved_kw name || none_or_empty_list h v then init_loop s sch rest h
      else
        match set_item h s name v with
        | None => (h, RExc "TypeError")
        | Some h1 =>
          match lookup name sch with
          | None => init_loop s sch rest h1                     (* custom property: kept as given *)
          | Some k =>
            bindv (rec (QClean k v) h1) (fun c h2 =>
              match set_item h2 s name c with
              | Some h3 => init_loop s sch rest h3
              | None => (h2, RExc "TypeError")
              end)
          end
        end
    end.

  Definition construct_body (c : ustring) (sch : schema) (m : list (ustring * val)) (h : heap) : heap * res :=
      (* the property order of the class first, then the remaining keywords *)
      let known := flat_map (fun nk => match assoc (fst nk) m with Some v => [(fst nk, v)] | None => [] end) sch in
      let extra := filter (fun kv => match lookup (fst kv) sch with Some _ => false | None => true end) m in
      let (h1, s) := alloc h (NDict []) in
      bindv (init_loop s sch (known ++ extra) h1) (fun _ h1' =>
        (* _check_property: `if prop_name not in kwargs: kwargs[prop_name] = prop.default()`
           (type, id, created, modified, spec_version, revoked, ...: immutable values; their
           position in the dict is not modelled) *)
        let present := match get h1' s with Some (NDict sm) => map fst sm | _ => [] end in
        let missing := filter (fun na => negb (mem_ustr (fst na) present))
                              (match lookup c (defaults W) with Some ds => ds | None => [] end) in
        (* the default id keeps the type prefix (is_marking() looks at it) *)
        let ty := match lookup c (defaults W) with
                  | Some ds => match lookup (u "type") ds with Some (AStr t) => t | _ => [] end
                  | None => []
                  end in
        let fresh_id := ty ++ u "--<id-" ++ ustr_of_Z (Z.of_nat (length h1')) ++ u ">" in
        let h2 := match update_items h1' s (map (fun na => (fst na, VA (if ustr_eqb (fst na) (u "id") then AStr fresh_id else snd na))) missing) with
                  | Some hh => hh | None => h1' end in
        (* stix2.v21.base._Observable.__init__: self._inner["id"] = id_ *)
        let h3 := if mem_ustr c (det_id W) && negb (match assoc (u "id") m with Some _ => true | None => false end)
                  then match set_item h2 s (u "id") (VA (AStr (u "<deterministic-id>"))) with Some h' => h' | None => h2 end
                  else h2 in
        (* base._Observable.__init__: the given `_valid_refs`, or a new empty list *)
        let (h3', vrf) := match assoc (u "_valid_refs") m with
                          | Some r => (h3, [(u "_valid_refs", r)])
                          | None => if mem_ustr c (observables W)
                                    then let (hh, l) := alloc h3 (NList []) in (hh, [(u "_valid_refs", VR l)])
                                    else (h3, [])
                          end in
        let (h4, o) := alloc h3' (NObj c ((u "_inner", VR s) :: vrf)) in
        (h4, RVal (VR o))).

  (* stix2/custom.py, _custom_object_builder / _custom_observable_builder, after the base __init__:
       ext = getattr(self, 'with_extension', None)
       if ext and version != '2.0':
           if 'extensions' not in self._inner:
               _insert_in_property_order(self, 'extensions', {})     # a NEW inner dict: obj._inner = inner
           self._inner['extensions'][ext] = class_for_type(ext, version, "extensions")()
     The write goes into the dict STORED in the object: the one ExtensionsProperty.clean returned. *)
  Definition ext_step (ext : ustring) (ov : val) (h : heap) : heap * res :=
    match ov with
    | VA _ => (h, RExc "TypeError")
    | VR o =>
      match get h o with
      | Some (NObj _ fs) =>
        match assoc (u "_inner") fs with
        | Some (VR s) =>
          match get h s with
          | Some (NDict m) =>
            let st := match assoc (u "extensions") m with
                      | Some x => Some (h, x)
                      | None =>
                        let (ha, e) := alloc h (NDict []) in
                        let (hb, s') := alloc ha (NDict (m ++ [(u "extensions", VR e)])) in   (* position not modelled *)
                        match set_field hb o (u "_inner") (VR s') with
                        | Some hc => Some (hc, VR e)
                        | None => None
                        end
                      end in
            match st with
            | None => (h, RExc "TypeError")
            | Some (h1, VA _) => (h1, RExc "TypeError")
            | Some (h1, VR x) =>
              match class_for_type W ext true "extensions" with
              | None => (h1, RExc "TypeError")
              | Some ec =>
                let (h2, k) := alloc h1 (NDict []) in
                bindv (rec (QConstruct ec (VR k)) h2) (fun eo h3 =>
                  match set_item h3 x ext eo with
                  | Some h4 => (h4, RVal ov)
                  | None => (h3, RExc "TypeError")
                  end)
              end
            end
          | _ => (h, RExc "TypeError")
          end
        | _ => (h, RExc "TypeError")
        end
      | _ => (h, RExc "TypeError")
      end
    end.

  (* the class's __init__: the base constructor, then the custom-type step; the `extensions`
     property of such a class is an ExtensionsProperty (the decorators add it; the translator
     refuses a world in which it is not) *)
  (* _STIXBase.__init__: `custom_props = kwargs.pop('custom_properties', {})` (must be a dict, only
     read), then `assigned_properties = ChainMap(kwargs, custom_props)`: the keywords first *)
  Definition merge_custom (h : heap) (m : list (ustring * val)) : option (list (ustring * val)) :=
    match assoc (u "custom_properties") m with
    | None => Some m
    | Some (VR l) =>
      match get h l with
      | Some (NDict cpm) =>
        let m0 := assoc_del (u "custom_properties") m in
        Some (m0 ++ filter (fun kv => negb (mem_ustr (fst kv) (map fst m0))) cpm)
      | _ => None
      end
    | Some (VA _) => None
    end.

  Definition construct_full (c : ustring) (sch : schema) (m0 : list (ustring * val)) (h : heap) : heap * res :=
    match merge_custom h m0 with
    | None => (h, RExc "ValueError")
    | Some m =>
    bindv (construct_body c sch m h) (fun ov h1 =>
      match lookup c (with_ext W) with
      | None => (h1, RVal ov)
      | Some ext =>
        match lookup (u "extensions") sch with
        | Some (KExt _) => ext_step ext ov h1
        | _ => (h1, RExc "Unmodelled")
        end
      end)
    end.

  (* MarkingDefinition.__init__ (v20/v21 common.py): when both definition_type and
     definition are given and the definition is not yet an instance of the marking class,
     `defn = _get_dict(kwargs['definition']); kwargs['definition'] = marking_type( **defn )`
     -- kwargs is the call's own keyword dict, the caller's mapping is only read *)
  Definition construct (c : ustring) (kw : val) (h : heap) : heap * res :=
    match lookup c (classes W), mapping_entries h kw with
    | None, _ => (h, RExc "UnknownClass")
    | _, None => (h, RExc "TypeError")
    | Some sch, Some m =>
      match lookup c (defn_classes W) with
      | None => construct_full c sch m h
      | Some table =>
        match assoc (u "definition_type") m, assoc (u "definition") m with
        | Some dt, Some dv =>
          match match dt with VA (AStr s) => lookup s table | _ => None end with
          | None => (h, RExc "ValueError")
          | Some mc =>
            if match class_of h dv with Some c' => ustr_eqb c' mc | None => false end
            then construct_full c sch m h
            else bindv (get_dict dv h) (fun d h0 =>
                 bindv (rec (QConstruct mc d) h0) (fun o h1 =>
                   construct_full c sch (assoc_set (u "definition") o m) h1))
          end
        | _, _ => construct_full c sch m h
        end
      end
    end.

  (* parsing.dict_to_stix2 *)
  Definition parse_dict (v : val) (ver : option bool) (ac : bool) (h : heap) : heap * res :=
    match str_atom (mapping_get h v (u "type")) with
    | None => (h, RExc "ParseError")
    | Some ty =>
      let v21 := match ver with Some b => b | None => detect_v21 W h v end in
      match class_for_type W ty v21 "objects", class_for_type W ty v21 "observables" with
      | Some c, _ => rec (QConstruct c v) h
      | None, Some c => rec (QConstruct c v) h
      | None, None => if ac then (h, RVal v) else (h, RExc "ParseError")
      end
    end.

  (* parsing.parse_observable: `obj = copy.deepcopy(_get_dict(data))`,
     `obj['_valid_refs'] = _valid_refs or []`, then the class or the copy *)
  Definition parse_observable (v vr : val) (ver : option bool) (ac : bool) (h : heap) : heap * res :=
    bindv (get_dict v h) (fun d h0 =>
      match str_atom (mapping_get h0 d (u "type")) with
      | None => (h0, RExc "ParseError")
      | Some ty =>
        bindv (copy_at (cm_pobs vt) fuel d h0) (fun cv h1 =>
          match cv with
          | VA _ => (h1, RExc "TypeError")
          | VR c =>
            let (h2, vr') := if truthy h1 vr then (h1, vr) else let (h', l) := alloc h1 (NList []) in (h', VR l) in
            match set_item h2 c (u "_valid_refs") vr' with
            | None => (h2, RExc "TypeError")
            | Some h3 =>
              let v21 := match ver with Some b => b | None => detect_v21 W h3 cv end in
              match class_for_type W ty v21 "observables" with
              | Some cls => rec (QConstruct cls cv) h3
              | None => if ac then (h3, RVal cv) else (h3, RExc "ParseError")
              end
            end
          end)
      end).

  Definition step (q : req) (h : heap) : heap * res :=
    match q with
    | QClean k v => clean k v h
    | QConstruct c kw => construct c kw h
    | QParse v ver ac => parse_dict v ver ac h
    | QParseObs v vr ver ac => parse_observable v vr ver ac h
    end.
End Interp.

Fixpoint interp (vt : variant) (W : world) (dfuel : nat) (n : nat) (q : req) (h : heap) : heap * res :=
  match n with
  | O => (h, RFuel)
  | S n' => step vt W (interp vt W dfuel n') dfuel q h
  end.

(* Model/PatternShow.v -- one-line renderings of the C10 model's values for
   the correspondence run (harness/impl/c10_impl.py prints the implementation's
   values in the same format).  No proofs.  Every printer takes the text that
   follows as an accumulator (linear cost).                                   *)
From Coq Require Import NArith ZArith List String Ascii Bool.
From V Require Import Model.PatternSyntax.
Import ListNotations.
Open Scope string_scope.

Definition sh := string -> string.
Definition lit (s : string) : sh := fun acc => append s acc.
Definition sq (l : list sh) : sh := fun acc => fold_right (fun f a => f a) acc l.
Definition seps {A} (f : A -> sh) (sep : string) : list A -> sh :=
  fix go (l : list A) (acc : string) : string :=
    match l with
    | [] => acc
    | [x] => f x acc
    | x :: r => f x (append sep (go r acc))
    end.

(* text: printable ASCII except backslash, double quote and the structural
   characters ( ) [ ] ; , as is, everything else \XXXXXX *)
Definition show_qc (c : N) (acc : string) : string :=
  if ((32 <=? c) && (c <=? 126) && negb (c =? 92) && negb (c =? 34) &&
      negb (c =? 40) && negb (c =? 41) && negb (c =? 91) && negb (c =? 93) && negb (c =? 59) && negb (c =? 44))%N
  then String (ascii_of_N c) acc
  else String "\" (String (hexdigit (c / 1048576 mod 16)) (String (hexdigit (c / 65536 mod 16))
       (String (hexdigit (c / 4096 mod 16)) (String (hexdigit (c / 256 mod 16))
       (String (hexdigit (c / 16 mod 16)) (String (hexdigit (c mod 16)) acc)))))).
Definition show_q (s : ustring) : sh := fun acc => fold_right show_qc acc s.
Definition shN (n : N) : sh := lit (show_N n).
Definition shZ (z : Z) : sh := lit (show_Z z).

Definition show_ts (t : tsval) : sh :=
  sq [lit "T("; shN (ts_y t); lit ","; shN (ts_mo t); lit ","; shN (ts_d t); lit ","; shN (ts_h t); lit ",";
      shN (ts_mi t); lit ","; shN (ts_s t); lit ","; show_q (ts_us t); lit ")"].
Definition show_f (f : fval) : sh :=
  sq [lit "F("; lit (if f_neg f then "-" else "+"); lit ","; show_q (f_ip f); lit ","; show_q (f_fp f); lit ")"].

Fixpoint show_const (c : aconst) : sh :=
  match c with
  | CString v q => sq [lit "S("; show_q v; lit ","; lit (if q then "q" else "r"); lit ")"]
  | CTimestamp t => show_ts t
  | CInt z => sq [lit "I("; shZ z; lit ")"]
  | CFloat f => show_f f
  | CBool b => lit (if b then "B(t)" else "B(f)")
  | CBinary v => sq [lit "Y("; show_q v; lit ")"]
  | CHex v => sq [lit "H("; show_q v; lit ")"]
  | CList l => sq [lit "L["; seps show_const ";" l; lit "]"]
  end.

Definition show_idx (i : aindex) : sh :=
  match i with IdxInt z => sq [lit "i"; shZ z] | IdxStr s => sq [lit "s"; show_q s] end.
Definition show_comp (c : acomp) : sh :=
  match c with
  | ABasic n => sq [lit "b("; show_q n; lit ")"]
  | AList n i => sq [lit "l("; show_q n; lit ","; show_idx i; lit ")"]
  | ARef n => sq [lit "r("; show_q n; lit ")"]
  end.
Definition show_path (p : apath) : sh :=
  sq [lit "P("; show_q (ap_type p); lit ")["; seps show_comp ";" (ap_comps p); lit "]"].

Definition show_cls (c : cmpcls) : string :=
  match c with
  | KlEq => "Equality" | KlGt => "GreaterThan" | KlLt => "LessThan" | KlGe => "GreaterThanEqual"
  | KlLe => "LessThanEqual" | KlIn => "In" | KlLike => "Like" | KlMatches => "Matches"
  | KlSubset => "IsSubset" | KlSuperset => "IsSuperset"
  end.
Definition show_obsop (o : obsop) : string :=
  match o with OpAnd => "AND" | OpOr => "OR" | OpFb => "FOLLOWEDBY" end.

Definition show_qual (q : aqual) : sh :=
  match q with
  | AQRepeat c => sq [lit "Rep("; show_const c; lit ")"]
  | AQWithin c => sq [lit "Win("; show_const c; lit ")"]
  | AQStartStop a b => sq [lit "SS("; show_const a; lit ";"; show_const b; lit ")"]
  end.

Fixpoint show_expr (e : aexpr) : sh :=
  match e with
  | ECmp cls lhs rhs neg =>
      sq [lit "Cmp("; lit (show_cls cls); lit ","; show_q (tx (cls_operator cls rhs)); lit ",";
          lit (if neg then "1" else "0"); lit ","; show_path lhs; lit ","; show_const rhs; lit ")"]
  | EBool isand ops => sq [lit "Bool("; lit (if isand then "AND" else "OR"); lit ")["; seps show_expr ";" ops; lit "]"]
  | EObs x => sq [lit "Obs["; show_expr x; lit "]"]
  | ECompound op ops => sq [lit "Cpd("; lit (show_obsop op); lit ")["; seps show_expr ";" ops; lit "]"]
  | EParen x => sq [lit "Par["; show_expr x; lit "]"]
  | EQualified x q => sq [lit "Qual["; show_expr x; lit ";"; show_qual q; lit "]"]
  end.

Definition show_exn (e : exn) : string :=
  match e with
  | ValueError => "ValueError" | TypeError => "TypeError" | AttributeError => "AttributeError"
  | IndexError => "IndexError" | ParseException => "ParseException" | Junk => "Junk"
  end.

Definition show_result (r : result aexpr) : sh :=
  match r with Ok e => sq [lit "OK "; show_expr e] | Raise x => sq [lit "EXC "; lit (show_exn x)] end.

(* ---- the parse tree, in the format c10_impl.py prints the ANTLR tree ---- *)

Definition sh_tok (t : token) : sh := show_q (tx t).
Definition node (name : string) (kids : list sh) : sh :=
  sq [lit "("; lit name; lit " "; seps (fun f => f) " " kids; lit ")"].

Definition sh_pstep (s : pstep) : sh :=
  match s with
  | KeyStep n => node "KeyPathStep" [sh_tok t_DOT; sh_tok n]
  | IndexStep i => node "IndexPathStep" [sh_tok t_LBRACK; sh_tok i; sh_tok t_RBRACK]
  end.
Fixpoint sh_opc (c : opc) : sh :=
  match c with
  | OStep s => sh_pstep s
  | OPathStep l r => node "PathStep" [sh_opc l; sh_pstep r]
  end.
Definition sh_path (p : objpath) : sh :=
  node "ObjectPath" ([node "ObjectType" [sh_tok (op_type p)]; sh_tok t_COLON;
                      node "FirstPathComponent" [sh_tok (op_first p)]]
                     ++ match op_rest p with Some c => [sh_opc c] | None => [] end).
Definition sh_orderable (t : token) : sh := node "OrderableLiteral" [sh_tok t].
Definition sh_primitive (t : token) : sh :=
  match tk t with
  | KBool => node "PrimitiveLiteral" [sh_tok t]
  | _ => node "PrimitiveLiteral" [sh_orderable t]
  end.
Fixpoint sh_set_items (l : list token) : list sh :=
  match l with [] => [] | [x] => [sh_primitive x] | x :: r => sh_primitive x :: sh_tok t_COMMA :: sh_set_items r end.
Definition sh_not (nt : bool) : list sh := if nt then [sh_tok t_NOT] else [].
Definition strop_name (o : strop) : string :=
  match o with SLike => "PropTestLike" | SRegex => "PropTestRegex" | SIsSubset => "PropTestIsSubset"
             | SIsSuperset => "PropTestIsSuperset" end.

Fixpoint sh_pt (p : proptest) : sh :=
  match p with
  | PTEqual p nt op l => node "PropTestEqual" ([sh_path p] ++ sh_not nt ++ [sh_tok op; sh_primitive l])
  | PTOrder p nt op l => node "PropTestOrder" ([sh_path p] ++ sh_not nt ++ [sh_tok op; sh_orderable l])
  | PTSet p nt es => node "PropTestSet" ([sh_path p] ++ sh_not nt ++
                       [sh_tok t_IN; node "SetLiteral" ([sh_tok t_LPAREN] ++ sh_set_items es ++ [sh_tok t_RPAREN])])
  | PTStr o p nt s => node (strop_name o) ([sh_path p] ++ sh_not nt ++ [sh_tok (strop_tok o); sh_tok s])
  | PTParen e => node "PropTestParen" [sh_tok t_LPAREN; sh_or e; sh_tok t_RPAREN]
  | PTExists nt p => node "PropTestExists" (sh_not nt ++ [sh_tok t_EXISTS; sh_path p])
  end
with sh_and (a : cmpand) : sh :=
  match a with
  | CAndBase p => node "ComparisonExpressionAnd" [sh_pt p]
  | CAnd l r => node "ComparisonExpressionAnd" [sh_and l; sh_tok t_AND; node "ComparisonExpressionAnd" [sh_pt r]]
  end
with sh_or (o : cmpor) : sh :=
  match o with
  | COrBase a => node "ComparisonExpression" [sh_and a]
  | COr l r => node "ComparisonExpression" [sh_or l; sh_tok t_OR; node "ComparisonExpression" [sh_and r]]
  end.

Definition sh_qual (q : qual) : sh :=
  match q with
  | QStartStop a b => node "StartStopQualifier" [sh_tok t_START; sh_tok a; sh_tok t_STOP; sh_tok b]
  | QWithin n => node "WithinQualifier" [sh_tok t_WITHIN; sh_tok n; sh_tok t_SECONDS]
  | QRepeat n => node "RepeatedQualifier" [sh_tok t_REPEATS; sh_tok n; sh_tok t_TIMES]
  end.
Definition qual_alt (q : qual) : string :=
  match q with
  | QStartStop _ _ => "ObservationExpressionStartStop"
  | QWithin _ => "ObservationExpressionWithin"
  | QRepeat _ => "ObservationExpressionRepeated"
  end.

Fixpoint sh_obs (o : obs) : sh :=
  match o with
  | OSimple e => node "ObservationExpressionSimple" [sh_tok t_LBRACK; sh_or e; sh_tok t_RBRACK]
  | OCompound e => node "ObservationExpressionCompound" [sh_tok t_LPAREN; sh_fb e; sh_tok t_RPAREN]
  | OQual o q => node (qual_alt q) [sh_obs o; sh_qual q]
  end
with sh_oand (a : obsand) : sh :=
  match a with
  | OAndBase o => node "ObservationExpressionAnd" [sh_obs o]
  | OAnd l r => node "ObservationExpressionAnd" [sh_oand l; sh_tok t_AND; node "ObservationExpressionAnd" [sh_obs r]]
  end
with sh_oor (a : obsor) : sh :=
  match a with
  | OOrBase o => node "ObservationExpressionOr" [sh_oand o]
  | OOr l r => node "ObservationExpressionOr" [sh_oor l; sh_tok t_OR; node "ObservationExpressionOr" [sh_oand r]]
  end
with sh_fb (a : obsfb) : sh :=
  match a with
  | OFbBase o => node "ObservationExpressions" [sh_oor o]
  | OFb l r => node "ObservationExpressions" [sh_fb l; sh_tok t_FOLLOWEDBY; node "ObservationExpressions" [sh_oor r]]
  end.

Definition shape (p : pattern) : sh := node "Pattern" [sh_fb p; sh_tok t_EOF].

(* tokens of the printed text, as "KIND:length KIND:length ..." (the text
   itself is compared through str()) *)
Definition show_kind (k : tkind) : string :=
  match k with
  | KIntNeg => "IntNegLiteral" | KIntPos => "IntPosLiteral" | KFloatNeg => "FloatNegLiteral"
  | KFloatPos => "FloatPosLiteral" | KHex => "HexLiteral" | KBinary => "BinaryLiteral"
  | KString => "StringLiteral" | KBool => "BoolLiteral" | KTimestamp => "TimestampLiteral"
  | KAND => "AND" | KOR => "OR" | KNOT => "NOT" | KFOLLOWEDBY => "FOLLOWEDBY" | KLIKE => "LIKE"
  | KMATCHES => "MATCHES" | KISSUPERSET => "ISSUPERSET" | KISSUBSET => "ISSUBSET" | KEXISTS => "EXISTS"
  | KIN => "IN" | KSTART => "START" | KSTOP => "STOP" | KSECONDS => "SECONDS" | KWITHIN => "WITHIN"
  | KREPEATS => "REPEATS" | KTIMES => "TIMES" | KIdent => "IdentifierWithoutHyphen"
  | KIdentHyphen => "IdentifierWithHyphen" | KEQ => "EQ" | KNEQ => "NEQ" | KLT => "LT" | KLE => "LE"
  | KGT => "GT" | KGE => "GE" | KCOLON => "COLON" | KDOT => "DOT" | KCOMMA => "COMMA"
  | KRPAREN => "RPAREN" | KLPAREN => "LPAREN" | KRBRACK => "RBRACK" | KLBRACK => "LBRACK"
  | KASTERISK => "ASTERISK" | KEOF => "EOF"
  end.
Definition show_toks (l : list token) : sh :=
  seps (fun t => sq [lit (show_kind (tk t)); lit ":"; lit (show_nat (List.length (tx t)))]) " " l.

(* ---- meaning ---- *)
Fixpoint show_mconst (c : mconst) : sh :=
  match c with
  | MStr s => sq [lit "S("; show_q s; lit ")"]
  | MTs t => show_ts t
  | MInt z => sq [lit "I("; shZ z; lit ")"]
  | MFloat f => show_f f
  | MBool b => lit (if b then "B(t)" else "B(f)")
  | MBin v => sq [lit "Y("; show_q v; lit ")"]
  | MHex v => sq [lit "H("; show_q v; lit ")"]
  | MList l => sq [lit "L["; seps show_mconst ";" l; lit "]"]
  | MBadConst => lit "BAD"
  end.
Definition show_mstep (s : mstep) : sh :=
  match s with
  | MKey n => sq [lit "k("; show_q n; lit ")"] | MIndex z => sq [lit "i("; shZ z; lit ")"]
  | MStar => lit "*" | MBadStep => lit "BAD"
  end.
Definition show_mpath (p : mpath) : sh :=
  sq [lit "P("; show_q (mp_type p); lit ")["; seps show_mstep ";" (mp_steps p); lit "]"].
Definition show_mop (o : mop) : string :=
  match o with
  | MoEq => "=" | MoGt => ">" | MoLt => "<" | MoGe => ">=" | MoLe => "<=" | MoIn => "IN" | MoLike => "LIKE"
  | MoMatches => "MATCHES" | MoSubset => "ISSUBSET" | MoSuperset => "ISSUPERSET" | MoExists => "EXISTS"
  end.
Definition show_mqual (q : mqual) : sh :=
  match q with
  | MRepeat c => sq [lit "Rep("; show_mconst c; lit ")"]
  | MWithin c => sq [lit "Win("; show_mconst c; lit ")"]
  | MStartStop a b => sq [lit "SS("; show_mconst a; lit ";"; show_mconst b; lit ")"]
  | MBadQual => lit "BAD"
  end.
Fixpoint show_mexpr (e : mexpr) : sh :=
  match e with
  | MCmp p op neg c => sq [lit "Cmp("; show_mpath p; lit ","; lit (show_mop op); lit ","; lit (if neg then "1" else "0");
                           lit ","; show_mconst c; lit ")"]
  | MExists p neg => sq [lit "Exists("; show_mpath p; lit ","; lit (if neg then "1" else "0"); lit ")"]
  | MBoolOp isand ops => sq [lit "Bool("; lit (if isand then "AND" else "OR"); lit ")["; seps show_mexpr ";" ops; lit "]"]
  | MObs x => sq [lit "Obs["; show_mexpr x; lit "]"]
  | MObsOp op ops => sq [lit "Cpd("; lit (show_obsop op); lit ")["; seps show_mexpr ";" ops; lit "]"]
  | MParen x => sq [lit "Par["; show_mexpr x; lit "]"]
  | MQualified x q => sq [lit "Qual["; show_mexpr x; lit ";"; show_mqual q; lit "]"]
  | MBad => lit "BAD"
  end.

(* ---- the lines the correspondence run asks for ---- *)
Definition tab : string := String (ascii_of_nat 9) EmptyString.

Fixpoint toks_eqb (a b : list token) : bool :=
  match a, b with
  | [], [] => true
  | x :: a', y :: b' => tkind_eqb (tk x) (tk y) && ustr_eqb (tx x) (tx y) && toks_eqb a' b'
  | _, _ => false
  end.

(* a field is printed in full (diagnostics) or as a 61-bit polynomial hash of
   its text (the run: reading a long string back from the VM is the cost) *)
Definition hash_mask : N := 2305843009213693951.
Fixpoint hash_go (s : string) (h : N) : N :=
  match s with
  | EmptyString => h
  | String a r => hash_go r (N.land (h * 131 + N_of_ascii a) hash_mask)
  end.
Definition enc_full (f : sh) : sh := f.
Definition enc_hash (f : sh) : sh := lit (show_N (hash_go (f "") 7)).

Definition result_kind (r : result aexpr) : sh :=
  match r with Ok _ => lit "OK" | Raise x => sq [lit "EXC "; lit (show_exn x)] end.

(* parse tree shape, kind of the visit result, visit result, str() of the
   object, its tokens, meaning of tree and object; then: does unvisit give a
   tree whose yield is exactly the printed tokens (Y/y), and does the visitor
   map that tree back to the same object (V/v, x = it raises) *)
Definition run_case_with (enc : sh -> sh) (g : cfg) (p : pattern) : string :=
  let r := visit g p in
  sq [enc (shape p); lit tab; result_kind r; lit tab; enc (show_result r); lit tab;
      match r with Ok a => enc (show_q (print_text g a)) | Raise _ => lit "-" end; lit tab;
      match r with Ok a => enc (show_toks (print g a)) | Raise _ => lit "-" end; lit tab;
      enc (show_mexpr (meaning_cst p)); lit tab;
      match r with Ok a => enc (show_mexpr (meaning_ast g a)) | Raise _ => lit "-" end; lit tab;
      match r with
      | Ok a => match unvisit g a with
                | Some c => sq [lit (if toks_eqb (yield c) (print g a) then "Y" else "y");
                                match visit g c with
                                | Ok a' => lit (if String.eqb (show_expr a' "") (show_expr a "") then "V" else "v")
                                | Raise _ => lit "x" end]
                | None => lit "none" end
      | Raise _ => lit "-" end] "".
Definition run_case := run_case_with enc_full.
Definition run_case_h := run_case_with enc_hash.

(* an object built through the public classes: str(), meaning, the tree unvisit
   gives, what the visitor makes of that tree, yield = printed tokens *)
Definition run_prog_with (enc : sh -> sh) (g : cfg) (a : aexpr) : string :=
  sq [enc (show_q (print_text g a)); lit tab; enc (show_mexpr (meaning_ast g a)); lit tab;
      match unvisit g a with
      | Some c => sq [enc (shape c); lit tab; enc (show_result (visit g c)); lit tab;
                      lit (if toks_eqb (yield c) (print g a) then "Y" else "y")]
      | None => sq [lit "none"; lit tab; lit "-"; lit tab; lit "-"]
      end] "".
Definition run_prog := run_prog_with enc_full.
Definition run_prog_h := run_prog_with enc_hash.

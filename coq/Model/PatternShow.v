(* Model/PatternShow.v -- one-line renderings of the C10 model's values for
   the correspondence run (harness/props/c10.py prints the implementation's
   values in the same format).  No proofs.                                   *)
From Coq Require Import NArith ZArith List String Ascii Bool.
From V Require Import Model.PatternSyntax.
Import ListNotations.
Open Scope string_scope.

(* text: [A-Za-z0-9_] as is, everything else \XXXXXX *)
Definition show_qc (c : N) (acc : string) : string :=
  if is_alpha_ c || is_digit c then String (ascii_of_N c) acc
  else String "\" (String (hexdigit (c / 1048576 mod 16)) (String (hexdigit (c / 65536 mod 16))
       (String (hexdigit (c / 4096 mod 16)) (String (hexdigit (c / 256 mod 16))
       (String (hexdigit (c / 16 mod 16)) (String (hexdigit (c mod 16)) acc)))))).
Definition show_q (s : ustring) : string := fold_right show_qc EmptyString s.

Definition cat (l : list string) : string := fold_right append EmptyString l.
Fixpoint sepcat (sep : string) (l : list string) : string :=
  match l with [] => "" | [x] => x | x :: r => x ++ sep ++ sepcat sep r end.

Definition show_digits (l : list N) : string := show_q l.

Definition show_ts (t : tsval) : string :=
  cat ["T("; show_N (ts_y t); ","; show_N (ts_mo t); ","; show_N (ts_d t); ","; show_N (ts_h t); ",";
       show_N (ts_mi t); ","; show_N (ts_s t); ","; show_digits (ts_us t); ")"].

Fixpoint show_const (c : aconst) : string :=
  match c with
  | CString v q => cat ["S("; show_q v; ","; if q then "q" else "r"; ")"]
  | CTimestamp t => show_ts t
  | CInt z => cat ["I("; show_Z z; ")"]
  | CFloat f => cat ["F("; if f_neg f then "-" else "+"; ","; show_digits (f_ip f); ","; show_digits (f_fp f); ")"]
  | CBool b => if b then "B(t)" else "B(f)"
  | CBinary v => cat ["Y("; show_q v; ")"]
  | CHex v => cat ["H("; show_q v; ")"]
  | CList l => cat ["L["; sepcat ";" (map show_const l); "]"]
  end.

Definition show_idx (i : aindex) : string :=
  match i with IdxInt z => cat ["i"; show_Z z] | IdxStr s => cat ["s"; show_q s] end.
Definition show_comp (c : acomp) : string :=
  match c with
  | ABasic n => cat ["b("; show_q n; ")"]
  | AList n i => cat ["l("; show_q n; ","; show_idx i; ")"]
  | ARef n => cat ["r("; show_q n; ")"]
  end.
Definition show_path (p : apath) : string :=
  cat ["P("; show_q (ap_type p); ")["; sepcat ";" (map show_comp (ap_comps p)); "]"].

Definition show_cls (c : cmpcls) : string :=
  match c with
  | KlEq => "Equality" | KlGt => "GreaterThan" | KlLt => "LessThan" | KlGe => "GreaterThanEqual"
  | KlLe => "LessThanEqual" | KlIn => "In" | KlLike => "Like" | KlMatches => "Matches"
  | KlSubset => "IsSubset" | KlSuperset => "IsSuperset"
  end.
Definition show_obsop (o : obsop) : string :=
  match o with OpAnd => "AND" | OpOr => "OR" | OpFb => "FOLLOWEDBY" end.

Definition show_qual (q : aqual) : string :=
  match q with
  | AQRepeat c => cat ["Rep("; show_const c; ")"]
  | AQWithin c => cat ["Win("; show_const c; ")"]
  | AQStartStop a b => cat ["SS("; show_const a; ";"; show_const b; ")"]
  end.

Fixpoint show_expr (e : aexpr) : string :=
  match e with
  | ECmp cls lhs rhs neg =>
      cat ["Cmp("; show_cls cls; ","; show_q (tx (cls_operator cls rhs)); ","; if neg then "1" else "0"; ",";
           show_path lhs; ","; show_const rhs; ")"]
  | EBool isand ops => cat ["Bool("; if isand then "AND" else "OR"; ")["; sepcat ";" (map show_expr ops); "]"]
  | EObs x => cat ["Obs["; show_expr x; "]"]
  | ECompound op ops => cat ["Cpd("; show_obsop op; ")["; sepcat ";" (map show_expr ops); "]"]
  | EParen x => cat ["Par["; show_expr x; "]"]
  | EQualified x q => cat ["Qual["; show_expr x; ";"; show_qual q; "]"]
  end.

Definition show_exn (e : exn) : string :=
  match e with
  | ValueError => "ValueError" | TypeError => "TypeError" | AttributeError => "AttributeError"
  | IndexError => "IndexError" | ParseException => "ParseException" | Junk => "Junk"
  end.

Definition show_result (r : result aexpr) : string :=
  match r with Ok e => "OK " ++ show_expr e | Raise x => "EXC " ++ show_exn x end.

(* ---- the parse tree, in the format c10_impl.py prints the ANTLR tree ---- *)

Definition sh_tok (t : token) : string := show_q (tx t).
Definition node (name : string) (kids : list string) : string := cat ["("; name; " "; sepcat " " kids; ")"].

Definition sh_pstep (s : pstep) : string :=
  match s with
  | KeyStep n => node "KeyPathStep" [sh_tok t_DOT; sh_tok n]
  | IndexStep i => node "IndexPathStep" [sh_tok t_LBRACK; sh_tok i; sh_tok t_RBRACK]
  end.
Fixpoint sh_opc (c : opc) : string :=
  match c with
  | OStep s => sh_pstep s
  | OPathStep l r => node "PathStep" [sh_opc l; sh_pstep r]
  end.
Definition sh_path (p : objpath) : string :=
  node "ObjectPath" ([node "ObjectType" [sh_tok (op_type p)]; sh_tok t_COLON;
                      node "FirstPathComponent" [sh_tok (op_first p)]]
                     ++ match op_rest p with Some c => [sh_opc c] | None => [] end).
Definition sh_orderable (t : token) : string := node "OrderableLiteral" [sh_tok t].
Definition sh_primitive (t : token) : string :=
  match tk t with
  | KBool => node "PrimitiveLiteral" [sh_tok t]
  | _ => node "PrimitiveLiteral" [sh_orderable t]
  end.
Fixpoint sh_set_items (l : list token) : list string :=
  match l with [] => [] | [x] => [sh_primitive x] | x :: r => sh_primitive x :: sh_tok t_COMMA :: sh_set_items r end.
Definition sh_not (nt : bool) : list string := if nt then [sh_tok t_NOT] else [].
Definition strop_name (o : strop) : string :=
  match o with SLike => "PropTestLike" | SRegex => "PropTestRegex" | SIsSubset => "PropTestIsSubset"
             | SIsSuperset => "PropTestIsSuperset" end.

Fixpoint sh_pt (p : proptest) : string :=
  match p with
  | PTEqual p nt op l => node "PropTestEqual" ([sh_path p] ++ sh_not nt ++ [sh_tok op; sh_primitive l])
  | PTOrder p nt op l => node "PropTestOrder" ([sh_path p] ++ sh_not nt ++ [sh_tok op; sh_orderable l])
  | PTSet p nt es => node "PropTestSet" ([sh_path p] ++ sh_not nt ++
                       [sh_tok t_IN; node "SetLiteral" ([sh_tok t_LPAREN] ++ sh_set_items es ++ [sh_tok t_RPAREN])])
  | PTStr o p nt s => node (strop_name o) ([sh_path p] ++ sh_not nt ++ [sh_tok (strop_tok o); sh_tok s])
  | PTParen e => node "PropTestParen" [sh_tok t_LPAREN; sh_or e; sh_tok t_RPAREN]
  | PTExists nt p => node "PropTestExists" (sh_not nt ++ [sh_tok t_EXISTS; sh_path p])
  end
with sh_and (a : cmpand) : string :=
  match a with
  | CAndBase p => node "ComparisonExpressionAnd" [sh_pt p]
  | CAnd l r => node "ComparisonExpressionAnd" [sh_and l; sh_tok t_AND; node "ComparisonExpressionAnd" [sh_pt r]]
  end
with sh_or (o : cmpor) : string :=
  match o with
  | COrBase a => node "ComparisonExpression" [sh_and a]
  | COr l r => node "ComparisonExpression" [sh_or l; sh_tok t_OR; node "ComparisonExpression" [sh_and r]]
  end.

Definition sh_qual (q : qual) : string :=
  match q with
  | QStartStop a b => node "StartStopQualifier" [sh_tok t_START; sh_tok a; sh_tok t_STOP; sh_tok b]
  | QWithin n => node "WithinQualifier" [sh_tok t_WITHIN; sh_tok n; sh_tok t_SECONDS]
  | QRepeat n => node "RepeatedQualifier" [sh_tok t_REPEATS; sh_tok n; sh_tok t_TIMES]
  end.
Definition qual_alt (q : qual) : string :=
  match q with
  | QStartStop _ _ => "ObservationExpressionStartStop"
  | QWithin _ => "ObservationExpressionWithin"
  | QRepeat _ => "ObservationExpressionRepeated"
  end.

Fixpoint sh_obs (o : obs) : string :=
  match o with
  | OSimple e => node "ObservationExpressionSimple" [sh_tok t_LBRACK; sh_or e; sh_tok t_RBRACK]
  | OCompound e => node "ObservationExpressionCompound" [sh_tok t_LPAREN; sh_fb e; sh_tok t_RPAREN]
  | OQual o q => node (qual_alt q) [sh_obs o; sh_qual q]
  end
with sh_oand (a : obsand) : string :=
  match a with
  | OAndBase o => node "ObservationExpressionAnd" [sh_obs o]
  | OAnd l r => node "ObservationExpressionAnd" [sh_oand l; sh_tok t_AND; node "ObservationExpressionAnd" [sh_obs r]]
  end
with sh_oor (a : obsor) : string :=
  match a with
  | OOrBase o => node "ObservationExpressionOr" [sh_oand o]
  | OOr l r => node "ObservationExpressionOr" [sh_oor l; sh_tok t_OR; node "ObservationExpressionOr" [sh_oand r]]
  end
with sh_fb (a : obsfb) : string :=
  match a with
  | OFbBase o => node "ObservationExpressions" [sh_oor o]
  | OFb l r => node "ObservationExpressions" [sh_fb l; sh_tok t_FOLLOWEDBY; node "ObservationExpressions" [sh_oor r]]
  end.

Definition shape (p : pattern) : string := node "Pattern" [sh_fb p; sh_tok t_EOF].

(* tokens, as "KIND:text KIND:text ..." *)
Definition show_kind (k : tkind) : string :=
  match k with
  | KIntNeg => "IntNegLiteral" | KIntPos => "IntPosLiteral" | KFloatNeg => "FloatNegLiteral"
  | KFloatPos => "FloatPosLiteral" | KHex => "HexLiteral" | KBinary => "BinaryLiteral"
  | KString => "StringLiteral" | KBool => "BoolLiteral" | KTimestamp => "TimestampLiteral"
  | KAND => "AND" | KOR => "OR" | KNOT => "NOT" | KFOLLOWEDBY => "FOLLOWEDBY" | KLIKE => "LIKE"
  | KMATCHES => "MATCHES" | KISSUPERSET => "ISSUPERSET" | KISSUBSET => "ISSUBSET" | KEXISTS => "EXISTS"
  | KIN => "IN" | KSTART => "START" | KSTOP => "STOP" | KSECONDS => "SECONDS" | KWITHIN => "WITHIN"
  | KREPEATS => "REPEATS" | KTIMES => "TIMES" | KIdent => "IdentifierWithoutHyphen"
  | KIdentHyphen => "IdentifierWithHyphen" | KEQ => "EQ" | KNEQ => "NEQ" | KLT => "LT" | KLE => "LE"
  | KGT => "GT" | KGE => "GE" | KCOLON => "COLON" | KDOT => "DOT" | KCOMMA => "COMMA"
  | KRPAREN => "RPAREN" | KLPAREN => "LPAREN" | KRBRACK => "RBRACK" | KLBRACK => "LBRACK"
  | KASTERISK => "ASTERISK" | KEOF => "EOF"
  end.
Definition show_toks (l : list token) : string :=
  sepcat " " (map (fun t => cat [show_kind (tk t); ":"; show_q (tx t)]) l).

(* ---- meaning ---- *)
Fixpoint show_mconst (c : mconst) : string :=
  match c with
  | MStr s => cat ["S("; show_q s; ")"]
  | MTs t => show_ts t
  | MInt z => cat ["I("; show_Z z; ")"]
  | MFloat f => cat ["F("; if f_neg f then "-" else "+"; ","; show_digits (f_ip f); ","; show_digits (f_fp f); ")"]
  | MBool b => if b then "B(t)" else "B(f)"
  | MBin v => cat ["Y("; show_q v; ")"]
  | MHex v => cat ["H("; show_q v; ")"]
  | MList l => cat ["L["; sepcat ";" (map show_mconst l); "]"]
  | MBadConst => "BAD"
  end.
Definition show_mstep (s : mstep) : string :=
  match s with
  | MKey n => cat ["k("; show_q n; ")"] | MIndex z => cat ["i("; show_Z z; ")"] | MStar => "*" | MBadStep => "BAD"
  end.
Definition show_mpath (p : mpath) : string :=
  cat ["P("; show_q (mp_type p); ")["; sepcat ";" (map show_mstep (mp_steps p)); "]"].
Definition show_mop (o : mop) : string :=
  match o with
  | MoEq => "=" | MoGt => ">" | MoLt => "<" | MoGe => ">=" | MoLe => "<=" | MoIn => "IN" | MoLike => "LIKE"
  | MoMatches => "MATCHES" | MoSubset => "ISSUBSET" | MoSuperset => "ISSUPERSET" | MoExists => "EXISTS"
  end.
Definition show_mqual (q : mqual) : string :=
  match q with
  | MRepeat c => cat ["Rep("; show_mconst c; ")"]
  | MWithin c => cat ["Win("; show_mconst c; ")"]
  | MStartStop a b => cat ["SS("; show_mconst a; ";"; show_mconst b; ")"]
  | MBadQual => "BAD"
  end.
Fixpoint show_mexpr (e : mexpr) : string :=
  match e with
  | MCmp p op neg c => cat ["Cmp("; show_mpath p; ","; show_mop op; ","; if neg then "1" else "0"; ","; show_mconst c; ")"]
  | MExists p neg => cat ["Exists("; show_mpath p; ","; if neg then "1" else "0"; ")"]
  | MBoolOp isand ops => cat ["Bool("; if isand then "AND" else "OR"; ")["; sepcat ";" (map show_mexpr ops); "]"]
  | MObs x => cat ["Obs["; show_mexpr x; "]"]
  | MObsOp op ops => cat ["Cpd("; show_obsop op; ")["; sepcat ";" (map show_mexpr ops); "]"]
  | MParen x => cat ["Par["; show_mexpr x; "]"]
  | MQualified x q => cat ["Qual["; show_mexpr x; ";"; show_mqual q; "]"]
  | MBad => "BAD"
  end.

(* ---- the lines the correspondence run asks for ---- *)
Definition tab : string := String (ascii_of_nat 9) EmptyString.

(* parse tree shape, visit result, str() of the object, its tokens, meaning of tree and object *)
Definition run_case (g : cfg) (p : pattern) : string :=
  let r := visit g p in
  cat [shape p; tab; show_result r; tab;
       match r with Ok a => show_q (print_text a) | Raise _ => "-" end; tab;
       match r with Ok a => show_toks (print a) | Raise _ => "-" end; tab;
       show_mexpr (meaning_cst p); tab;
       match r with Ok a => show_mexpr (meaning_ast a) | Raise _ => "-" end; tab;
       match r with
       | Ok a => match unvisit a with
                 | Some c => cat [if forallb (fun ab => ustr_eqb (tx (fst ab)) (tx (snd ab)) && tkind_eqb (tk (fst ab)) (tk (snd ab)))
                                         (combine (yield c) (print a)) && Nat.eqb (List.length (yield c)) (List.length (print a))
                                  then "Y" else "y";
                                  match visit g c with Ok a' => if String.eqb (show_expr a') (show_expr a) then "V" else "v" | Raise _ => "x" end]
                 | None => "none" end
       | Raise _ => "-" end].

(* an object built through the public classes: str(), tokens, meaning, and what re-parsing gives *)
Definition run_prog (g : cfg) (a : aexpr) : string :=
  cat [show_q (print_text a); tab; show_mexpr (meaning_ast a); tab;
       match unvisit a with
       | Some c => cat [shape c; tab; show_result (visit g c)]
       | None => cat ["none"; tab; "-"]
       end].

(* Model/ScoIdSrc.v -- the vocabulary in which translators/tr_scoid.py reports the
   shape of stix2/base.py:_Observable._generate_id, _make_json_serializable and
   stix2/v21/base.py:_Observable.__init__ read from their ast on every run
   (Gen/ScoIdTables.v), next to what Model/ScoId.v assumes of each point:
     presence test `key in self`            project: plookup key obj
     value `self[key]`                      the cleaned property value
     key == "hashes" -> _choose_one_hash    contrib_value, k_hashes; None -> InvalidValueError
     else _make_json_serializable           jsonable (dispatch order below)
     `if json_serializable_object:`         gen_id: IdRandom on the empty projection
     canonicalize(.., utf8=False)           canon (a str, not bytes, goes to uuid5)
     uuid.uuid5(SCO_DET_ID_NAMESPACE, data) the uuid5 parameter
     "{}--{}".format(self._type, str(uuid_))  ty ++ dashes ++ uuid5 data
   No proofs here.                                                              *)
From Coq Require Import String NArith List Bool.
From V Require Import Base.UString.
Import ListNotations.

Inductive presence_src := PresenceIn | PresenceTruthy | PresenceOther (src : ustring).
Inductive value_src := ValueIndex | ValueGet | ValueOther (src : ustring).

Record genid_src := {
  gs_loop_over : ustring;               (* the iterable of the for loop *)
  gs_presence : presence_src;
  gs_value : value_src;
  gs_hashes_key : ustring;              (* the key compared with == *)
  gs_hashes_fn : ustring;
  gs_hashes_none_raises : ustring;      (* exception class when that function returns None *)
  gs_other_fn : ustring;
  gs_nonempty_guard : bool;             (* the id is computed under `if json_serializable_object:` *)
  gs_canon_fn : ustring;
  gs_canon_utf8 : option bool;          (* the utf8= keyword of the call *)
  gs_uuid_fn : ustring;
  gs_namespace_name : ustring;
  gs_id_format : ustring;
  gs_id_args : list ustring
}.

(* _make_json_serializable, test by test *)
Inductive mjs_step :=
| MNoneRaises (exc : ustring)
| MMappingRecurse                      (* isinstance(value, collections.abc.Mapping): {k: f(v) for k, v in value.items()} *)
| MListRecurse                         (* isinstance(value, list): [f(v) for v in value] *)
| MOtherDumps (excluded : list ustring) (encoder : ustring) (ensure_ascii : bool) (strip_quotes_unescape : bool).

Record init21_src := {
  is_guard_id_not_in_kwargs : bool;     (* if 'id' not in kwargs: *)
  is_calls_generate_id : bool;
  is_replaces_only_when_not_none : bool (* if id_ is not None: self._inner["id"] = id_ *)
}.

Definition expected_genid : genid_src :=
  {| gs_loop_over := u "self._id_contributing_properties"; gs_presence := PresenceIn; gs_value := ValueIndex;
     gs_hashes_key := u "hashes"; gs_hashes_fn := u "_choose_one_hash"; gs_hashes_none_raises := u "InvalidValueError";
     gs_other_fn := u "_make_json_serializable"; gs_nonempty_guard := true;
     gs_canon_fn := u "canonicalize"; gs_canon_utf8 := Some false;
     gs_uuid_fn := u "uuid.uuid5"; gs_namespace_name := u "SCO_DET_ID_NAMESPACE";
     gs_id_format := u "{}--{}"; gs_id_args := [u "self._type"; u "str(uuid_)"] |}.

Definition expected_mjs : list mjs_step :=
  [MNoneRaises (u "ValueError"); MMappingRecurse; MListRecurse;
   MOtherDumps [u "int"; u "float"; u "str"; u "bool"] (u "STIXJSONEncoder") false true].

Definition expected_init21 : init21_src :=
  {| is_guard_id_not_in_kwargs := true; is_calls_generate_id := true; is_replaces_only_when_not_none := true |}.

(* Model/VersionDetect.v -- stix2/utils.py:detect_spec_version over jvalue,
   branch by branch, and the part of stix2/parsing.py:dict_to_stix2 /
   parse_observable that chooses the class (version, registry category).
   The registry is a parameter: the harness reads the live key sets of
   stix2.registry.STIX2_OBJ_MAPS on every run and passes them in.  No proofs. *)
From Coq Require Import NArith ZArith List String Bool.
From V Require Import Base.UString Base.Json.
Import ListNotations.

Inductive dres :=
| DVal (v : jvalue)          (* the value returned (normally a version string) *)
| DKeyError (k : ustring)    (* stix_dict[k] with k absent *)
| DValueError                (* max() of an empty sequence *)
| DParseError                (* variant notype_parse: a dict without "type" *)
| DTypeError                 (* indexing a non-dict, unhashable type name, unorderable versions *)
| DOutside.                  (* comparison of values this model does not order (lists, floats) *)

Definition k_type := u "type".
Definition k_spec_version := u "spec_version".
Definition k_id := u "id".
Definition k_objects := u "objects".
Definition s_bundle := u "bundle".
Definition v20 := u "2.0".
Definition v21 := u "2.1".

Definition is_bundle_type (ty : jvalue) : bool :=
  match ty with JStr s => ustr_eqb s s_bundle | _ => false end.

Definition umem (x : ustring) (l : list ustring) : bool := existsb (ustr_eqb x) l.

(* Python  a > b  for the values a version can be *)
Inductive cmpres := CGt | CNotGt | CTypeError | COutside.
Definition num_of (v : jvalue) : option Z :=
  match v with JInt z => Some z | JBool true => Some 1%Z | JBool false => Some 0%Z | _ => None end.
Definition py_gt (a b : jvalue) : cmpres :=
  match a, b with
  | JStr x, JStr y => match ustr_compare x y with Gt => CGt | _ => CNotGt end
  | JFloat _, _ | _, JFloat _ | JArr _, JArr _ => COutside
  | _, _ => match num_of a, num_of b with
            | Some x, Some y => if (y <? x)%Z then CGt else CNotGt
            | _, _ => CTypeError
            end
  end.

(* max(gen) evaluated left to right: the first error wins; `best` is replaced only by a strictly greater value *)
Fixpoint seq_max (rs : list dres) (best : option jvalue) : dres :=
  match rs with
  | [] => match best with Some v => DVal v | None => DValueError end
  | DVal v :: rest =>
      match best with
      | None => seq_max rest (Some v)
      | Some b => match py_gt v b with
                  | CGt => seq_max rest (Some v)
                  | CNotGt => seq_max rest (Some b)
                  | CTypeError => DTypeError
                  | COutside => DOutside
                  end
      end
  | e :: _ => e
  end.

(* max("2.1", m) *)
Definition max_with_21 (m : dres) : dres :=
  match m with
  | DVal v => match py_gt v (JStr v21) with
              | CGt => DVal v
              | CNotGt => DVal (JStr v21)
              | CTypeError => DTypeError
              | COutside => DOutside
              end
  | e => e
  end.

(* Two places where the pinned code and a proposed repair differ; the check finds out at run
   time which one the code matches (DESIGN 3, BUILDING "variants"):
     bundle_default : max(.., default="2.1") over stix_dict.get("objects", []) instead of
                      max(..) over stix_dict["objects"]  (an empty 2.1 bundle is then 2.1)
     notype_parse   : a dict without "type" raises ParseError instead of KeyError          *)
Record dmode := mkMode { bundle_default : bool; notype_parse : bool }.
Definition pinned_mode : dmode := mkMode false false.

Section Detect.
  Variable md : dmode.
  Variable obs21 : list ustring.   (* keys of STIX2_OBJ_MAPS["2.1"]["observables"] *)

  Definition empty_max : dres := if bundle_default md then DVal (JStr v21) else DValueError.

  (* iterating a non-list `objects` value: a str yields 1-char strs, a dict its keys (each then
     indexed with ["type"] -> TypeError); an empty one gives max() of nothing *)
  Definition iter_non_list (v : jvalue) : dres :=
    match v with
    | JStr [] => empty_max
    | JObj [] => empty_max
    | _ => DTypeError
    end.

  Fixpoint detect (d : jvalue) : dres :=
    match d with
    | JObj m =>
      (* results for the members of `objects`, computed here so that the recursion is structural *)
      let objs := (fix find (m : list (ustring * jvalue)) : option dres :=
                     match m with
                     | [] => None
                     | (k, v) :: rest =>
                       if ustr_eqb k_objects k then
                         Some (match v with
                               | JArr [] => empty_max
                               | JArr l => seq_max ((fix each (l : list jvalue) : list dres :=
                                                       match l with [] => [] | x :: r => detect x :: each r end) l) None
                               | other => iter_non_list other
                               end)
                       else find rest
                     end) m in
      match jlookup k_type m with
      | None => if notype_parse md then DParseError else DKeyError k_type
      | Some ty =>
        match jlookup k_spec_version m with
        | Some sv => if is_bundle_type ty then DVal (JStr v20) else DVal sv
        | None =>
          match jlookup k_id m with
          | None => DVal (JStr v20)
          | Some _ =>
            if is_bundle_type ty then
              match objs with
              | None => if bundle_default md then DVal (JStr v21) else DKeyError k_objects
              | Some r => max_with_21 r
              end
            else match ty with
                 | JArr _ | JObj _ => DTypeError                   (* unhashable in `obj_type in {..}` *)
                 | JStr t => if umem t obs21 then DVal (JStr v21) else DVal (JStr v20)
                 | _ => DVal (JStr v20)
                 end
          end
        end
      end
    | _ => DTypeError
    end.
End Detect.

(* ---- class choice in dict_to_stix2 / parse_observable ---- *)
Record registry := mkReg {
  r_objects20 : list ustring; r_observables20 : list ustring;
  r_objects21 : list ustring; r_observables21 : list ustring
}.

Inductive pick :=
| PClass (version : ustring) (category : string)   (* a registered class of that version's registry category *)
| PDict                                            (* returned as is *)
| PParseError
| PDetectError (e : dres)
| POutsideModel.

Definition truthy_version (v : option ustring) : bool :=
  match v with Some (_ :: _) => true | _ => false end.

Definition cat_keys (R : registry) (ver : ustring) (cat : string) : list ustring :=
  if ustr_eqb ver v20 then (if String.eqb cat "objects" then r_objects20 R else r_observables20 R)
  else if ustr_eqb ver v21 then (if String.eqb cat "objects" then r_objects21 R else r_observables21 R)
  else [].

Definition has_nonproperty_extension (m : list (ustring * jvalue)) : bool :=
  (* an `extensions` member with a key starting "extension-definition--" whose
     extension_type does not contain "property-extension" *)
  match jlookup (u "extensions") m with
  | Some (JObj exts) =>
      existsb (fun kv =>
        ustr_prefix (u "extension-definition--") (fst kv) &&
        match snd kv with
        | JObj em => match jlookup (u "extension_type") em with
                     | Some (JStr t) =>
                         negb ((fix has (s : ustring) : bool :=
                                  match s with
                                  | [] => false
                                  | _ :: r => ustr_prefix (u "property-extension") s || has r
                                  end) t)
                     | Some _ => false      (* `in` on a non-str: outside the generated domain *)
                     | None => true         (* .get(.., '') -> '' does not contain it *)
                     end
        | _ => false
        end) exts
  | _ => false
  end.

(* dict_to_stix2(stix_dict, allow_custom, _, version): which class, if any *)
Definition pick_object (md : dmode) (R : registry) (allow_custom : bool) (version : option ustring) (d : jvalue) : pick :=
  match d with
  | JObj m =>
    match jlookup k_type m with
    | None => PParseError
    | Some ty =>
      let ver := if truthy_version version then match version with Some v => DVal (JStr v) | None => DValueError end
                 else detect md (r_observables21 R) d in
      match ver with
      | DVal (JStr v) =>
        match ty with
        | JStr t =>
          if umem t (cat_keys R v "objects") then PClass v "objects"
          else if umem t (cat_keys R v "observables") then PClass v "observables"
          else if allow_custom then PDict
          else if has_nonproperty_extension m then PDict
          else PParseError
        | JArr _ | JObj _ => POutsideModel      (* unhashable dict key: TypeError *)
        | _ => if allow_custom then PDict else if has_nonproperty_extension m then PDict else PParseError
        end
      | DVal JNull | DVal (JInt _) | DVal (JBool _) =>
          (* a hashable non-string version finds no registry: no class *)
          match ty with
          | JArr _ | JObj _ => POutsideModel
          | _ => if allow_custom then PDict else if has_nonproperty_extension m then PDict else PParseError
          end
      | DVal _ => POutsideModel
      | e => PDetectError e
      end
    end
  | _ => POutsideModel
  end.

(* parse_observable(data, _, allow_custom, _, version) *)
Definition pick_observable (md : dmode) (R : registry) (allow_custom : bool) (version : option ustring) (d : jvalue) : pick :=
  match d with
  | JObj m =>
    match jlookup k_type m with
    | None => PParseError
    | Some ty =>
      (* detect runs on a copy that already has the _valid_refs member; that member never changes the result *)
      let ver := if truthy_version version then match version with Some v => DVal (JStr v) | None => DValueError end
                 else detect md (r_observables21 R) d in
      match ver with
      | DVal (JStr v) =>
        match ty with
        | JStr t => if umem t (cat_keys R v "observables") then PClass v "observables"
                    else if allow_custom then PDict else PParseError
        | JArr _ | JObj _ => POutsideModel
        | _ => if allow_custom then PDict else PParseError
        end
      | DVal JNull | DVal (JInt _) | DVal (JBool _) =>
          match ty with
          | JArr _ | JObj _ => POutsideModel
          | _ => if allow_custom then PDict else PParseError
          end
      | DVal _ => POutsideModel
      | e => PDetectError e
      end
    end
  | _ => POutsideModel
  end.

(* ---- rendering ---- *)
Open Scope string_scope.
Definition show_dres (r : dres) : string :=
  match r with
  | DVal v => "V " ++ show_jvalue v
  | DKeyError k => "KeyError " ++ show_ustr k
  | DValueError => "ValueError"
  | DParseError => "ParseError"
  | DTypeError => "TypeError"
  | DOutside => "OUTSIDE"
  end.

Definition show_pick (p : pick) : string :=
  match p with
  | PClass v c => "class " ++ show_ustr v ++ " " ++ c
  | PDict => "dict"
  | PParseError => "ParseError"
  | PDetectError e => "detect " ++ show_dres e
  | POutsideModel => "OUTSIDE"
  end.

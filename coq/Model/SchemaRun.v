(* Model/SchemaRun.v -- what a case file of the schema family (C01-C04) needs on
   top of Model/Schema.v: the two oracles of `run` made concrete
     pattern_ok    membership in the lists the harness computed with the
                   stix2patterns validator (a third-party package, not /repo);
     selectors_ok  stix2.markings.utils.validate as restated by the C08 model
                   (Model/Markings.v, with its variant record),
   and one-line renderers.  No proofs.                                        *)
From Coq Require Import NArith ZArith List String Bool.
From V Require Import Base.UString Base.Json Model.SchemaTypes Model.PyBase Model.Schema.
From V Require Model.Markings Model.Timestamp.
Import ListNotations.

Fixpoint jvalue_to_mval (j : jvalue) : Markings.mval :=
  match j with
  | JNull => Markings.VNull
  | JBool b => Markings.VBool b
  | JInt z => Markings.VInt z
  | JFloat r => Markings.VFloat r
  | JStr s => Markings.VStr s
  | JArr l => Markings.VList ((fix go (l : list jvalue) := match l with [] => [] | x :: r => jvalue_to_mval x :: go r end) l)
  | JObj m => Markings.VDict ((fix go (m : list (ustring * jvalue)) :=
                                 match m with [] => [] | (k, x) :: r => (k, jvalue_to_mval x) :: go r end) m)
  end.

(* a cleaned value as the marking code sees it: dict-valued properties are real
   dicts, embedded objects are Mappings that are not dicts, datetimes are truthy leaves *)
Fixpoint pval_to_mval (v : pval) : Markings.mval :=
  match v with
  | PJ j => jvalue_to_mval j
  | PTime _ t => Markings.VTime t
  | PArr l => Markings.VList ((fix go (l : list pval) := match l with [] => [] | x :: r => pval_to_mval x :: go r end) l)
  | PMap m => Markings.VDict ((fix go (m : list (ustring * pval)) :=
                                 match m with [] => [] | (k, x) :: r => (k, pval_to_mval x) :: go r end) m)
  | PObject _ inner _ _ =>
    Markings.VObj ((fix go (m : list (ustring * pval)) :=
                      match m with [] => [] | (k, x) :: r => (k, pval_to_mval x) :: go r end) inner)
  end.

(* validate(self, m.get('selectors')) : Ok true = returns, Ok false = InvalidSelectorError *)
Definition sel_ok (mc : Markings.cfg) (setting : list (ustring * pval)) (sels : pval) : result bool :=
  match sels with
  | PArr l =>
    let strs := (fix go (l : list pval) : option (list ustring) :=
                   match l with
                   | [] => Some []
                   | PJ (JStr s) :: r => match go r with Some t => Some (s :: t) | None => None end
                   | _ :: _ => None
                   end) l in
    match strs with
    | Some ss => Ok (Markings.validate mc (map (fun kv => (fst kv, pval_to_mval (snd kv))) setting) ss)
    | None => Unmodelled
    end
  | _ => Unmodelled
  end.

Definition pat_ok (ok20 ok21 : list ustring) (v : ver) (p : ustring) : bool :=
  mem_ustr p (match v with V20 => ok20 | V21 => ok21 end).

(* the model of one API call, rendered as one line *)
(* the sentinels the implementation worker (harness/impl/schema_impl.py) substitutes for the clock, uuid4 and uuid5 *)
Definition sentinel_env : env :=
  {| e_now := Timestamp.dt 1999 12 31 23 59 58 123456;
     e_uuid4 := u "ffffffff-ffff-4fff-bfff-fffffffffff4";
     e_uuid5 := u "ffffffff-ffff-5fff-bfff-fffffffffff5" |}.

Definition run_line (vr : variant) (mc : Markings.cfg) (w : world) (ok20 ok21 : list ustring) (fuel : nat) (r : request) : string :=
  show_result_obj (run vr sentinel_env w (pat_ok ok20 ok21) (sel_ok mc) fuel r).

(* Model/Versioning.v -- executable model of stix2/versioning.py
   (_fudge_modified, _get_stix_version, _is_versionable_type,
   _check_versionable_object, new_version, revoke), of the object-marking
   clients of new_version in stix2/markings/object_markings.py, and of the
   part of utils.py they call (detect_spec_version, is_sco).  No proofs here.

   A STIX object or dictionary is an insertion-ordered list of (name, value)
   pairs, like the Python dict the code manipulates (`_inner` for a
   _STIXBase instance).  Timestamps use Model/Timestamp.v: a datetime is its
   wall-clock fields as an instant (microseconds since 0001-01-01) plus its
   UTC offset (None = naive); strings are parsed by the strptime model.

   The tables the code reads (STIX_UNMOD_PROPERTIES, _VERSIONING_PROPERTIES,
   the class registry, _id_contributing_properties) are a parameter
   (`vtables`), instantiated from /repo by translators/tr_versioning.py.     *)
From Coq Require Import ZArith NArith List Bool String.
From V Require Export Base.UString Base.Json Model.Timestamp.
Import ListNotations.
Open Scope list_scope. Open Scope Z_scope.

(* ---- values ---- *)
Inductive pval :=
| PJ (j : jvalue)                          (* JSON-kind Python value: None, bool, int, float, str, list, dict *)
| PDt (local : Z) (off : option Z)         (* datetime.datetime (incl. STIXdatetime) *)
| PDate (y m d : Z).                       (* datetime.date *)

Definition pdict := list (ustring * pval).

Fixpoint plookup (k : ustring) (d : pdict) : option pval :=
  match d with
  | [] => None
  | (k', v) :: r => if ustr_eqb k k' then Some v else plookup k r
  end.

Definition is_none (v : pval) : bool := match v with PJ JNull => true | _ => false end.

(* data.get(k): a key bound to None and a missing key are both None *)
Definition pget (k : ustring) (d : pdict) : option pval :=
  match plookup k d with
  | Some v => if is_none v then None else Some v
  | None => None
  end.

Definition has_key (k : ustring) (d : pdict) : bool := match plookup k d with Some _ => true | None => false end.

(* Python truthiness *)
Definition truthy (v : pval) : bool :=
  match v with
  | PJ JNull => false
  | PJ (JBool b) => b
  | PJ (JInt z) => negb (z =? 0)
  | PJ (JFloat r) => negb (ustr_eqb r (u "0.0") || ustr_eqb r (u "-0.0"))
  | PJ (JStr s) => match s with [] => false | _ => true end
  | PJ (JArr l) => match l with [] => false | _ => true end
  | PJ (JObj m) => match m with [] => false | _ => true end
  | PDt _ _ => true
  | PDate _ _ _ => true
  end.

(* dict.update(kwargs): existing keys keep their position, new keys are appended in order *)
Fixpoint set_key (k : ustring) (v : pval) (d : pdict) : pdict :=
  match d with
  | [] => [(k, v)]
  | (k', v') :: r => if ustr_eqb k k' then (k', v) :: r else (k', v') :: set_key k v r
  end.

Definition update (d : pdict) (kw : pdict) : pdict := fold_left (fun acc kv => set_key (fst kv) (snd kv) acc) kw d.

(* {k: v for k, v in d.items() if v is not None} *)
Definition drop_none (d : pdict) : pdict := filter (fun kv => negb (is_none (snd kv))) d.

(* ---- versions, carriers, tables ---- *)
Inductive sver := V20 | V21 | VOther.       (* the string "2.0", "2.1", anything else *)
Inductive carrier :=
| CObject (v : sver)      (* instance of a _STIXBase20 / _STIXBase21 class *)
| CDict                   (* plain dict *)
| CNonMapping.            (* anything that is not a Mapping *)

Record vtables := mkTables {
  t_unmod : list ustring;                          (* STIX_UNMOD_PROPERTIES *)
  t_verprops : list ustring;                       (* _VERSIONING_PROPERTIES *)
  t_registry : list (bool * ustring * bool);       (* (is 2.1, type, class has all versioning properties), lookup order of class_for_type *)
  t_sco21 : list (ustring * list ustring);         (* 2.1 observable types with _id_contributing_properties *)
  t_notype : string                                (* class of the error detect_spec_version raises for a dict without "type" *)
}.

Fixpoint mem (k : ustring) (l : list ustring) : bool :=
  match l with [] => false | x :: r => ustr_eqb k x || mem k r end.

Fixpoint reg_lookup (is21 : bool) (ty : ustring) (r : list (bool * ustring * bool)) : option bool :=
  match r with
  | [] => None
  | (b, t, v) :: rest => if Bool.eqb b is21 && ustr_eqb ty t then Some v else reg_lookup is21 ty rest
  end.

Fixpoint sco_lookup (ty : ustring) (r : list (ustring * list ustring)) : option (list ustring) :=
  match r with
  | [] => None
  | (t, ps) :: rest => if ustr_eqb ty t then Some ps else sco_lookup ty rest
  end.

Definition ver_of_value (v : pval) : sver :=
  match v with
  | PJ (JStr s) => if ustr_eqb s (u "2.0") then V20 else if ustr_eqb s (u "2.1") then V21 else VOther
  | _ => VOther
  end.

Definition str_of (v : pval) : option ustring := match v with PJ (JStr s) => Some s | _ => None end.

Section WithTables.
  Variable T : vtables.
  Variable nm : naive_mode.        (* what parse_into_datetime does with naive datetimes (Model/Timestamp.v) *)

  (* utils.detect_spec_version(stix_dict) for non-bundle content *)
  Definition detect (d : pdict) : result sver :=
    match plookup (u "type") d with
    | None => Raise (t_notype T)
    | Some ty =>
        let is_bundle := match str_of ty with Some s => ustr_eqb s (u "bundle") | None => false end in
        match plookup (u "spec_version") d with
        | Some sv => Ok (if is_bundle then V20 else ver_of_value sv)
        | None =>
            if negb (has_key (u "id") d) then Ok V20
            else if is_bundle then Raise "UnsupportedBundle"        (* recursion over contained objects: not modelled *)
            else match str_of ty with
                 | Some s => match sco_lookup s (t_sco21 T) with Some _ => Ok V21 | None => Ok V20 end
                 | None => Ok V20
                 end
        end
    end.

  (* versioning._get_stix_version *)
  Definition get_stix_version (c : carrier) (d : pdict) : result sver :=
    match c with
    | CObject v => Ok v
    | CDict => detect d
    | CNonMapping => Ok VOther
    end.

  (* data.keys() >= _VERSIONING_PROPERTIES *)
  Definition has_versioning_keys (d : pdict) : bool := forallb (fun k => has_key k d) (t_verprops T).

  (* registry.class_for_type(type, version) and whether the class supports the versioning properties;
     None = not registered *)
  Definition class_versionable (v : sver) (ty : option pval) : option bool :=
    match v, ty with
    | V20, Some (PJ (JStr s)) => reg_lookup false s (t_registry T)
    | V21, Some (PJ (JStr s)) => reg_lookup true s (t_registry T)
    | _, _ => None
    end.

  (* versioning._check_versionable_object: the detected version, or the error *)
  Definition check_versionable (c : carrier) (d : pdict) : result sver :=
    match c with
    | CNonMapping => Raise "TypeNotVersionableError"
    | _ =>
        if has_versioning_keys d then get_stix_version c d
        else
          match get_stix_version c d with
          | Raise e => Raise e
          | Ok v =>
              let versionable :=
                match c with
                | CObject _ => match class_versionable v (plookup (u "type") d) with Some b => b | None => false end
                | _ => match class_versionable v (plookup (u "type") d) with Some b => b | None => true end   (* unregistered: lax *)
                end in
              if versionable then
                (if has_key (u "created") d then Ok v else Raise "ObjectNotVersionableError")
              else Raise "TypeNotVersionableError"
          end
    end.

  (* uuid.UUID(text): the 36-character canonical form only (anything else: ValueError) *)
  Definition is_hex (c : N) : bool :=
    ((48 <=? c) && (c <=? 57) || (97 <=? c) && (c <=? 102) || (65 <=? c) && (c <=? 70))%N.
  Fixpoint uuid_shape (pos : nat) (s : ustring) : bool :=
    match s with
    | [] => Nat.eqb pos 36
    | c :: r => (if Nat.eqb pos 8 || Nat.eqb pos 13 || Nat.eqb pos 18 || Nat.eqb pos 23 then (c =? 45)%N else is_hex c)
                && uuid_shape (S pos) r
    end.
  Definition last36 (s : ustring) : ustring := skipn (List.length s - 36) s.
  (* variant == RFC_4122 and version == 5 *)
  Definition is_uuid5 (s : ustring) : bool :=
    let v := nth 14 s 0%N in
    let n := nth 19 s 0%N in
    (v =? 53)%N && ((n =? 56) || (n =? 57) || (n =? 97) || (n =? 98) || (n =? 65) || (n =? 66))%N.

  (* the properties locked because they contribute to a deterministic SCO id *)
  Definition sco_locked (d : pdict) : result (list ustring) :=
    match detect d with                                   (* is_sco(data, "2.1") *)
    | Raise e => Raise e
    | Ok V21 =>
        match plookup (u "type") d with
        | Some (PJ (JStr ty)) =>
            match sco_lookup ty (t_sco21 T) with
            | None => Ok []
            | Some contrib =>
                match plookup (u "id") d with
                | None => Raise "KeyError"
                | Some (PJ (JStr id)) =>
                    let h := last36 id in
                    if uuid_shape 0 h then Ok (if is_uuid5 h then contrib else []) else Raise "ValueError"
                | Some _ => Raise "TypeError"
                end
            end
        | _ => Ok []
        end
    | Ok _ => Ok []
    end.

  (* ---- timestamps ---- *)
  Definition pconstraint_of (v : sver) : pconstraint := match v with V21 => CMin | _ => CExact end.

  (* parse_into_datetime(value, "millisecond", constraint) on a property value *)
  Definition parse_ts (v : sver) (x : option pval) : result (Z * option Z) :=
    match x with
    | Some (PDt l o) => parse_into nm PMilli (pconstraint_of v) (InDatetime l o)
    | Some (PDate y m d) => parse_into nm PMilli (pconstraint_of v) (InDate y m d)
    | Some (PJ (JStr s)) => parse_into nm PMilli (pconstraint_of v) (InStr s)
    | Some (PJ (JArr _)) | Some (PJ (JObj _)) => Raise "ValueError"      (* strptime's TypeError is converted *)
    | _ => Raise "TypeError"                                             (* "." in value *)
    end.

  (* Python compares and subtracts two aware datetimes by their UTC instants, two naive ones by
     their fields, and refuses to mix them *)
  Definition ts_diff (a b : Z * option Z) : option Z :=
    match a, b with
    | (la, Some oa), (lb, Some ob) => Some ((la - oa) - (lb - ob))
    | (la, None), (lb, None) => Some (la - lb)
    | _, _ => None
    end.

  (* _fudge_modified(old, now, stix_version != "2.0"); `now` is the aware UTC clock reading *)
  Definition fudge (v : sver) (old : Z * option Z) (now : Z) : result (Z * option Z) :=
    match ts_diff (now, Some 0) old with
    | None => Raise "TypeError"
    | Some d =>
        match v with
        | V20 => if d <? 1000 then Ok (fst old + 1000, snd old) else Ok (now, Some 0)
        | _ => if d <=? 0 then Ok (fst old + 1, snd old) else Ok (now, Some 0)
        end
    end.

  (* what the class constructor does to the dictionary it receives.  Schema validation is not
     modelled here (C02/C03 do that): it is abstracted by two parameters that the theorems
     quantify over --
       ctor_check v d  : None if the class of spec version v accepts the properties d, else the
                         class of the exception it raises (missing / extra / invalid property,
                         co-constraint ...);
       clean_prop v k x: what the property's clean() stores for an accepted value x of property k
     -- so the constructor can only fail or return the cleaned form of its argument.  The one
     property modelled concretely is `modified`: TimestampProperty.clean (v2.0 classes:
     millisecond/exact, v2.1 classes: millisecond/min).  Dicts are rebuilt with the dict constructor: unchanged. *)
  Variable clean_prop : sver -> ustring -> pval -> pval.
  Variable ctor_check : sver -> pdict -> option string.

  Definition clean_all (v : sver) (d : pdict) : pdict :=
    map (fun kv => (fst kv, clean_prop v (fst kv) (snd kv))) d.

  Definition construct (c : carrier) (d : pdict) : result pdict :=
    match c with
    | CObject v =>
        match ctor_check v d with
        | Some e => Raise e
        | None =>
            match plookup (u "modified") d with
            | Some m => match parse_ts v (Some m) with
                        | Ok (l, o) => Ok (set_key (u "modified") (PDt l o) (clean_all v d))
                        | Raise _ => Raise "InvalidValueError"
                        end
            | None => Ok (clean_all v d)
            end
        end
    | _ => Ok d
    end.

  (* versioning.new_version(data, **changes) with the clock reading `now`; a change to None removes *)
  Definition new_version (c : carrier) (d : pdict) (changes : pdict) (now : Z) : result pdict :=
    match check_versionable c d with
    | Raise e => Raise e
    | Ok v =>
        if match plookup (u "revoked") d with Some r => truthy r | None => false end then Raise "RevokeError"
        else
          match sco_locked d with
          | Raise e => Raise e
          | Ok locked =>
              if existsb (fun k => has_key k changes) (t_unmod T ++ locked) then Raise "UnmodifiablePropertyError"
              else
                let old_v := match pget (u "modified") d with
                             | Some m => if truthy m then Some m else pget (u "created") d
                             | None => pget (u "created") d
                             end in
                match parse_ts v old_v with
                | Raise e => Raise e
                | Ok old =>
                    match plookup (u "modified") changes with
                    | Some supplied =>
                        match parse_ts v (Some supplied) with
                        | Raise e => Raise e
                        | Ok nm =>
                            match ts_diff nm old with
                            | None => Raise "TypeError"
                            | Some dlt =>
                                if dlt <=? 0 then Raise "InvalidValueError"
                                else construct c (drop_none (update d changes))
                            end
                        end
                    | None =>
                        match fudge v old now with
                        | Raise e => Raise e
                        | Ok (l, o) => construct c (drop_none (update d (changes ++ [(u "modified", PDt l o)])))
                        end
                    end
                end
          end
    end.

  (* versioning.revoke(data) *)
  Definition revoke (c : carrier) (d : pdict) (now : Z) : result pdict :=
    match c with
    | CNonMapping => Raise "ValueError"
    | _ =>
        if match plookup (u "revoked") d with Some r => truthy r | None => false end then Raise "RevokeError"
        else new_version c d [(u "revoked", PJ (JBool true))] now
    end.

  (* ---- object markings (stix2/markings/object_markings.py): clients of new_version ---- *)
  Definition omr : ustring := u "object_marking_refs".

  Definition marking_list (d : pdict) : list jvalue :=
    match pget omr d with Some (PJ (JArr l)) => l | _ => [] end.

  Fixpoint jmem (x : jvalue) (l : list jvalue) : bool :=
    match l with [] => false | y :: r => jvalue_eqb x y || jmem x r end.

  Fixpoint dedupe (l : list jvalue) (seen : list jvalue) : list jvalue :=
    match l with
    | [] => []
    | x :: r => if jmem x seen then dedupe r seen else x :: dedupe r (x :: seen)
    end.

  (* add_markings: list(set(old + new)) -- the order of a Python set is not modelled; the
     harness compares object_marking_refs as a set                            *)
  Definition add_markings (c : carrier) (d : pdict) (ms : list jvalue) (now : Z) : result pdict :=
    new_version c d [(omr, PJ (JArr (dedupe (marking_list d ++ ms) [])))] now.

  Definition clear_markings (c : carrier) (d : pdict) (now : Z) : result pdict :=
    new_version c d [(omr, PJ JNull)] now.

  (* the outcome of an operation: a new version, the object itself handed back (no version made), or a refusal *)
  Inductive outcome := New (d : pdict) | Same | Refused (e : string).
  Definition outcome_of (r : result pdict) : outcome := match r with Ok d => New d | Raise e => Refused e end.

  (* remove_markings: no markings -> the object itself (no new version); a marking that is
     not there -> MarkingNotFoundError *)
  Definition remove_markings (c : carrier) (d : pdict) (ms : list jvalue) (now : Z) : outcome :=
    match marking_list d with
    | [] => Same
    | cur =>
        if negb (forallb (fun x => jmem x cur) ms) then Refused "MarkingNotFoundError"
        else match filter (fun x => negb (jmem x ms)) cur with
             | [] => outcome_of (new_version c d [(omr, PJ JNull)] now)
             | rest => outcome_of (new_version c d [(omr, PJ (JArr rest))] now)
             end
    end.

  (* set_markings = add_markings(clear_markings(obj), marking): two versions, two clock readings *)
  Definition set_markings (c : carrier) (d : pdict) (ms : list jvalue) (now1 now2 : Z) : result pdict :=
    match clear_markings c d now1 with
    | Raise e => Raise e
    | Ok d1 => add_markings c d1 ms now2
    end.

  (* ---- chains of operations ---- *)
  Inductive op :=
  | OpNew (changes : pdict) (now : Z)
  | OpRevoke (now : Z)
  | OpAddMark (ms : list jvalue) (now : Z)
  | OpRemoveMark (ms : list jvalue) (now : Z)
  | OpClearMark (now : Z)
  | OpSetMark (ms : list jvalue) (now1 now2 : Z).

  Definition apply_op (c : carrier) (d : pdict) (o : op) : outcome :=
    match o with
    | OpNew ch now => outcome_of (new_version c d ch now)
    | OpRevoke now => outcome_of (revoke c d now)
    | OpAddMark ms now => outcome_of (add_markings c d ms now)
    | OpRemoveMark ms now => remove_markings c d ms now
    | OpClearMark now => outcome_of (clear_markings c d now)
    | OpSetMark ms n1 n2 => outcome_of (set_markings c d ms n1 n2)
    end.

  (* every operation is applied to the latest version; a refused operation leaves it as it is.
     The trace lists the outcome of every operation.                          *)
  Fixpoint run_chain (c : carrier) (d : pdict) (ops : list op) : list outcome :=
    match ops with
    | [] => []
    | o :: rest =>
        match apply_op c d o with
        | New d' => New d' :: run_chain c d' rest
        | Same => Same :: run_chain c d rest
        | Refused e => Refused e :: run_chain c d rest
        end
    end.

  (* the versions a chain produces, in order *)
  Fixpoint new_versions (c : carrier) (d : pdict) (ops : list op) : list pdict :=
    match ops with
    | [] => []
    | o :: rest =>
        match apply_op c d o with
        | New d' => d' :: new_versions c d' rest
        | _ => new_versions c d rest
        end
    end.

  (* ---- what a version "serializes as": the UTC instant an object of spec version v holds for
     the value after TimestampProperty.clean (a naive value counts as UTC, as format_datetime
     treats it) ---- *)
  Definition utc_of (x : Z * option Z) : Z := match snd x with Some o => fst x - o | None => fst x end.

  Definition ser_value (v : sver) (x : option pval) : option Z :=
    match parse_ts v x with Ok r => Some (utc_of r) | Raise _ => None end.

  Definition version_time (d : pdict) : option pval :=
    match pget (u "modified") d with
    | Some m => if truthy m then Some m else pget (u "created") d
    | None => pget (u "created") d
    end.
End WithTables.

(* ---- rendering for the correspondence run ---- *)
Open Scope string_scope.

Definition show_pval (v : pval) : string :=
  match v with
  | PJ j => show_jvalue j
  | PDt l (Some o) => append "@A" (show_Z (l - o))       (* the UTC instant; which offset carries it is not compared *)
  | PDt l None => append "@N" (show_Z l)
  | PDate y m d => append "@D" (append (show_Z y) (append "-" (append (show_Z m) (append "-" (show_Z d)))))
  end.

(* insertion sort by key (code-point order): an object's property order is the class's, not the dict's *)
Fixpoint insert_kv (kv : ustring * pval) (l : pdict) : pdict :=
  match l with
  | [] => [kv]
  | x :: r => if ustr_ltb (fst x) (fst kv) then x :: insert_kv kv r else kv :: l
  end.
Definition sort_pdict (d : pdict) : pdict := fold_right insert_kv [] d.

Definition show_pdict (d : pdict) : string :=
  fold_right (fun kv acc => append (show_ustr (fst kv)) (append "=" (append (show_pval (snd kv)) (append ";" acc))))
             EmptyString d.

Definition opt_Z_eqb (a b : option Z) : bool :=
  match a, b with Some x, Some y => (x =? y)%Z | None, None => true | _, _ => false end.

Definition pval_eqb (a b : pval) : bool :=
  match a, b with
  | PJ x, PJ y => jvalue_eqb x y
  | PDt l o, PDt l' o' => (l =? l')%Z && opt_Z_eqb o o'
  | PDate y m d, PDate y' m' d' => (y =? y')%Z && (m =? m')%Z && (d =? d')%Z
  | _, _ => false
  end.

(* object_marking_refs goes through a Python set in add_markings, whose order is not modelled:
   it is rendered sorted (lists of strings only) on both sides *)
Definition jstr_ltb (a b : jvalue) : bool :=
  match a, b with JStr x, JStr y => ustr_ltb x y | _, _ => false end.
Fixpoint insert_j (x : jvalue) (l : list jvalue) : list jvalue :=
  match l with
  | [] => [x]
  | y :: r => if jstr_ltb y x then y :: insert_j x r else x :: l
  end.
Definition all_str (l : list jvalue) : bool := forallb (fun x => match x with JStr _ => true | _ => false end) l.
Definition canon_val (k : ustring) (v : pval) : pval :=
  match v with
  | PJ (JArr l) => if ustr_eqb k omr && all_str l then PJ (JArr (fold_right insert_j [] l)) else v
  | _ => v
  end.
Definition canon_marks (d : pdict) : pdict := map (fun kv => (fst kv, canon_val (fst kv) (snd kv))) d.

Definition view (c : carrier) (d : pdict) : pdict :=
  canon_marks (match c with CObject _ => sort_pdict d | _ => d end).

(* what changed from one version to the next: new or changed entries (in the order of the new
   version), then the names that disappeared *)
Definition show_diff (old new : pdict) : string :=
  append
    (fold_right (fun kv acc =>
       if match plookup (fst kv) old with Some v => pval_eqb v (snd kv) | None => false end then acc
       else append (show_ustr (fst kv)) (append "=" (append (show_pval (snd kv)) (append ";" acc))))
       EmptyString new)
    (fold_right (fun kv acc => if has_key (fst kv) new then acc else append "-" (append (show_ustr (fst kv)) (append ";" acc)))
       EmptyString old).

Definition sep : string := " | ".

(* one line per chain: the outcome of every operation (as a difference to the version it was
   applied to), then the complete last version *)
Fixpoint show_steps (c : carrier) (cur : pdict) (tr : list outcome) : string :=
  match tr with
  | [] => append "FINAL " (show_pdict (view c cur))
  | New d :: rest => append "OK " (append (show_diff (view c cur) (view c d)) (append sep (show_steps c d rest)))
  | Same :: rest => append "OK " (append sep (show_steps c cur rest))
  | Refused e :: rest => append "EXC " (append e (append sep (show_steps c cur rest)))
  end.

(* the correspondence runs use legal change sets of already clean values: the constructor accepts
   them and stores them as they are *)
Definition clean_id : sver -> ustring -> pval -> pval := fun _ _ x => x.
Definition accept_all : sver -> pdict -> option string := fun _ _ => None.

Definition show_chain (T : vtables) (nm : naive_mode) (c : carrier) (d : pdict) (ops : list op) : string :=
  show_steps c d (run_chain T nm clean_id accept_all c d ops).

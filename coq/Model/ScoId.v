(* Model/ScoId.v -- executable model of the deterministic identifier of STIX 2.1
   cyber-observables:
     stix2/base.py    : _Observable._generate_id, _choose_one_hash, _make_json_serializable
     stix2/v21/base.py: _Observable.__init__ (id generated only when no id was given)
   over the *cleaned* property values of the object (what obj[key] shows).
   uuid.uuid5(SCO_DET_ID_NAMESPACE, .) is a parameter.  No proofs here.

   Python values at this point (pval):
     PNone                 None (can only sit inside a DictionaryProperty value)
     PBool/PInt/PFloat/PStr  bool / int / float (by repr text) / str
     PStamp ym p c t       a STIXdatetime: the UTC instant t (microseconds since
                           0001-01-01T00:00:00Z) with its precision settings; its JSON
                           string is C15's model of format_datetime
                           (Model/Timestamp.v: format; ym = the year padding variant)
     PTime t               a STIXdatetime given directly by its format_datetime text t
                           (json.dumps(value, cls=STIXJSONEncoder) then quotes
                           stripped and JSON escapes undone; the text of a
                           timestamp has none, so the result is t itself)
     PList l               list
     PDict m               dict, or a nested _STIXBase object (a Mapping over its
                           _inner dict: every property it holds, defaults included),
                           members in iteration order
   Values of other Python types (bytes, Decimal, custom classes) are outside the model. *)
From Coq Require Import String NArith ZArith List Bool.
From V Require Import Base.UString Base.Json Model.JcsText Model.Jcs.
From V Require Model.Timestamp.
Import ListNotations.
Open Scope N_scope.

Inductive pval :=
| PNone
| PBool (b : bool)
| PInt (z : Z)
| PFloat (repr : ustring)
| PStr (s : ustring)
| PTime (text : ustring)
| PStamp (ym : Timestamp.year_mode) (p : Timestamp.precision) (c : Timestamp.pconstraint) (t : Z)
| PList (l : list pval)
| PDict (m : list (ustring * pval)).

Inductive id_err := EValueError | EInvalidValue | EUnicodeEncode | EOutOfModel.

Inductive ires (A : Type) := IOk (a : A) | IRaise (e : id_err).
Arguments IOk {A} a.
Arguments IRaise {A} e.

(* ---- _make_json_serializable ------------------------------------------------------ *)
(* if value is None: raise ValueError; Mapping -> dict comprehension; list -> list
   comprehension; int/float/str/bool unchanged; anything else (timestamps) ->
   its JSON string without the quotes *)
Fixpoint jsonable (v : pval) : ires jvalue :=
  match v with
  | PNone => IRaise EValueError
  | PBool b => IOk (JBool b)
  | PInt z => IOk (JInt z)
  | PFloat r => IOk (JFloat r)
  | PStr s => IOk (JStr s)
  | PTime t => IOk (JStr t)
  | PStamp ym p c t => IOk (JStr (Timestamp.format ym p c t))
  | PList l =>
      match (fix go (l : list pval) : ires (list jvalue) :=
               match l with
               | [] => IOk []
               | x :: r => match jsonable x with
                           | IRaise e => IRaise e
                           | IOk x' => match go r with IOk r' => IOk (x' :: r') | IRaise e => IRaise e end
                           end
               end) l with
      | IOk l' => IOk (JArr l')
      | IRaise e => IRaise e
      end
  | PDict m =>
      match (fix go (m : list (ustring * pval)) : ires (list (ustring * jvalue)) :=
               match m with
               | [] => IOk []
               | (k, x) :: r => match jsonable x with
                                | IRaise e => IRaise e
                                | IOk x' => match go r with IOk r' => IOk ((k, x') :: r') | IRaise e => IRaise e end
                                end
               end) m with
      | IOk m' => IOk (JObj m')
      | IRaise e => IRaise e
      end
  end.

(* ---- _choose_one_hash ---------------------------------------------------------------- *)
Fixpoint plookup {A : Type} (k : ustring) (m : list (ustring * A)) : option A :=
  match m with
  | [] => None
  | (k', v) :: r => if ustr_eqb k k' then Some v else plookup k r
  end.

(* which hash is taken when none of the four preferred algorithms is present:
   ByDictOrder  next(iter(hash_dict))            -- the code as pinned
   ByName       min(hash_dict): the name that sorts first (str order) -- repaired *)
Inductive hash_pick := ByDictOrder | ByName.

(* the names tested by the if/elif chain, in order: regenerated from the source
   into Gen/ScoIdTables.v (gen_hash_prefs); the model takes the list as a parameter *)

Fixpoint first_present {A : Type} (names : list ustring) (h : list (ustring * A)) : option (ustring * A) :=
  match names with
  | [] => None
  | n :: r => match plookup n h with Some v => Some (n, v) | None => first_present r h end
  end.

(* the member whose name is least in Python str order (code points); the first
   such member if names repeat (they cannot in a dict) *)
Fixpoint min_member {A : Type} (h : list (ustring * A)) : option (ustring * A) :=
  match h with
  | [] => None
  | (k, v) :: r => match min_member r with
                   | None => Some (k, v)
                   | Some (k', v') => if ustr_ltb k' k then Some (k', v') else Some (k, v)
                   end
  end.

Definition choose_one_hash {A : Type} (prefs : list ustring) (hp : hash_pick) (h : list (ustring * A)) : option (ustring * A) :=
  match first_present prefs h with
  | Some kv => Some kv
  | None => match hp with
            | ByDictOrder => hd_error h
            | ByName => min_member h
            end
  end.

(* ---- _generate_id ------------------------------------------------------------------------ *)
(* json_serializable_object[key] = value : replace in place or append *)
Fixpoint dict_set {A : Type} (k : ustring) (v : A) (d : list (ustring * A)) : list (ustring * A) :=
  match d with
  | [] => [(k, v)]
  | (k', v') :: r => if ustr_eqb k k' then (k, v) :: r else (k', v') :: dict_set k v r
  end.

Definition k_hashes : ustring := u "hashes".

(* the value stored for one contributing property *)
Definition contrib_value (prefs : list ustring) (hp : hash_pick) (key : ustring) (v : pval) : ires jvalue :=
  if ustr_eqb key k_hashes then
    match v with
    | PDict h =>
      match choose_one_hash prefs hp h with
      | None => IRaise EInvalidValue                     (* "No hashes given" *)
      | Some (k, hv) =>
        (* {k: hash_dict[k]} goes to the canonicalizer as it is *)
        match hv with
        | PStr s => IOk (JObj [(k, JStr s)])
        | _ => IRaise EOutOfModel
        end
      end
    | _ => IRaise EOutOfModel
    end
  else jsonable v.

(* for key in self._id_contributing_properties: if key in self: ... *)
Fixpoint project (prefs : list ustring) (hp : hash_pick) (contrib : list ustring) (obj : list (ustring * pval))
         (acc : list (ustring * jvalue)) : ires (list (ustring * jvalue)) :=
  match contrib with
  | [] => IOk acc
  | key :: rest =>
    match plookup key obj with
    | None => project prefs hp rest obj acc
    | Some v => match contrib_value prefs hp key v with
                | IRaise e => IRaise e
                | IOk jv => project prefs hp rest obj (dict_set key jv acc)
                end
    end
  end.

Definition dashes : ustring := [45; 45].

Inductive id_result :=
| IdRandom                           (* _generate_id returned None: the uuid4 default stays *)
| IdDet (data : ustring) (id : ustring)   (* data = the string given to uuid5 *)
| IdFail (e : id_err).

Definition of_jerr (e : jerr) : id_err :=
  match e with
  | ValueError => EValueError
  | UnicodeEncodeError => EUnicodeEncode
  | OutOfModel => EOutOfModel
  end.

Section Gen.
  Variable uuid5 : ustring -> ustring.   (* str(uuid.uuid5(SCO_DET_ID_NAMESPACE, data)) *)

  Definition gen_id (prefs : list ustring) (hp : hash_pick) (ty : ustring) (contrib : list ustring) (obj : list (ustring * pval)) : id_result :=
    match project prefs hp contrib obj [] with
    | IRaise e => IdFail e
    | IOk [] => IdRandom
    | IOk m => match canon (JObj m) with
               | JOk data => IdDet data (ty ++ dashes ++ uuid5 data)
               | JRaise e => IdFail (of_jerr e)
               end
    end.
End Gen.

(* ---- rendering for the case files ------------------------------------------------------------ *)
Definition show_id_err (e : id_err) : string :=
  match e with
  | EValueError => "ValueError"
  | EInvalidValue => "InvalidValueError"
  | EUnicodeEncode => "UnicodeEncodeError"
  | EOutOfModel => "OutOfModel"
  end%string.

(* the uuid5 parameter is instantiated with the identity: the harness applies
   Python's uuid5 to the data string itself *)
Definition show_id_result (r : id_result) : string :=
  match r with
  | IdRandom => "RANDOM"%string
  | IdDet data _ => String.append "DET " (show_ustr data)
  | IdFail e => String.append "EXC " (show_id_err e)
  end.

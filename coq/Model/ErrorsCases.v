(* Model/ErrorsCases.v -- C17: helpers used only by the generated case files
   (the same substitutions harness/impl/c17_impl.py applies to a class's base
   object) and one-line renderers of the model's outcome sets.  No proofs. *)
From Coq Require Import NArith ZArith List String Bool.
From V Require Import Base.UString Base.Json Model.Errors.
Import ListNotations.
Open Scope string_scope.

Inductive pelem := PK (k : ustring) | PI (i : nat).

Fixpoint replace_nth (i : nat) (v : jvalue) (l : list jvalue) : list jvalue :=
  match l, i with
  | [], _ => []
  | _ :: r, O => v :: r
  | x :: r, S i' => x :: replace_nth i' v r
  end.

(* c17_impl.set_path *)
Fixpoint set_path (path : list pelem) (val : jvalue) (obj : jvalue) : jvalue :=
  match path with
  | [] => val
  | PK k :: rest =>
      match obj with
      | JObj m => JObj (set_key k (set_path rest val (match jlookup k m with Some v => v | None => JNull end)) m)
      | _ => obj
      end
  | PI i :: rest =>
      match obj with
      | JArr l => JArr (replace_nth i (set_path rest val (nth i l JNull)) l)
      | _ => obj
      end
  end.

Definition drop_keys (ks : list ustring) (obj : jvalue) : jvalue :=
  match obj with
  | JObj m => JObj (fold_left (fun acc k => remove_key k acc) ks m)
  | _ => obj
  end.

Definition show_parsed (r : res parsed) : string :=
  match r with
  | Val PObject => "Ok:obj"
  | Val PDictAsIs => "Ok:dict"
  | Exc e s => show_exn e ++ "@" ++ site_tag s
  end.
(* outcome sets are rendered without repetitions (the order of first occurrence is kept) *)
Fixpoint dedup_str (seen l : list string) : list string :=
  match l with
  | [] => []
  | x :: r => if existsb (String.eqb x) seen then dedup_str seen r else x :: dedup_str (x :: seen) r
  end.
Definition join_semi (l : list string) : string := fold_right (fun x acc => x ++ ";" ++ acc) "" l.
Definition show_MP (m : M parsed) : string := join_semi (dedup_str [] (map show_parsed m)).
Definition show_MU (m : M unit) : string := join_semi (dedup_str [] (map show_res m)).

Definition kw_of (j : jvalue) : list (ustring * jvalue) := match j with JObj m => m | _ => [] end.

Definition sites_named (tags : list string) : list site :=
  filter (fun s => existsb (String.eqb (site_tag s)) tags) all_sites.

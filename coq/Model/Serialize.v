(* Model/Serialize.v -- stix2/serialization.py on top of the schema interpreter
   (Model/Schema.v: pval, encode):
     serialize / fp_serialize options        -> sopts, serialize_value
     STIXJSONEncoder / ...IncludeOptionalDefaultsEncoder.default -> Schema.encode incl (re-used)
     sort_keys=True (simplejson: item_sort_key = itemgetter(0), every level) -> jsort
     pretty=True (item_sort_key = sort_by = find_property_index(obj, key, value), every level)
                                              -> find_property_index, pretty_enc
   The result is the JSON value WITH ORDERED MEMBERS that the encoder writes;
   the text layer (indent, separators, ensure_ascii, escaping) is abstract:
   indent / compact separators do not change the ordered members.
   No proofs here.                                                            *)
From Coq Require Import NArith ZArith List String Bool.
From V Require Import Base.UString Base.Json Model.SchemaTypes Model.PyBase Model.Schema.
Import ListNotations.

Record sopts := {
  o_pretty : bool;                 (* pretty=True *)
  o_incl : bool;                   (* include_optional_defaults=True *)
  o_sort_keys : bool;              (* sort_keys=True (json.dump keyword) *)
  o_indent : option nat;           (* indent=n (json.dump keyword); text layer only *)
  o_compact : bool                 (* separators=(",", ":") ; text layer only *)
}.

(* ------------------------------------------------------------------ Python == on stored values *)
(* A uniform view of what `==` looks at: numbers (bool/int/float compare by value), text, None,
   datetimes (by instant), lists, mappings (dict, and _STIXBase through collections.abc.Mapping.__eq__:
   compared as dictionaries, i.e. regardless of member order). *)
Inductive nval :=
| NNum (m e : Z)            (* m * 10^e *)
| NNan
| NOther (r : ustring)      (* inf / -inf by their repr *)
| NStr (s : ustring)
| NNull
| NTime (us : Z)
| NList (l : list nval)
| NMap (m : list (ustring * nval)).

Fixpoint nval_of_j (j : jvalue) : nval :=
  match j with
  | JNull => NNull
  | JBool b => NNum (if b then 1 else 0) 0
  | JInt z => NNum z 0
  | JFloat r => match dec_of_repr r with
                | Some (m, e) => NNum m e
                | None => if ustr_eqb r (u "nan") then NNan else NOther r
                end
  | JStr s => NStr s
  | JArr l => NList ((fix go (l : list jvalue) := match l with [] => [] | x :: r => nval_of_j x :: go r end) l)
  | JObj m => NMap ((fix go (m : list (ustring * jvalue)) :=
                       match m with [] => [] | (k, x) :: r => (k, nval_of_j x) :: go r end) m)
  end.

Fixpoint nval_of (v : pval) : nval :=
  match v with
  | PJ j => nval_of_j j
  | PTime us _ => NTime us
  | PArr l => NList ((fix go (l : list pval) := match l with [] => [] | x :: r => nval_of x :: go r end) l)
  | PMap m => NMap ((fix go (m : list (ustring * pval)) :=
                       match m with [] => [] | (k, x) :: r => (k, nval_of x) :: go r end) m)
  | PObject _ inner _ _ =>
    NMap ((fix go (m : list (ustring * pval)) :=
             match m with [] => [] | (k, x) :: r => (k, nval_of x) :: go r end) inner)
  end.

Definition num_eqb (m1 e1 m2 e2 : Z) : bool :=
  if (e1 <=? e2)%Z then (m1 =? m2 * 10 ^ (e2 - e1))%Z else (m1 * 10 ^ (e1 - e2) =? m2)%Z.

Fixpoint nlookup (k : ustring) (m : list (ustring * nval)) : option nval :=
  match m with [] => None | (k', v) :: r => if ustr_eqb k k' then Some v else nlookup k r end.

Fixpoint neqb (a b : nval) {struct a} : bool :=
  match a, b with
  | NNum m1 e1, NNum m2 e2 => num_eqb m1 e1 m2 e2
  | NOther r1, NOther r2 => ustr_eqb r1 r2
  | NStr s1, NStr s2 => ustr_eqb s1 s2
  | NNull, NNull => true
  | NTime t1, NTime t2 => (t1 =? t2)%Z
  | NList l1, NList l2 =>
    (fix go (l1 : list nval) (l2 : list nval) : bool :=
       match l1, l2 with
       | [], [] => true
       | x :: r1, y :: r2 => neqb x y && go r1 r2
       | _, _ => false
       end) l1 l2
  | NMap m1, NMap m2 =>
    Nat.eqb (List.length m1) (List.length m2) &&
    (fix go (m1 : list (ustring * nval)) : bool :=
       match m1 with
       | [] => true
       | (k, x) :: r => match nlookup k m2 with Some y => neqb x y | None => false end && go r
       end) m1
  | _, _ => false
  end.

Definition pyeq (a b : pval) : bool := neqb (nval_of a) (nval_of b).

(* ------------------------------------------------------------------ find_property_index *)
(* str.isdigit() and int(): ASCII digits (other Unicode digits are not restated) *)
Definition key_isdigit (k : ustring) : bool :=
  match k with [] => false | _ => forallb is_digit k end.

Fixpoint index_of (k : ustring) (l : list ustring) (i : Z) : Z :=
  match l with
  | [] => (-1)%Z
  | x :: r => if ustr_eqb k x then i else index_of k r (i + 1)%Z
  end.

(* the children a search descends into: obj.values() of an object or dict, the elements of a list *)
Definition children (v : pval) : option (list pval) :=
  match v with
  | PObject _ inner _ _ => Some (map snd inner)
  | PMap m => Some (map snd m)
  | PArr l => Some l
  | PJ (JObj m) => Some (map (fun kv => PJ (snd kv)) m)
  | PJ (JArr l) => Some (map PJ l)
  | _ => None
  end.

(* the members a direct hit is looked up in, and the key order its index is taken from:
   list(obj) for a STIX object, sorted(obj) for a dict *)
Definition members_of (v : pval) : option (list (ustring * pval) * bool) :=   (* (members, sorted?) *)
  match v with
  | PObject _ inner _ _ => Some (inner, false)
  | PMap m => Some (m, true)
  | PJ (JObj m) => Some (map (fun kv => (fst kv, PJ (snd kv))) m, true)
  | _ => None
  end.

(* find_property_index(obj, search_key, search_value) for a key that is not all digits;
   fuel bounds the depth of the descent (an object of depth d needs fuel > d) *)
Fixpoint fpi (fuel : nat) (obj : pval) (key : ustring) (val : pval) : Z :=
  match fuel with
  | O => (-1)%Z
  | S f =>
    let in_seq (l : list pval) : Z :=
        (fix go (l : list pval) : Z :=
           match l with
           | [] => (-1)%Z
           | x :: r => let i := fpi f x key val in if (0 <=? i)%Z then i else go r
           end) l in
    match members_of obj with
    | Some (ms, sorted) =>
      match alookup key ms with
      | Some x =>
        if pyeq x val then index_of key (if sorted then usort (map fst ms) else map fst ms) 0%Z
        else in_seq (map snd ms)
      | None => in_seq (map snd ms)
      end
    | None =>
      match children obj with
      | Some l => in_seq l
      | None => (-1)%Z
      end
    end
  end.

Definition find_property_index (fuel : nat) (obj : pval) (key : ustring) (val : pval) : Z :=
  if key_isdigit key then digits_val 10%Z key 0%Z else fpi fuel obj key val.

(* ------------------------------------------------------------------ sorting members *)
(* list.sort(key=f): stable *)
Section StableSort.
  Context {A : Type}.
  Variable key : A -> Z.
  Fixpoint zinsert (x : A) (l : list A) : list A :=
    match l with
    | [] => [x]
    | y :: r => if (key x <=? key y)%Z then x :: l else y :: zinsert x r
    end.
  Definition zsort (l : list A) : list A := fold_right zinsert [] l.
End StableSort.

(* sort_keys=True: members by key (code points), every level; stable *)
Section KeySort.
  Context {A : Type}.
  Fixpoint kinsert (x : ustring * A) (l : list (ustring * A)) : list (ustring * A) :=
    match l with
    | [] => [x]
    | y :: r => if ustr_ltb (fst y) (fst x) then y :: kinsert x r else x :: l
    end.
  Definition ksort (l : list (ustring * A)) : list (ustring * A) := fold_right kinsert [] l.
End KeySort.

Fixpoint jsort (j : jvalue) : jvalue :=
  match j with
  | JArr l => JArr ((fix go (l : list jvalue) := match l with [] => [] | x :: r => jsort x :: go r end) l)
  | JObj m => JObj (ksort ((fix go (m : list (ustring * jvalue)) :=
                              match m with [] => [] | (k, x) :: r => (k, jsort x) :: go r end) m))
  | _ => j
  end.

(* ------------------------------------------------------------------ pretty=True *)
(* Every dictionary the encoder writes -- the dict made from a STIX object by default(), a
   dict-valued property, a dictionary inside custom content -- has its items sorted by
   sort_by((key, value)) = find_property_index(TOP, key, value), where the value is the stored
   Python value (before it is itself encoded). *)
(* The sort key of a dictionary's items is computed from the STORED values (before they are
   themselves encoded) and never looks at the encoded form.  The model therefore pairs every
   member with its encoding first (structural recursion), sorts the triples by
   find_property_index(TOP, key, stored value), and projects. *)
Section PrettyEncode.
  Variable fuel : nat.
  Variable top : pval.
  Variable incl : bool.

  Definition sort_key (t : ustring * pval * jvalue) : Z :=
    find_property_index fuel top (fst (fst t)) (snd (fst t)).
  Definition project (l : list (ustring * pval * jvalue)) : list (ustring * jvalue) :=
    map (fun t => (fst (fst t), snd t)) l.
  Definition sorted_members (l : list (ustring * pval * jvalue)) : list (ustring * jvalue) :=
    project (zsort sort_key l).

  (* a raw JSON value (custom content, dictionary property) under pretty *)
  Fixpoint pretty_raw (j : jvalue) : jvalue :=
    match j with
    | JArr l => JArr ((fix go (l : list jvalue) := match l with [] => [] | x :: r => pretty_raw x :: go r end) l)
    | JObj m =>
      JObj (sorted_members ((fix go (m : list (ustring * jvalue)) : list (ustring * pval * jvalue) :=
                               match m with [] => [] | (k, x) :: r => (k, PJ x, pretty_raw x) :: go r end) m))
    | _ => j
    end.

  Fixpoint pretty_enc (v : pval) : jvalue :=
    match v with
    | PJ j => pretty_raw j
    | PTime _ t => JStr t
    | PArr l => JArr ((fix go (l : list pval) := match l with [] => [] | x :: r => pretty_enc x :: go r end) l)
    | PMap m =>
      JObj (sorted_members ((fix go (m : list (ustring * pval)) : list (ustring * pval * jvalue) :=
                               match m with [] => [] | (k, x) :: r => (k, x, pretty_enc x) :: go r end) m))
    | PObject _ inner dfl _ =>
      JObj (sorted_members ((fix go (m : list (ustring * pval)) : list (ustring * pval * jvalue) :=
                               match m with
                               | [] => []
                               | (k, x) :: r => if incl || negb (mem_ustr k dfl) then (k, x, pretty_enc x) :: go r else go r
                               end) inner))
    end.
End PrettyEncode.

(* depth of a stored value (for the fuel of pretty_enc / find_property_index) *)
Fixpoint jdepth (j : jvalue) : nat :=
  match j with
  | JArr l => S ((fix go (l : list jvalue) := match l with [] => O | x :: r => Nat.max (jdepth x) (go r) end) l)
  | JObj m => S ((fix go (m : list (ustring * jvalue)) := match m with [] => O | (_, x) :: r => Nat.max (jdepth x) (go r) end) m)
  | _ => O
  end.
Fixpoint pdepth (v : pval) : nat :=
  match v with
  | PJ j => jdepth j
  | PTime _ _ => O
  | PArr l => S ((fix go (l : list pval) := match l with [] => O | x :: r => Nat.max (pdepth x) (go r) end) l)
  | PMap m => S ((fix go (m : list (ustring * pval)) := match m with [] => O | (_, x) :: r => Nat.max (pdepth x) (go r) end) m)
  | PObject _ inner _ _ =>
    S ((fix go (m : list (ustring * pval)) := match m with [] => O | (_, x) :: r => Nat.max (pdepth x) (go r) end) inner)
  end.

(* ------------------------------------------------------------------ serialize *)
(* the ordered-member JSON value written for obj.serialize with keyword options.
   pretty overrides sort_keys (simplejson: an explicit item_sort_key wins), indent and separators. *)
Definition serialize_value (o : sopts) (obj : pval) : jvalue :=
  if o_pretty o then pretty_enc (S (pdepth obj)) obj (o_incl o) obj
  else if o_sort_keys o then jsort (encode (o_incl o) obj)
  else encode (o_incl o) obj.

(* one result line of the correspondence run: the ordered value, or the error of the run *)
Definition show_serialized (o : sopts) (r : result pval) : string :=
  match r with
  | Ok v => append "OK " (show_jvalue (serialize_value o v))
  | Err e => append "ERR " (show_err e)
  | Unmodelled => "UNMODELLED"
  end.

(* several option sets for one run, one line: results separated by " ## " *)
Definition show_serialized_all (os : list sopts) (r : result pval) : string :=
  match r with
  | Ok (PObject c i d h) =>
    fold_right (fun o acc => append (show_jvalue (serialize_value o (PObject c i d h))) (append " ## " acc)) EmptyString os
  | Ok _ => "OK not-an-object"
  | Err e => append "ERR " (show_err e)
  | Unmodelled => "UNMODELLED"
  end.

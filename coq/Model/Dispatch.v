(* Model/Dispatch.v -- parameter flow from every versioned entry point of the
   library to the parser, COMPUTED from the generated call-site table
   (Gen/CallSites.v, types in Model/CallTable.v).  No proofs here.

   A state is (def being executed, class of self, symbolic value of each of
   its parameters, symbolic constructor arguments of self).  A call site of
   the table whose caller is the state's def gives a successor state: every
   parameter of the callee (from the callee's CURRENT signature) receives the
   caller-side argument bound to it by the table, evaluated in the caller's
   state, or the callee's default.  The parser functions
   parsing.dict_to_stix2 / parsing.parse_observable are terminal; the values
   of their parameters allow_custom / interoperability / version in a terminal
   state are what the entry point hands to the parser.                        *)
From Coq Require Import String List Bool Ascii.
From V Require Import Model.CallTable.
Import ListNotations.
Open Scope string_scope.

Record table := mkTable {
  t_sigs : list fsig;
  t_sites : list site;
  t_attrs : list attr_assign;
  t_fwds : list forwarder;
  t_comps : list component;
  t_bases : list (string * list string);
  t_aliases : list (string * string);
  t_wbenv : string
}.

(* ---- small string / list helpers ---- *)
Definition smem (x : string) (l : list string) : bool := existsb (String.eqb x) l.

Fixpoint assoc {A : Type} (k : string) (l : list (string * A)) : option A :=
  match l with
  | [] => None
  | (k', v) :: rest => if String.eqb k k' then Some v else assoc k rest
  end.

Fixpoint sdedup (l : list string) : list string :=
  match l with
  | [] => []
  | x :: rest => if smem x rest then sdedup rest else x :: sdedup rest
  end.

Definition str_drop (n : nat) (s : string) : string := substring n (String.length s - n) s.

(* ---- symbolic values ---- *)
Inductive sym :=
| SArg (p : string)                           (* the entry point's own argument p *)
| SCtor (p : string)                          (* constructor argument p of the object the entry point is a method of *)
| SConst (c : string)                         (* a literal (repr text) *)
| SOther (text : string) (roots : list string). (* computed; roots = the own inputs it is computed from *)

Definition roots (s : sym) : list string :=
  match s with
  | SArg p => ["arg:" ++ p]
  | SCtor p => ["ctor:" ++ p]
  | SConst _ => []
  | SOther _ rs => rs
  end.

Definition env := list (string * sym).

Record state := mkState {
  st_fn : string;      (* qualified def *)
  st_cls : string;     (* class of self, "" in a plain function *)
  st_env : env;        (* parameters of st_fn (self excluded) *)
  st_self : env        (* constructor parameters of self's class *)
}.

(* ---- boolean equalities (reflection lemmas in Proofs/DispatchFacts.v) ---- *)
Fixpoint slist_eqb (a b : list string) : bool :=
  match a, b with
  | [], [] => true
  | x :: a', y :: b' => String.eqb x y && slist_eqb a' b'
  | _, _ => false
  end.

Definition sym_eqb (a b : sym) : bool :=
  match a, b with
  | SArg x, SArg y => String.eqb x y
  | SCtor x, SCtor y => String.eqb x y
  | SConst x, SConst y => String.eqb x y
  | SOther t r, SOther t' r' => String.eqb t t' && slist_eqb r r'
  | _, _ => false
  end.

Fixpoint env_eqb (a b : env) : bool :=
  match a, b with
  | [], [] => true
  | (k, v) :: a', (k', v') :: b' => String.eqb k k' && sym_eqb v v' && env_eqb a' b'
  | _, _ => false
  end.

Definition state_eqb (a b : state) : bool :=
  String.eqb (st_fn a) (st_fn b) && String.eqb (st_cls a) (st_cls b)
  && env_eqb (st_env a) (st_env b) && env_eqb (st_self a) (st_self b).

Definition state_mem (s : state) (l : list state) : bool := existsb (state_eqb s) l.

(* ---- lookups in the table ---- *)
Definition find_sig (T : table) (f : string) : option fsig :=
  find (fun s => String.eqb (f_name s) f) (t_sigs T).

Definition find_site (T : table) (id : string) : option site :=
  find (fun s => String.eqb (s_id s) id) (t_sites T).

(* parameters that receive call arguments: self is not one of them *)
Definition sig_params (sg : fsig) : list (string * option aexpr) :=
  match f_kind sg with
  | KMethod _ => tl (f_params sg)
  | KFunc => f_params sg
  end.

Definition sig_has (sg : fsig) (p : string) : bool := smem p (map fst (sig_params sg)).

Definition sig_class (sg : fsig) : string :=
  match f_kind sg with KMethod c => c | KFunc => "" end.

(* ---- evaluation of table expressions in a state ---- *)
Definition env_get (e : env) (p : string) : sym :=
  match assoc p e with Some s => s | None => SOther ("unbound " ++ p) [] end.

(* an expression of a constructor body, over the constructor's parameters *)
Definition eval_ctor_expr (self : env) (e : aexpr) : sym :=
  match e with
  | FromParam p => env_get self p
  | FromAttr a => SOther ("attribute of attribute " ++ a) []
  | Const c => SConst c
  | Other t deps => SOther t (sdedup (flat_map (fun d => roots (env_get self d)) deps))
  end.

Definition attr_sym (T : table) (st : state) (a : string) : sym :=
  match filter (fun x => String.eqb (aa_class x) (st_cls st) && String.eqb (aa_attr x) a) (t_attrs T) with
  | [x] => if String.eqb (aa_method x) "__init__" then eval_ctor_expr (st_self st) (aa_expr x)
           else SOther ("attribute " ++ a ++ " is set outside __init__") []
  | [] => SOther ("attribute " ++ a ++ " is not assigned in the class") []
  | _ => SOther ("attribute " ++ a ++ " is assigned more than once") []
  end.

Definition dep_sym (T : table) (st : state) (d : string) : sym :=
  if prefix "self." d then attr_sym T st (str_drop 5 d)
  else match assoc d (st_env st) with Some s => s | None => SConst "" end.

Definition eval_aexpr (T : table) (st : state) (e : aexpr) : sym :=
  match e with
  | FromParam p => env_get (st_env st) p
  | FromAttr a => attr_sym T st a
  | Const c => SConst c
  | Other t deps => SOther t (sdedup (flat_map (fun d => roots (dep_sym T st d)) deps))
  end.

Definition eval_default (d : option aexpr) (q : string) : sym :=
  match d with
  | Some (Const c) => SConst c
  | Some (Other t _) => SOther t []
  | Some _ => SOther ("default of " ++ q) []
  | None => SOther ("missing " ++ q) []
  end.

Definition bind_env (T : table) (st : state) (binds : list (string * aexpr)) (sg : fsig) : env :=
  map (fun qd => (fst qd,
                  match assoc (fst qd) binds with
                  | Some e => eval_aexpr T st e
                  | None => eval_default (snd qd) (fst qd)
                  end)) (sig_params sg).

(* ---- the transition relation, as a function ---- *)
Definition terminal_fns : list string := ["parsing.dict_to_stix2"; "parsing.parse_observable"].
Definition is_terminal (st : state) : bool := smem (st_fn st) terminal_fns.

Definition nosig_prefix : string := "<no signature> ".

Definition step_site (T : table) (st : state) (s : site) : option state :=
  if negb (String.eqb (s_caller s) (st_fn st)) then None else
  match s_via s with
  | VLeaf => None
  | v =>
    match find_sig T (s_callee s) with
    | None => Some (mkState (nosig_prefix ++ s_callee s) "" [] [])
    | Some sg =>
      if String.eqb (s_callee s) "registry.class_for_type" then None else
      let e := bind_env T st (s_binds s) sg in
      Some (match v with
            | VSelf => mkState (s_callee s) (st_cls st) e (st_self st)
            | VConstruct c => mkState (s_callee s) c e e
            | _ => mkState (s_callee s) "" e []
            end)
    end
  end.

Definition succs (T : table) (st : state) : list (string * state) :=
  if is_terminal st then [] else
  flat_map (fun s => match step_site T st s with Some st' => [(s_id s, st')] | None => [] end) (t_sites T).

(* breadth-first exploration; every visited state keeps one witness chain of
   site ids.  Completeness is not assumed from the fuel: `closedb` re-checks
   that the result is closed under succs (Proofs/DispatchFacts.v turns that
   into "every state reachable by ANY chain is in the result").               *)
Definition visited := list (state * list string).

Fixpoint explore (T : table) (fuel : nat) (frontier : visited) (seen : visited) : visited :=
  match fuel with
  | O => seen
  | S f =>
    match frontier with
    | [] => seen
    | (st, ch) :: rest =>
      if state_mem st (map fst seen) then explore T f rest seen
      else explore T f (rest ++ map (fun x => (snd x, ch ++ [fst x])%list) (succs T st))%list (seen ++ [(st, ch)])%list
    end
  end.

Definition closedb (T : table) (S : list state) : bool :=
  forallb (fun st => forallb (fun x => state_mem (snd x) S) (succs T st)) S.

(* ---- entry points ---- *)
Inductive ekind := EDef | EForward | EStore | EWorkbench.

Record entry := mkEntry {
  e_name : string;
  e_kind : ekind;
  e_init : state;
  e_own : list string;                 (* names of the entry point's own call arguments *)
  e_ctor : list string;                (* names of the constructor arguments of its object *)
  e_defaults : list (string * sym)     (* "arg:p" / "ctor:p" -> default of that parameter *)
}.

Definition arg_env (sg : fsig) : env := map (fun qd => (fst qd, SArg (fst qd))) (sig_params sg).
Definition ctor_env (sg : fsig) : env := map (fun qd => (fst qd, SCtor (fst qd))) (sig_params sg).
Definition default_env (tag : string) (sg : fsig) : list (string * sym) :=
  map (fun qd => (tag ++ fst qd, eval_default (snd qd) (fst qd))) (sig_params sg).
Definition const_default_env (sg : fsig) : env :=
  map (fun qd => (fst qd, eval_default (snd qd) (fst qd))) (sig_params sg).

Definition is_init (f : string) : bool :=
  let n := String.length f in
  Nat.leb 9 n && String.eqb (substring (n - 9) 9 f) ".__init__".

Definition def_entry (T : table) (sg : fsig) : list entry :=
  if negb (sig_has sg "version") then [] else
  match f_kind sg with
  | KFunc =>
      [mkEntry (f_name sg) EDef (mkState (f_name sg) "" (arg_env sg) []) (map fst (sig_params sg)) [] (default_env "arg:" sg)]
  | KMethod c =>
      if is_init (f_name sg) then
        [mkEntry (f_name sg) EDef (mkState (f_name sg) c (arg_env sg) (arg_env sg)) (map fst (sig_params sg)) [] (default_env "arg:" sg)]
      else
        match find_sig T (c ++ ".__init__") with
        | Some cs =>
            [mkEntry (f_name sg) EDef (mkState (f_name sg) c (arg_env sg) (ctor_env cs))
                     (map fst (sig_params sg)) (map fst (sig_params cs)) (default_env "arg:" sg ++ default_env "ctor:" cs)%list]
        | None =>
            [mkEntry (f_name sg) EDef (mkState (f_name sg) c (arg_env sg) []) (map fst (sig_params sg)) [] (default_env "arg:" sg)]
        end
  end.

Definition forward_entry (T : table) (fw : forwarder) : list entry :=
  if String.eqb (fw_target fw) "" then [] else
  match find_sig T (fw_target fw) with
  | Some sg =>
      if sig_has sg "version" && match f_kind sg with KFunc => true | _ => false end then
        [mkEntry (fw_caller fw) EForward (mkState (f_name sg) "" (arg_env sg) []) (map fst (sig_params sg)) [] (default_env "arg:" sg)]
      else []
  | None => []
  end.

(* reflexive-transitive base classes *)
Fixpoint ancestors (T : table) (fuel : nat) (c : string) : list string :=
  match fuel with
  | O => [c]
  | S f => c :: flat_map (ancestors T f) (match assoc c (t_bases T) with Some bs => bs | None => [] end)
  end.

(* class part and last component of "mod.Class.method" *)
Fixpoint last_dot (s : string) (i : nat) (best : option nat) : option nat :=
  match s with
  | EmptyString => best
  | String c rest => last_dot rest (S i) (if Ascii.eqb c "."%char then Some i else best)
  end.
Definition qual_class (q : string) : string :=
  match last_dot q 0 None with Some i => substring 0 i q | None => "" end.
Definition qual_short (q : string) : string :=
  match last_dot q 0 None with Some i => str_drop (S i) q | None => q end.

(* the store method S.m forwards all its arguments to self.<role>.m, and <role> is built by S.__init__ at a table site *)
Definition component_self (T : table) (self_of_store : fsig -> env) (co : component) : option env :=
  match find_site T (co_site co), find_sig T (co_store co ++ ".__init__") with
  | Some s, Some ss =>
      match find_sig T (s_callee s) with
      | Some cs =>
          let stS := mkState (f_name ss) (co_store co) (self_of_store ss) (self_of_store ss) in
          Some (bind_env T stS (s_binds s) cs)
      | None => None
      end
  | _, _ => None
  end.

Definition store_entries (T : table) : list entry :=
  flat_map (fun co =>
    flat_map (fun fw =>
      if String.eqb (fw_target fw) "" && String.eqb (fw_role fw) (co_role co)
         && smem (qual_class (fw_caller fw)) (ancestors T 6 (co_store co)) then
        match find_sig T (co_class co ++ "." ++ fw_method fw), component_self T ctor_env co,
              find_sig T (co_store co ++ ".__init__") with
        | Some sg, Some self, Some ss =>
            if sig_has sg "version" then
              [mkEntry (co_store co ++ "." ++ qual_short (fw_caller fw)) EStore
                       (mkState (f_name sg) (co_class co) (arg_env sg) self)
                       (map fst (sig_params sg)) (map fst (sig_params ss))
                       (default_env "arg:" sg ++ default_env "ctor:" ss)%list]
            else []
        | _, _, _ => []
        end
      else []) (t_fwds T)) (t_comps T).

(* workbench.py: `name = _environ.m` with `_environ = Environment(store=MemoryStore())`;
   Environment.__init__ keeps store.sink as its sink, so _environ.add is
   MemoryStore().sink.add with the constructor defaults of MemoryStore.       *)
Definition expected_wbenv : string := "Environment(store=MemoryStore())".
Definition env_sink_is_store_sink (T : table) : bool :=
  existsb (fun x => String.eqb (aa_class x) "environment.Environment" && String.eqb (aa_attr x) "sink"
                    && match aa_expr x with Other t _ => String.eqb t "store.sink" | _ => false end) (t_attrs T).

Definition unknown_entry (name why : string) : entry :=
  mkEntry name EWorkbench (mkState ("<unknown> " ++ why) "" [] []) [] [] [].

Definition workbench_entries (T : table) : list entry :=
  flat_map (fun al =>
    let m := str_drop 9 (snd al) in   (* after "_environ." *)
    flat_map (fun fw =>
      if String.eqb (qual_short (fw_caller fw)) m
         && smem (qual_class (fw_caller fw)) (ancestors T 6 "environment.Environment") then
        if negb (String.eqb (fw_target fw) "") then
          match find_sig T (fw_target fw) with
          | Some sg => if sig_has sg "version" then
              [mkEntry (fst al) EWorkbench (mkState (f_name sg) "" (arg_env sg) []) (map fst (sig_params sg)) [] (default_env "arg:" sg)]
              else []
          | None => []
          end
        else if String.eqb (fw_role fw) "sink" then
          if negb (String.eqb (t_wbenv T) expected_wbenv && env_sink_is_store_sink T) then
            [unknown_entry (fst al) "workbench environment is not Environment(store=MemoryStore())"]
          else
            flat_map (fun co =>
              if String.eqb (co_store co) "memory.MemoryStore" && String.eqb (co_role co) "sink" then
                match find_sig T (co_class co ++ "." ++ fw_method fw), component_self T const_default_env co with
                | Some sg, Some self =>
                    if sig_has sg "version" then
                      [mkEntry (fst al) EWorkbench (mkState (f_name sg) (co_class co) (arg_env sg) self)
                               (map fst (sig_params sg)) [] (default_env "arg:" sg)]
                    else []
                | _, _ => []
                end
              else []) (t_comps T)
        else []
      else []) (t_fwds T)) (t_aliases T).

Definition entries (T : table) : list entry :=
  (flat_map (def_entry T) (t_sigs T) ++ flat_map (forward_entry T) (t_fwds T)
   ++ store_entries T ++ workbench_entries T)%list.

Definition fuel0 : nat := 400.
Definition reach (T : table) (E : entry) : visited := explore T fuel0 [(e_init E, [])] [].
Definition terminals (T : table) (E : entry) : visited := filter (fun x => is_terminal (fst x)) (reach T E).

(* ---- what the entry point must hand to the parser ---- *)
Definition got (t : state) (p : string) : sym := env_get (st_env t) p.

Definition version_ok (t : state) : bool := sym_eqb (got t "version") (SArg "version").

Definition interop_expected (E : entry) : sym :=
  if smem "interoperability" (e_own E) then SArg "interoperability" else SConst "False".
Definition interop_ok (E : entry) (t : state) : bool := sym_eqb (got t "interoperability") (interop_expected E).

Definition own_allow : list string := ["arg:allow_custom"; "ctor:allow_custom"].
Definition allow_roots_ok (t : state) : bool := forallb (fun r => smem r own_allow) (roots (got t "allow_custom")).
Definition is_other (s : sym) : bool := match s with SOther _ _ => true | _ => false end.
Definition allow_expected (E : entry) : option sym :=
  if smem "allow_custom" (e_own E) then Some (SArg "allow_custom")
  else match e_kind E with
       | EDef => if smem "allow_custom" (e_ctor E) then Some (SCtor "allow_custom") else None
       | _ => None
       end.
Definition allow_ok (E : entry) (t : state) : bool :=
  allow_roots_ok t &&
  match allow_expected E with
  | Some s => sym_eqb (got t "allow_custom") s
  | None => true
  end.

Definition wellformed (st : state) : bool :=
  negb (prefix nosig_prefix (st_fn st)) && negb (prefix "<unknown>" (st_fn st)).

Definition terminal_ok (E : entry) (t : state) : bool := version_ok t && interop_ok E t && allow_ok E t.

Definition entry_good (T : table) (E : entry) : bool :=
  forallb (fun x => wellformed (fst x) && (negb (is_terminal (fst x)) || terminal_ok E (fst x))) (reach T E).

Definition entry_closed (T : table) (E : entry) : bool := closedb T (map fst (reach T E)).

(* ---- blame: which call sites of a failing chain bind a flow parameter to something else ---- *)
Definition flow_params : list string := ["version"; "interoperability"; "allow_custom"].

Definition expr_names (e : aexpr) : list string :=
  match e with
  | FromParam p => [p]
  | FromAttr a => [a]
  | Const _ => []
  | Other _ deps => map (fun d => if prefix "self." d then str_drop 5 d else d) deps
  end.

Definition site_suspect (T : table) (s : site) : bool :=
  existsb (fun qe => smem (fst qe) flow_params
                     && existsb (fun n => smem n flow_params && negb (String.eqb n (fst qe))) (expr_names (snd qe)))
          (s_binds s)
  || match find_sig T (s_caller s), find_sig T (s_callee s) with
     | Some cr, Some ce =>
         existsb (fun p => sig_has cr p && sig_has ce p && negb (smem p (map fst (s_binds s)))) ["version"; "interoperability"]
     | _, _ => false
     end.

Definition chain_blame (T : table) (ch : list string) : list string :=
  let sus := filter (fun id => match find_site T id with Some s => site_suspect T s | None => false end) ch in
  match sus with
  | [] => match rev ch with last :: _ => [last] | [] => [] end
  | _ => sus
  end.

Definition bad_reaches (T : table) (E : entry) : visited :=
  filter (fun x => negb (wellformed (fst x)) || (is_terminal (fst x) && negb (terminal_ok E (fst x)))) (reach T E).

(* (entry name, blamed site id) for every failing reach of every entry *)
Definition refuted (T : table) : list (string * string) :=
  flat_map (fun E => flat_map (fun x => map (fun id => (e_name E, id)) (chain_blame T (snd x))) (bad_reaches T E)) (entries T).

Definition refuted_sites (T : table) : list string := sdedup (map snd (refuted T)).
Definition refuted_entries (T : table) : list string := sdedup (map fst (refuted T)).

(* ---- the parser's own use of its parameters ---- *)
Definition site_binds (s : site) (q : string) (e : aexpr -> bool) : bool :=
  match assoc q (s_binds s) with Some x => e x | None => false end.
Definition is_param (p : string) (e : aexpr) : bool := match e with FromParam x => String.eqb x p | _ => false end.

Definition parser_core_ok (T : table) : bool :=
  forallb (fun f =>
    (* every class lookup uses the version parameter, every construction the two switches *)
    forallb (fun s =>
      if negb (String.eqb (s_caller s) f) then true
      else if String.eqb (s_callee s) "registry.class_for_type" then site_binds s "stix_version" (is_param "version")
      else if String.eqb (s_callee s) "<obj_class>" then
        site_binds s "allow_custom" (is_param "allow_custom") && site_binds s "interoperability" (is_param "interoperability")
      else true) (t_sites T)
    && existsb (fun s => String.eqb (s_caller s) f && String.eqb (s_callee s) "registry.class_for_type") (t_sites T)
    && existsb (fun s => String.eqb (s_caller s) f && String.eqb (s_callee s) "<obj_class>") (t_sites T)
    && match find_sig T f with Some sg => smem "version" (f_idioms sg) | None => false end)
  terminal_fns
  (* parse itself reaches dict_to_stix2 with its three parameters unchanged: covered by the entry "parsing.parse" *).

(* the id check: _validate_id hands spec_version and interoperability on unchanged;
   the property classes pass their own spec_version attribute and the caller's switch *)
Definition id_sites_ok (T : table) : bool :=
  forallb (fun s =>
    if String.eqb (s_callee s) "properties._check_uuid" then
      site_binds s "spec_version" (is_param "spec_version") && site_binds s "interoperability" (is_param "interoperability")
    else if String.eqb (s_callee s) "properties._validate_id" then
      site_binds s "spec_version" (fun e => match e with FromAttr a => String.eqb a "spec_version" | _ => false end)
      && match assoc "interoperability" (s_binds s) with
         | Some e => is_param "interoperability" e
         | None => true          (* default False: strict *)
         end
    else true) (t_sites T)
  && existsb (fun s => String.eqb (s_callee s) "properties._check_uuid") (t_sites T).

(* parser calls made from inside property cleaning (embedded objects): never a version-derived switch *)
Definition embedded_sites_ok (T : table) : bool :=
  forallb (fun s =>
    if prefix "properties." (s_caller s) && smem (s_callee s) ["parsing.parse"; "parsing.parse_observable"; "parsing.dict_to_stix2"] then
      match assoc "interoperability" (s_binds s) with Some e => is_param "interoperability" e | None => true end
      && site_binds s "allow_custom" (is_param "allow_custom")
      && match assoc "version" (s_binds s) with
         | Some e => match e with FromAttr a => String.eqb a "spec_version" | _ => false end
         | None => true
         end
    else true) (t_sites T).

(* ---- concrete evaluation (for the correspondence run) ---- *)
Inductive pyarg := PNone | PBool (b : bool) | PStr (s : string) | POther (t : string).

Fixpoint strip_last_quote (s : string) : string :=
  match s with
  | EmptyString => EmptyString
  | String c EmptyString => if Ascii.eqb c "'"%char then EmptyString else String c EmptyString
  | String c rest => String c (strip_last_quote rest)
  end.

Definition parse_const (c : string) : pyarg :=
  if String.eqb c "None" then PNone
  else if String.eqb c "True" then PBool true
  else if String.eqb c "False" then PBool false
  else match c with
       | String q rest => if Ascii.eqb q "'"%char then PStr (strip_last_quote rest) else POther c
       | EmptyString => POther c
       end.

Definition eval_sym (E : entry) (cargs : list (string * pyarg)) (s : sym) : pyarg :=
  let own k :=
    match assoc k cargs with
    | Some v => v
    | None => match assoc k (e_defaults E) with
              | Some (SConst c) => parse_const c
              | Some _ => POther ("default of " ++ k)
              | None => POther ("no such input " ++ k)
              end
    end in
  match s with
  | SArg p => own ("arg:" ++ p)
  | SCtor p => own ("ctor:" ++ p)
  | SConst c => parse_const c
  | SOther t _ => POther t
  end.

(* Python truthiness of a concrete argument (what `if interoperability:` / `if not version:` read) *)
Definition truthy (a : pyarg) : option bool :=
  match a with
  | PNone => Some false
  | PBool b => Some b
  | PStr s => Some (negb (String.eqb s ""))
  | POther _ => None
  end.

(* the TAXII classes need a server (and the taxii2client package): they are in the table and in
   the theorems, but stated separately and not driven by the correspondence run *)
Definition taxii_entry (E : entry) : bool := prefix "taxii." (e_name E).

Definition show_pyarg (a : pyarg) : string :=
  match a with
  | PNone => "None"
  | PBool true => "True"
  | PBool false => "False"
  | PStr s => "'" ++ s ++ "'"
  | POther t => "?" ++ t
  end.

Definition show_sym (s : sym) : string :=
  match s with
  | SArg p => "arg:" ++ p
  | SCtor p => "ctor:" ++ p
  | SConst c => "const:" ++ c
  | SOther t rs => "other:" ++ t ++ "<" ++ String.concat "," rs ++ ">"
  end.

Definition find_entry (T : table) (name : string) : option entry :=
  find (fun E => String.eqb (e_name E) name) (entries T).

(* the distinct (terminal def | allow_custom | interoperability | version) the entry point hands to the parser *)
Definition effective (T : table) (name : string) (cargs : list (string * pyarg)) : string :=
  match find_entry T name with
  | None => "NO-SUCH-ENTRY"
  | Some E =>
      String.concat " ;; " (sdedup (map (fun x =>
        let t := fst x in
        st_fn t ++ "|" ++ show_pyarg (eval_sym E cargs (got t "allow_custom"))
                ++ "|" ++ show_pyarg (eval_sym E cargs (got t "interoperability"))
                ++ "|" ++ show_pyarg (eval_sym E cargs (got t "version"))) (terminals T E)))
  end.

(* one line per entry: name, good?, closed?, symbolic triples *)
Definition show_entry (T : table) (E : entry) : string :=
  e_name E ++ " good=" ++ (if entry_good T E then "true" else "false")
  ++ " closed=" ++ (if entry_closed T E then "true" else "false")
  ++ " own=" ++ String.concat "," (e_own E)
  ++ " :: " ++ String.concat " ;; " (sdedup (map (fun x =>
       let t := fst x in
       st_fn t ++ "|" ++ show_sym (got t "allow_custom") ++ "|" ++ show_sym (got t "interoperability")
               ++ "|" ++ show_sym (got t "version") ++ "|via " ++ String.concat " " (snd x)) (terminals T E))).

Definition show_refuted (T : table) : list string :=
  map (fun x => fst x ++ " @ " ++ snd x) (refuted T).

(* Model/Filters.v -- executable model of
     stix2/datastore/filters.py   : Filter._check_property, _check_filter,
                                    apply_common_filters, FilterSet.add
     stix2/datastore/filesystem.py: AuthSet, _update_allow,
                                    _find_search_optimizations,
                                    _get_matching_dir_entries,
                                    _is_versioned_type_dir, _search_versioned,
                                    _search_unversioned, FileSystemSource.query,
                                    FileSystemSink._check_path_and_write (layout)
     stix2/datastore/memory.py    : _add / _ObjectFamily (iteration order),
                                    MemorySource.query
     stix2/datastore/__init__.py  : CompositeDataSource.query, utils.deduplicate
   No proofs in this file.  Each definition names the Python it mirrors.

   Values: what the stores hold after `parse`, i.e. JSON values in which the
   timestamp properties of REGISTERED types have become STIXdatetime (VTime,
   microseconds since the epoch, always UTC-aware); content of unregistered
   types stays a dictionary and keeps its timestamps as text (VStr).
   A float is m/1024 (the harness only generates such floats, which are exact
   doubles, so Python's exact int/float comparison is integer comparison).   *)
From Coq Require Import NArith ZArith List String Bool Ascii.
From V Require Import Base.UString.
Import ListNotations.
Open Scope Z_scope.

(* ------------------------------------------------------------------ *)
(* Python values and outcomes                                          *)

Inductive pv :=
| VNone
| VBool (b : bool)
| VInt (z : Z)
| VFloat (m : Z)              (* the double m/1024 *)
| VStr (s : ustring)
| VTime (us : Z)              (* aware datetime / STIXdatetime: microseconds since 1970-01-01T00:00:00Z *)
| VList (l : list pv)
| VTuple (l : list pv)        (* only as a filter value: Filter.__new__ turns a list into a tuple *)
| VDict (m : list (ustring * pv)).   (* dict or _STIXBase (a Mapping); insertion order kept *)

Inductive err := ETypeError | EAttributeError | EValueError | EKeyError | EDataSourceError.

Inductive res (A : Type) := Ok (a : A) | Raise (e : err).
Arguments Ok {A} a.
Arguments Raise {A} e.

Definition bind {A B} (r : res A) (k : A -> res B) : res B :=
  match r with Ok a => k a | Raise e => Raise e end.

Fixpoint plookup (k : ustring) (m : list (ustring * pv)) : option pv :=
  match m with
  | [] => None
  | (k', v) :: rest => if ustr_eqb k k' then Some v else plookup k rest
  end.

(* ------------------------------------------------------------------ *)
(* Python ==, <, <=, in                                                *)

(* bool is an int; int/float comparison is exact *)
Definition num_of (x : pv) : option Z :=
  match x with
  | VBool b => Some (if b then 1024 else 0)
  | VInt z => Some (1024 * z)
  | VFloat m => Some m
  | _ => None
  end.

(* x == y : never raises on these kinds (datetime == str is False) *)
Fixpoint py_eq (x y : pv) {struct x} : bool :=
  match x, y with
  | VNone, VNone => true
  | VStr a, VStr b => ustr_eqb a b
  | VTime a, VTime b => Z.eqb a b
  | VList a, VList b =>
      (fix go (a b : list pv) : bool :=
         match a, b with
         | [], [] => true
         | x :: a', y :: b' => py_eq x y && go a' b'
         | _, _ => false
         end) a b
  | VTuple a, VTuple b =>
      (fix go (a b : list pv) : bool :=
         match a, b with
         | [], [] => true
         | x :: a', y :: b' => py_eq x y && go a' b'
         | _, _ => false
         end) a b
  | VDict a, VDict b =>      (* Mapping.__eq__ / dict.__eq__: same size, every key present with an equal value *)
      Nat.eqb (List.length a) (List.length b) &&
      (fix go (a : list (ustring * pv)) : bool :=
         match a with
         | [] => true
         | (k, v) :: a' => match plookup k b with Some w => py_eq v w | None => false end && go a'
         end) a
  | _, _ => match num_of x, num_of y with Some p, Some q => Z.eqb p q | _, _ => false end
  end.

(* x < y (strict = true) or x <= y (strict = false).  Sequences compare
   lexicographically: first index where the elements are not ==, then that
   pair decides; otherwise the lengths decide.  Anything else: TypeError. *)
Fixpoint py_ord (strict : bool) (x y : pv) {struct x} : res bool :=
  match x, y with
  | VStr a, VStr b => Ok (if strict then ustr_ltb a b else negb (ustr_ltb b a))
  | VTime a, VTime b => Ok (if strict then Z.ltb a b else Z.leb a b)
  | VList a, VList b =>
      (fix go (a b : list pv) : res bool :=
         match a, b with
         | [], [] => Ok (negb strict)
         | [], _ :: _ => Ok true
         | _ :: _, [] => Ok false
         | x :: a', y :: b' => if py_eq x y then go a' b' else py_ord strict x y
         end) a b
  | VTuple a, VTuple b =>
      (fix go (a b : list pv) : res bool :=
         match a, b with
         | [], [] => Ok (negb strict)
         | [], _ :: _ => Ok true
         | _ :: _, [] => Ok false
         | x :: a', y :: b' => if py_eq x y then go a' b' else py_ord strict x y
         end) a b
  | _, _ => match num_of x, num_of y with
            | Some p, Some q => Ok (if strict then Z.ltb p q else Z.leb p q)
            | _, _ => Raise ETypeError
            end
  end.

Definition py_lt := py_ord true.
Definition py_le := py_ord false.

Fixpoint is_substr (a s : ustring) : bool :=
  ustr_prefix a s || match s with [] => false | _ :: s' => is_substr a s' end.

Fixpoint hashable (x : pv) : bool :=
  match x with
  | VList _ | VDict _ => false
  | VTuple l => (fix go (l : list pv) : bool := match l with [] => true | y :: l' => hashable y && go l' end) l
  | _ => true
  end.

(* a in c *)
Definition py_in (a c : pv) : res bool :=
  match c with
  | VTuple l | VList l => Ok (existsb (py_eq a) l)
  | VStr s => match a with VStr x => Ok (is_substr x s) | _ => Raise ETypeError end
  | VDict m => if hashable a then
                 Ok (match a with VStr k => match plookup k m with Some _ => true | None => false end | _ => false end)
               else Raise ETypeError
  | _ => Raise ETypeError         (* argument of type 'int' / 'NoneType' / 'datetime' is not iterable *)
  end.

(* ------------------------------------------------------------------ *)
(* utils.parse_into_datetime on a string: the two strptime formats
   %Y-%m-%dT%H:%M:%SZ and %Y-%m-%dT%H:%M:%S.%fZ (selected by "." in value).
   Modelled for the canonical spelling (4-2-2T2:2:2[.1-6 digits]Z, valid
   calendar date); strptime's leniency on one-digit fields is outside the
   model and not generated.                                            *)

Definition digit (c : N) : option Z :=
  if (N.leb 48 c && N.leb c 57)%bool then Some (Z.of_N c - 48) else None.

Fixpoint digits (n : nat) (s : ustring) (acc : Z) : option (Z * ustring) :=
  match n with
  | O => Some (acc, s)
  | S n' => match s with
            | c :: s' => match digit c with Some d => digits n' s' (acc * 10 + d) | None => None end
            | [] => None
            end
  end.

Definition expect (c : N) (s : ustring) : option ustring :=
  match s with c' :: s' => if N.eqb c c' then Some s' else None | [] => None end.

Definition is_leap (y : Z) : bool :=
  ((y mod 4 =? 0) && negb (y mod 100 =? 0)) || (y mod 400 =? 0).

Definition days_in_month (y m : Z) : Z :=
  if (m =? 2) then (if is_leap y then 29 else 28)
  else if (m =? 4) || (m =? 6) || (m =? 9) || (m =? 11) then 30 else 31.

(* Hinnant's days_from_civil *)
Definition days_from_civil (y m d : Z) : Z :=
  let y' := if m <=? 2 then y - 1 else y in
  let era := y' / 400 in
  let yoe := y' - era * 400 in
  let mp := (m + 9) mod 12 in
  let doy := (153 * mp + 2) / 5 + d - 1 in
  let doe := yoe * 365 + yoe / 4 - yoe / 100 + doy in
  era * 146097 + doe - 719468.

(* up to six fraction digits, value scaled to microseconds *)
Fixpoint frac_digits (n : nat) (s : ustring) (acc : Z) (scale : Z) (seen : bool) : option (Z * ustring) :=
  match s with
  | c :: s' =>
      match digit c with
      | Some d => match n with
                  | O => None                       (* a seventh digit: %f fails *)
                  | S n' => frac_digits n' s' (acc + d * scale) (scale / 10) true
                  end
      | None => if seen then Some (acc, s) else None
      end
  | [] => if seen then Some (acc, s) else None
  end.

Definition parse_ts (s : ustring) : option Z :=
  match digits 4 s 0 with None => None | Some (y, s) =>
  match expect 45 s with None => None | Some s =>
  match digits 2 s 0 with None => None | Some (mo, s) =>
  match expect 45 s with None => None | Some s =>
  match digits 2 s 0 with None => None | Some (d, s) =>
  match expect 84 s with None => None | Some s =>
  match digits 2 s 0 with None => None | Some (h, s) =>
  match expect 58 s with None => None | Some s =>
  match digits 2 s 0 with None => None | Some (mi, s) =>
  match expect 58 s with None => None | Some s =>
  match digits 2 s 0 with None => None | Some (se, s) =>
  let fin (us : Z) (s : ustring) :=
    match s with
    | [90%N] =>
        if (1 <=? y) && (1 <=? mo) && (mo <=? 12) && (1 <=? d) && (d <=? days_in_month y mo)
           && (h <=? 23) && (mi <=? 59) && (se <=? 59)
        then Some ((((days_from_civil y mo d * 24 + h) * 60 + mi) * 60 + se) * 1000000 + us)
        else None
    | _ => None
    end in
  match s with
  | 46%N :: s' => match frac_digits 6 s' 0 100000 false with Some (us, s'') => fin us s'' | None => None end
  | _ => fin 0 s
  end
  end end end end end end end end end end end.

(* ------------------------------------------------------------------ *)
(* Filters                                                             *)

Inductive fop := OEq | ONe | OIn | OGt | OLt | OGe | OLe | OContains.   (* FILTER_OPS *)

Definition fop_eqb (a b : fop) : bool :=
  match a, b with
  | OEq, OEq | ONe, ONe | OIn, OIn | OGt, OGt | OLt, OLt | OGe, OGe | OLe, OLe | OContains, OContains => true
  | _, _ => false
  end.

Record flt := mkf { fprop : ustring; fop_ : fop; fval : pv }.

(* Defect variant (DESIGN 2.3 / 7): on content kept as a dictionary the code
   compares timestamp text.  TextOnDicts mirrors the code; InstantOnDicts is
   the repaired reading in which a string property that is a timestamp is
   compared as an instant with a timestamp filter value.                 *)
Inductive ts_mode := TextOnDicts | InstantOnDicts.

(* Filter._check_property: the conversion of the filter value.  In the
   repaired reading the conversion of text to instants applies to the six
   comparison operators only (membership of a timestamp in a string stays
   what it is).                                                          *)
Definition is_cmp_op (o : fop) : bool :=
  match o with OIn | OContains => false | _ => true end.

Definition coerce (mode : ts_mode) (o : fop) (x fv : pv) : res (pv * pv) :=
  match x, fv with
  | VTime _, VStr s =>
      match parse_ts s with Some t => Ok (x, VTime t) | None => Raise EValueError end
  | VStr xs, VStr s =>
      match mode with
      | TextOnDicts => Ok (x, fv)
      | InstantOnDicts =>
          if is_cmp_op o then
            match parse_ts xs, parse_ts s with Some a, Some b => Ok (VTime a, VTime b) | _, _ => Ok (x, fv) end
          else Ok (x, fv)
      end
  | VStr xs, VTime _ =>
      match mode with
      | TextOnDicts => Ok (x, fv)
      | InstantOnDicts =>
          if is_cmp_op o then match parse_ts xs with Some a => Ok (VTime a, fv) | None => Ok (x, fv) end
          else Ok (x, fv)
      end
  | _, _ => Ok (x, fv)
  end.

Definition dict_values (x : pv) : res pv :=
  match x with VDict m => Ok (VList (map snd m)) | _ => Raise EAttributeError end.

(* Filter._check_property, one branch per operator *)
Definition check_property (mode : ts_mode) (f : flt) (x0 : pv) : res bool :=
  bind (coerce mode (fop_ f) x0 (fval f)) (fun '(x, fv) =>
  match fop_ f with
  | OEq => Ok (py_eq x fv)
  | ONe => Ok (negb (py_eq x fv))
  | OIn => py_in x fv
  | OContains =>
      match fv with
      | VDict _ => bind (dict_values x) (fun vals => py_in fv vals)
      | _ => py_in fv x
      end
  | OGt => py_lt fv x
  | OLt => py_lt x fv
  | OGe => py_le fv x
  | OLe => py_le x fv
  end).

(* `for elem in l: if g(elem) is True: return True` / `return False` *)
Fixpoint any_res {A} (g : A -> res bool) (l : list A) : res bool :=
  match l with
  | [] => Ok false
  | x :: l' => bind (g x) (fun b => if b then Ok true else any_res g l')
  end.

(* str.split('.') *)
Fixpoint split_dot_aux (s cur : ustring) : list ustring :=
  match s with
  | [] => [rev cur]
  | c :: s' => if N.eqb c 46 then rev cur :: split_dot_aux s' [] else split_dot_aux s' (c :: cur)
  end.
Definition split_dot (s : ustring) : list ustring := split_dot_aux s [].

(* _check_filter, by recursion on the remaining path segments *)
Fixpoint check_path (mode : ts_mode) (f : flt) (segs : list ustring) (o : pv) : res bool :=
  match segs with
  | [] => Raise EValueError                 (* split never returns [] *)
  | p :: rest =>
      match o with
      | VDict m =>
          match plookup p m with
          | None => Ok false                (* prop not in stix_obj.keys() *)
          | Some x =>
              match rest with
              | [] => match x with
                      | VList l => any_res (check_property mode f) l
                      | _ => check_property mode f x
                      end
              | _ :: _ => match x with
                          | VList l => any_res (check_path mode f rest) l
                          | _ => check_path mode f rest x
                          end
              end
          end
      | _ => Raise EAttributeError          (* .keys() on something that is not a mapping *)
      end
  end.

Definition check_filter (mode : ts_mode) (f : flt) (o : pv) : res bool :=
  check_path mode f (split_dot (fprop f)) o.

(* inner loop of apply_common_filters: all filters, stop at the first False *)
Fixpoint all_hold (mode : ts_mode) (fl : list flt) (o : pv) : res bool :=
  match fl with
  | [] => Ok true
  | f :: fl' => bind (check_filter mode f o) (fun b => if b then all_hold mode fl' o else Ok false)
  end.

(* apply_common_filters consumed by list(...): the first exception aborts *)
Fixpoint apply_filters (mode : ts_mode) (fl : list flt) (objs : list pv) : res (list pv) :=
  match objs with
  | [] => Ok []
  | o :: rest =>
      bind (all_hold mode fl o) (fun b =>
      bind (apply_filters mode fl rest) (fun r => Ok (if b then o :: r else r)))
  end.

(* namedtuple equality used by FilterSet.add (`f not in self._filters`) *)
Definition filter_eqb (f g : flt) : bool :=
  ustr_eqb (fprop f) (fprop g) && fop_eqb (fop_ f) (fop_ g) && py_eq (fval f) (fval g).

(* FilterSet.add *)
Fixpoint fset_add (cur new : list flt) : list flt :=
  match new with
  | [] => cur
  | f :: new' => fset_add (if existsb (fun g => filter_eqb f g) cur then cur else cur ++ [f]) new'
  end.

(* the "complete query" of MemorySource.query / FileSystemSource.query *)
Definition complete_query (q attached comp : list flt) : list flt :=
  fset_add (fset_add (fset_add [] q) attached) comp.

(* ------------------------------------------------------------------ *)
(* Memory store: iteration order of _data / _ObjectFamily.all_versions *)

Inductive mem_entry := Family (versions : list (pv * pv)) | Single (o : pv).

Definition obj_get (k : string) (o : pv) : option pv :=
  match o with VDict m => plookup (u k) m | _ => None end.

Fixpoint assoc_set {B} (k : pv) (v : B) (l : list (pv * B)) : list (pv * B) :=
  match l with
  | [] => [(k, v)]
  | (k', v') :: rest => if py_eq k k' then (k', v) :: rest else (k', v') :: assoc_set k v rest
  end.

Fixpoint assoc_get {B} (k : pv) (l : list (pv * B)) : option B :=
  match l with
  | [] => None
  | (k', v') :: rest => if py_eq k k' then Some v' else assoc_get k rest
  end.

(* memory._add for a single non-bundle object *)
Definition mem_add (data : list (pv * mem_entry)) (o : pv) : res (list (pv * mem_entry)) :=
  match obj_get "id" o with
  | None => Raise EKeyError
  | Some i =>
      match obj_get "modified" o with
      | Some m =>
          match assoc_get i data with
          | Some (Family vs) => Ok (assoc_set i (Family (assoc_set m o vs)) data)
          | Some (Single _) => Raise EAttributeError       (* a plain object has no .add *)
          | None => Ok (data ++ [(i, Family [(m, o)])])
          end
      | None => Ok (assoc_set i (Single o) data)
      end
  end.

Fixpoint mem_build (data : list (pv * mem_entry)) (objs : list pv) : res (list (pv * mem_entry)) :=
  match objs with
  | [] => Ok data
  | o :: rest => bind (mem_add data o) (fun d => mem_build d rest)
  end.

Definition mem_objects (data : list (pv * mem_entry)) : list pv :=
  flat_map (fun e => match snd e with Family vs => map snd vs | Single o => [o] end) data.

Definition mem_query (mode : ts_mode) (data : list (pv * mem_entry)) (q attached comp : list flt) : res (list pv) :=
  apply_filters mode (complete_query q attached comp) (mem_objects data).

(* MemorySource.all_versions: the versions stored under the id, filtered by
   list(chain(_composite_filters, self.filters)) -- a plain list, no FilterSet *)
Definition mem_versions (data : list (pv * mem_entry)) (i : pv) : list pv :=
  match assoc_get i data with
  | Some (Family vs) => map snd vs
  | Some (Single o) => [o]
  | None => []
  end.

Definition mem_all_versions (mode : ts_mode) (data : list (pv * mem_entry)) (i : pv) (attached comp : list flt) : res (list pv) :=
  apply_filters mode (comp ++ attached) (mem_versions data i).

(* ------------------------------------------------------------------ *)
(* AuthSet, _update_allow, _find_search_optimizations                  *)

Definition pset := list pv.                          (* a Python set: duplicate-free w.r.t. == *)
Definition pset_mem (x : pv) (s : pset) : bool := existsb (py_eq x) s.
Definition pset_add (x : pv) (s : pset) : pset := if pset_mem x s then s else s ++ [x].
Definition pset_union (s : pset) (l : list pv) : pset := fold_left (fun acc x => pset_add x acc) l s.
Definition pset_inter (s : pset) (l : list pv) : pset := filter (fun x => pset_mem x l) s.
Definition pset_diff (s t : pset) : pset := filter (fun x => negb (pset_mem x t)) s.

(* hasattr(value, "__iter__") and not isinstance(value, str); the elements *)
Definition adding_seq (value : pv) : option (list pv) :=
  match value with
  | VTuple l | VList l => Some l
  | VDict m => Some (map (fun kv => VStr (fst kv)) m)
  | _ => None
  end.

Fixpoint map_res {A B} (g : A -> res B) (l : list A) : res (list B) :=
  match l with
  | [] => Ok []
  | x :: l' => bind (g x) (fun y => bind (map_res g l') (fun ys => Ok (y :: ys)))
  end.

(* What _update_allow is handed: one value, or an iterable whose elements are
   produced one at a time by `g` (the identity for a tuple / list / dict, and
   get_type_from_id for the generator expressions of
   _find_search_optimizations; `g` may raise, and it raises when the element
   is reached, not before).                                               *)
Inductive upd := USingle (v : pv) | USeq (g : pv -> res pv) (l : list pv).

(* allow_set.update(iterable): every element is produced and hashed *)
Fixpoint iter_all (g : pv -> res pv) (acc : pset) (l : list pv) : res pset :=
  match l with
  | [] => Ok acc
  | x :: l' => bind (g x) (fun y => if hashable y then iter_all g (pset_add y acc) l' else Raise ETypeError)
  end.

(* allow_set.intersection_update(iterable that is not a set): CPython's
   set_intersection produces and hashes the elements one at a time and STOPS
   as soon as every member of the set has been met (the result has reached
   the size of the set), so later elements are never produced -- a later
   element that would raise does not.  Returns the elements met.          *)
Fixpoint iter_until (g : pv -> res pv) (s : pset) (seen : list pv) (l : list pv) : res (list pv) :=
  match l with
  | [] => Ok seen
  | x :: l' =>
      bind (g x) (fun y =>
      if hashable y then
        let seen' := y :: seen in
        if pset_mem y s && forallb (fun z => pset_mem z seen') s then Ok seen'
        else iter_until g s seen' l'
      else Raise ETypeError)
  end.

(* _update_allow *)
Definition update_allow (allow : option pset) (v : upd) : res pset :=
  match allow, v with
  | None, USingle x => if hashable x then Ok (pset_add x []) else Raise ETypeError          (* allow_set.add(value) *)
  | None, USeq g l => iter_all g [] l                                                        (* allow_set.update(value) *)
  | Some s, USingle x => if hashable x then Ok (pset_inter s [x]) else Raise ETypeError      (* intersection_update({value}) *)
  | Some s, USeq g l => bind (iter_until g s [] l) (fun seen => Ok (pset_inter s seen))      (* intersection_update(value) *)
  end.

Definition ok_id (x : pv) : res pv := Ok x.

(* how _update_allow sees a filter value *)
Definition upd_of_value (value : pv) : upd :=
  match adding_seq value with Some l => USeq ok_id l | None => USingle value end.

(* utils.get_type_from_id: stix_id.split('--', 1)[0] *)
Fixpoint type_of_id (s : ustring) : ustring :=
  match s with
  | 45%N :: 45%N :: _ => []
  | c :: s' => c :: type_of_id s'
  | [] => []
  end.

Definition get_type_from_id (v : pv) : res pv :=
  match v with VStr s => Ok (VStr (type_of_id s)) | _ => Raise EAttributeError end.

Inductive auth := Auth (white : bool) (values : pset).     (* AuthSet.WHITE / BLACK *)

(* AuthSet.__init__ *)
Definition mk_auth (allowed : option pset) (prohibited : pset) : auth :=
  match allowed with
  | None => Auth false prohibited
  | Some a => Auth true (pset_diff a prohibited)
  end.

Record opt_state := mkst { al_types : option pset; al_ids : option pset; pr_types : pset; pr_ids : pset }.

Definition t_type : ustring := u "type".
Definition t_id : ustring := u "id".

(* Defect variant.  OptAnyValue mirrors the code: a shortcut is derived from
   whatever value a type / id filter carries (a string given to `in` is taken
   as one name although the filter itself means "is a substring of"; a number
   reaches get_type_from_id or `value + ext` and raises).  OptStringsOnly is
   the repaired reading (proposed_fixes/C12-fs-shortcuts-only-from-strings.diff):
   a shortcut is derived only from a string (=, !=) or a list / tuple of
   strings (in); every other filter is left to the per-object check.      *)
Inductive opt_mode := OptAnyValue | OptStringsOnly.

Definition is_vstr (x : pv) : bool := match x with VStr _ => true | _ => false end.
Definition is_str_seq (x : pv) : bool :=
  match x with VTuple l | VList l => forallb is_vstr l | _ => false end.

Definition opt_guard (om : opt_mode) (f : flt) : bool :=
  match om with
  | OptAnyValue => true
  | OptStringsOnly => match fop_ f with OIn => is_str_seq (fval f) | _ => is_vstr (fval f) end
  end.

(* one iteration of the loop of _find_search_optimizations *)
Definition opt_step (om : opt_mode) (st : opt_state) (f : flt) : res opt_state :=
  if negb (opt_guard om f) then Ok st
  else if ustr_eqb (fprop f) t_type then
    match fop_ f with
    | OEq | OIn =>
        bind (update_allow (al_types st) (upd_of_value (fval f))) (fun a =>
        Ok (mkst (Some a) (al_ids st) (pr_types st) (pr_ids st)))
    | ONe =>
        if hashable (fval f) then Ok (mkst (al_types st) (al_ids st) (pset_add (fval f) (pr_types st)) (pr_ids st))
        else Raise ETypeError
    | _ => Ok st
    end
  else if ustr_eqb (fprop f) t_id then
    match fop_ f with
    | OEq =>
        bind (update_allow (al_ids st) (upd_of_value (fval f))) (fun ai =>
        bind (get_type_from_id (fval f)) (fun t =>
        bind (update_allow (al_types st) (USingle t)) (fun at_ =>
        Ok (mkst (Some at_) (Some ai) (pr_types st) (pr_ids st)))))
    | ONe =>
        if hashable (fval f) then Ok (mkst (al_types st) (al_ids st) (pr_types st) (pset_add (fval f) (pr_ids st)))
        else Raise ETypeError
    | OIn =>
        bind (update_allow (al_ids st) (upd_of_value (fval f))) (fun ai =>
        (* (get_type_from_id(id_) for id_ in filter_.value): iter(value) is taken at once *)
        match (match fval f with
               | VStr s => Some (map (fun c => VStr [c]) s)       (* iterating a str yields its characters *)
               | v => adding_seq v
               end) with
        | Some l =>
            bind (update_allow (al_types st) (USeq get_type_from_id l)) (fun at_ =>
            Ok (mkst (Some at_) (Some ai) (pr_types st) (pr_ids st)))
        | None => Raise ETypeError     (* 'int' object is not iterable *)
        end)
    | _ => Ok st
    end
  else Ok st.

Fixpoint opt_fold (om : opt_mode) (st : opt_state) (fl : list flt) : res opt_state :=
  match fl with
  | [] => Ok st
  | f :: fl' => bind (opt_step om st f) (fun st' => opt_fold om st' fl')
  end.

(* the tail of _find_search_optimizations: build the AuthSets, second pass.
   Both intersection_update calls iterate generator expressions over
   opt_ids.values; an id that is not a string raises AttributeError in one of
   them whatever the iteration order of the set is (the early exit of the
   first can only skip it for the second to meet it).                    *)
Definition opt_finish (st : opt_state) : res (auth * auth) :=
  let at_ := mk_auth (al_types st) (pr_types st) in
  let ai := mk_auth (al_ids st) (pr_ids st) in
  match at_, ai with
  | Auth true tv, Auth true iv =>
      bind (map_res get_type_from_id iv) (fun its =>
      let tv' := pset_inter tv its in
      Ok (Auth true tv',
          Auth true (map fst (filter (fun it => pset_mem (snd it) tv') (combine iv its)))))
  | _, _ => Ok (at_, ai)
  end.

Definition find_opts (om : opt_mode) (fl : list flt) : res (auth * auth) :=
  bind (opt_fold om (mkst None None [] []) fl) opt_finish.

(* ------------------------------------------------------------------ *)
(* The directory tree.  Level 1: type directories; level 2: id
   directories (versioned layout) and plain files; level 3: version files.
   Non-directories at level 1 and non-files at level 3 never pass the
   st_mode tests and are left out.  A file is represented by the value
   `parse` returns for its content.                                    *)

Inductive tentry :=
| TDir (name : ustring) (files : list (ustring * pv))
| TFile (name : ustring) (o : pv).

Definition tname (e : tentry) : ustring := match e with TDir n _ => n | TFile n _ => n end.

Definition fs := list (ustring * list tentry).

(* os.path.splitext on a bare name *)
Fixpoint split_last_dot (s : ustring) : option (ustring * ustring) :=
  match s with
  | [] => None
  | c :: t =>
      match split_last_dot t with
      | Some (stem, ext) => Some (c :: stem, ext)
      | None => if N.eqb c 46 then Some ([], c :: t) else None
      end
  end.

Definition has_nondot (s : ustring) : bool := existsb (fun c => negb (N.eqb c 46)) s.

Definition splitext (s : ustring) : ustring * ustring :=
  match split_last_dot s with
  | Some (stem, ext) => if has_nondot stem then (stem, ext) else (s, [])
  | None => (s, [])
  end.

Definition dot_json : ustring := u ".json".

(* value + ext *)
Definition str_plus (v : pv) (ext : ustring) : res ustring :=
  match v with VStr s => Ok (s ++ ext)%list | _ => Raise ETypeError end.

(* _get_matching_dir_entries, whitelist branch: for each value, the entry
   named value+ext if it exists and passes the st_mode test.  (os.path.join +
   os.stat on a directory = lookup by name in its listing.)              *)
Definition white_lookup {E} (key : E -> ustring) (pass : E -> bool) (ext : ustring) (es : list E) (vals : pset)
  : res (list E) :=
  bind (map_res (fun v => bind (str_plus v ext) (fun n =>
          Ok (match find (fun e => ustr_eqb (key e) n) es with
              | Some e => if pass e then [e] else []
              | None => []
              end))) vals)
       (fun ls => Ok (List.concat ls)).

(* _get_matching_dir_entries(stix_dir, auth, S_ISDIR) on the root *)
Definition matching_type_dirs (t : fs) (a : auth) : res (list (ustring * list tentry)) :=
  match a with
  | Auth true vals => white_lookup fst (fun _ => true) [] t vals
  | Auth false vals => Ok (filter (fun d => negb (pset_mem (VStr (fst d)) vals)) t)
  end.

(* _get_matching_dir_entries(type_path, auth_ids, S_ISDIR) *)
Definition is_tdir (e : tentry) : bool := match e with TDir _ _ => true | TFile _ _ => false end.

Definition matching_id_dirs (es : list tentry) (a : auth) : res (list tentry) :=
  match a with
  | Auth true vals => white_lookup tname is_tdir [] es vals
  | Auth false vals => Ok (filter (fun e => is_tdir e && negb (pset_mem (VStr (tname e)) vals)) es)
  end.

(* _get_matching_dir_entries(type_path, auth_ids, S_ISREG, ".json") *)
Definition matching_id_files (es : list tentry) (a : auth) : res (list tentry) :=
  match a with
  | Auth true vals => white_lookup tname (fun e => negb (is_tdir e)) dot_json es vals
  | Auth false vals =>
      Ok (filter (fun e => negb (is_tdir e) &&
                           (let '(stem, ext) := splitext (tname e) in
                            ustr_eqb ext dot_json && negb (pset_mem (VStr stem) vals))) es)
  end.

(* _get_matching_dir_entries(id_path, _AUTHSET_ANY, S_ISREG, ".json") *)
Definition version_files (files : list (ustring * pv)) : list (ustring * pv) :=
  filter (fun nf => ustr_eqb (snd (splitext (fst nf))) dot_json) files.

(* _check_object_from_file for each file, results appended; first exception aborts *)
Definition check_files (mode : ts_mode) (fl : list flt) (objs : list pv) : res (list pv) :=
  apply_filters mode fl objs.

(* _search_unversioned *)
Definition search_unversioned (mode : ts_mode) (fl : list flt) (es : list tentry) (ai : auth) : res (list pv) :=
  bind (matching_id_files es ai) (fun files =>
  check_files mode fl (flat_map (fun e => match e with TFile _ o => [o] | TDir _ _ => [] end) files)).

(* _search_versioned *)
Definition search_versioned (mode : ts_mode) (fl : list flt) (es : list tentry) (ai : auth) : res (list pv) :=
  bind (matching_id_dirs es ai) (fun dirs =>
  bind (check_files mode fl
          (flat_map (fun e => match e with TDir _ files => map snd (version_files files) | TFile _ _ => [] end) dirs))
       (fun r1 =>
  bind (search_unversioned mode fl es ai) (fun r2 => Ok (r1 ++ r2)%list))).

(* _is_versioned_type_dir: a directory entry matching
   ^<type_name>--[0-9a-f]{8}-[0-9a-f]{4}-[0-9a-f]{4}-[0-9a-f]{4}-[0-9a-f]{12}$  (re.I) *)
Definition lower (c : N) : N := if (N.leb 65 c && N.leb c 90)%bool then (c + 32)%N else c.
Definition is_hex (c : N) : bool :=
  let c := lower c in ((N.leb 48 c && N.leb c 57) || (N.leb 97 c && N.leb c 102))%bool.

Fixpoint ci_prefix (p s : ustring) : option ustring :=
  match p, s with
  | [], _ => Some s
  | x :: p', y :: s' => if N.eqb (lower x) (lower y) then ci_prefix p' s' else None
  | _ :: _, [] => None
  end.

Fixpoint hexes (n : nat) (s : ustring) : option ustring :=
  match n with
  | O => Some s
  | S n' => match s with c :: s' => if is_hex c then hexes n' s' else None | [] => None end
  end.

Definition uuid_tail (s : ustring) : bool :=
  match expect 45 s with None => false | Some s =>
  match expect 45 s with None => false | Some s =>
  match hexes 8 s with None => false | Some s =>
  match expect 45 s with None => false | Some s =>
  match hexes 4 s with None => false | Some s =>
  match expect 45 s with None => false | Some s =>
  match hexes 4 s with None => false | Some s =>
  match expect 45 s with None => false | Some s =>
  match hexes 4 s with None => false | Some s =>
  match expect 45 s with None => false | Some s =>
  match hexes 12 s with Some [] => true | _ => false end
  end end end end end end end end end end.

Definition is_id_dirname (type_name n : ustring) : bool :=
  match ci_prefix type_name n with Some rest => uuid_tail rest | None => false end.

Definition is_versioned_type_dir (type_name : ustring) (es : list tentry) : bool :=
  existsb (fun e => is_tdir e && is_id_dirname type_name (tname e)) es.

Fixpoint concat_res {A} (l : list (res (list A))) : res (list A) :=
  match l with
  | [] => Ok []
  | r :: l' => bind r (fun a => bind (concat_res l') (fun b => Ok (a ++ b)%list))
  end.

(* the loop over type directories in FileSystemSource.query *)
Fixpoint search_dirs (mode : ts_mode) (fl : list flt) (dirs : list (ustring * list tentry)) (ai : auth) : res (list pv) :=
  match dirs with
  | [] => Ok []
  | (d, es) :: rest =>
      bind (if is_versioned_type_dir d es then search_versioned mode fl es ai
            else search_unversioned mode fl es ai) (fun r =>
      bind (search_dirs mode fl rest ai) (fun r' => Ok (r ++ r')%list))
  end.

(* FileSystemSource.query on the already combined filter list *)
Definition fs_search (mode : ts_mode) (om : opt_mode) (t : fs) (fl : list flt) : res (list pv) :=
  bind (find_opts om fl) (fun '(at_, ai) =>
  bind (matching_type_dirs t at_) (fun dirs =>
  search_dirs mode fl dirs ai)).

Definition fs_query (mode : ts_mode) (om : opt_mode) (t : fs) (q attached comp : list flt) : res (list pv) :=
  fs_search mode om t (complete_query q attached comp).

(* FileSystemSource.all_versions: self.query([Filter("id", "=", stix_id)], _composite_filters=...) *)
Definition fs_all_versions (mode : ts_mode) (om : opt_mode) (t : fs) (i : pv) (attached comp : list flt) : res (list pv) :=
  fs_query mode om t [mkf t_id OEq i] attached comp.

(* every file content in the tree (what has been stored) *)
Definition entry_objects (e : tentry) : list pv :=
  match e with TDir _ files => map snd files | TFile _ o => [o] end.
Definition all_contents (t : fs) : list pv :=
  flat_map (fun d => flat_map entry_objects (snd d)) t.

(* ------------------------------------------------------------------ *)
(* FileSystemSink._check_path_and_write: where an object goes.  The name
   of a version file is _timestamp2filename(modified) in the code; only
   its ".json" extension and its being a function of the instant matter
   to a query, so the model writes "v<microseconds>.json".              *)

Definition version_filename (m : pv) : res ustring :=
  match m with
  | VTime t => Ok (u "v" ++ u (show_Z t) ++ dot_json)%list
  | VStr s => match parse_ts s with Some t => Ok (u "v" ++ u (show_Z t) ++ dot_json)%list | None => Raise EValueError end
  | _ => Raise ETypeError
  end.

Fixpoint add_version_file (fname : ustring) (o : pv) (files : list (ustring * pv)) : res (list (ustring * pv)) :=
  match files with
  | [] => Ok [(fname, o)]
  | (n, o') :: rest =>
      if ustr_eqb n fname then Raise EDataSourceError          (* "Attempted to overwrite file" *)
      else bind (add_version_file fname o rest) (fun r => Ok ((n, o') :: r))
  end.

(* insert into a type directory's listing *)
Fixpoint add_entry (idn : ustring) (m : option pv) (o : pv) (es : list tentry) : res (list tentry) :=
  match es with
  | [] =>
      match m with
      | Some mv => bind (version_filename mv) (fun fname => Ok [TDir idn [(fname, o)]])
      | None => Ok [TFile (idn ++ dot_json)%list o]
      end
  | e :: rest =>
      match m with
      | Some mv =>
          if ustr_eqb (tname e) idn then
            match e with
            | TDir _ files => bind (version_filename mv) (fun fname =>
                              bind (add_version_file fname o files) (fun files' => Ok (TDir idn files' :: rest)))
            | TFile _ _ => Raise EDataSourceError      (* makedirs over an existing file: out of the modelled histories *)
            end
          else bind (add_entry idn m o rest) (fun r => Ok (e :: r))
      | None =>
          if ustr_eqb (tname e) (idn ++ dot_json)%list then Raise EDataSourceError
          else bind (add_entry idn m o rest) (fun r => Ok (e :: r))
      end
  end.

Fixpoint add_in_type_dir (ty idn : ustring) (m : option pv) (o : pv) (t : fs) : res fs :=
  match t with
  | [] => bind (add_entry idn m o []) (fun es => Ok [(ty, es)])
  | (d, es) :: rest =>
      if ustr_eqb d ty then bind (add_entry idn m o es) (fun es' => Ok ((d, es') :: rest))
      else bind (add_in_type_dir ty idn m o rest) (fun r => Ok ((d, es) :: r))
  end.

Definition fs_add (t : fs) (o : pv) : res fs :=
  match obj_get "type" o, obj_get "id" o with
  | Some (VStr ty), Some (VStr idn) => add_in_type_dir ty idn (obj_get "modified" o) o t
  | None, _ | _, None => Raise EKeyError
  | _, _ => Raise ETypeError
  end.

(* a refused add (overwrite) leaves the tree as it was; the harness does the same *)
Fixpoint fs_build (t : fs) (objs : list pv) : fs :=
  match objs with
  | [] => t
  | o :: rest => fs_build (match fs_add t o with Ok t' => t' | Raise _ => t end) rest
  end.

(* ------------------------------------------------------------------ *)
(* CompositeDataSource.query over memory / filesystem members           *)

Inductive source :=
| SMem (data : list (pv * mem_entry)) (attached : list flt)
| SFs (t : fs) (attached : list flt).

Definition source_query (mode : ts_mode) (om : opt_mode) (s : source) (q comp : list flt) : res (list pv) :=
  match s with
  | SMem data att => mem_query mode data q att comp
  | SFs t att => fs_query mode om t q att comp
  end.

(* utils.deduplicate: key (id, modified or created) / id; the last object with a key wins, first position kept *)
Definition truthy (x : pv) : bool :=
  match x with
  | VNone => false | VBool b => b | VInt z => negb (z =? 0) | VFloat m => negb (m =? 0)
  | VStr s => match s with [] => false | _ => true end
  | VTime _ => true
  | VList l | VTuple l => match l with [] => false | _ => true end
  | VDict m => match m with [] => false | _ => true end
  end.

Definition dedup_key (o : pv) : res pv :=
  let ver := match obj_get "modified" o with
             | Some m => if truthy m then Some m else obj_get "created" o
             | None => obj_get "created" o
             end in
  match obj_get "id" o with
  | None => Raise EKeyError
  | Some i => Ok (match ver with Some v => VTuple [i; v] | None => i end)
  end.

Fixpoint deduplicate (acc : list (pv * pv)) (l : list pv) : res (list pv) :=
  match l with
  | [] => Ok (map snd acc)
  | o :: rest => bind (dedup_key o) (fun k => deduplicate (assoc_set k o acc) rest)
  end.

Definition comp_query (mode : ts_mode) (om : opt_mode) (members : list source) (cattached q outer : list flt) : res (list pv) :=
  let allf := fset_add (fset_add [] cattached) outer in
  bind (concat_res (map (fun s => source_query mode om s q allf) members)) (fun all_data =>
  match all_data with [] => Ok [] | _ => deduplicate [] all_data end).

(* CompositeDataSource.all_versions: the composite's own filters (and those
   handed down to it) go to every member as _composite_filters; the answers
   are concatenated and deduplicated *)
Definition source_all_versions (mode : ts_mode) (om : opt_mode) (s : source) (i : pv) (comp : list flt) : res (list pv) :=
  match s with
  | SMem data att => mem_all_versions mode data i att comp
  | SFs t att => fs_all_versions mode om t i att comp
  end.

Definition comp_all_versions (mode : ts_mode) (om : opt_mode) (members : list source) (cattached : list flt) (i : pv)
           (outer : list flt) : res (list pv) :=
  let allf := fset_add (fset_add [] cattached) outer in
  bind (concat_res (map (fun s => source_all_versions mode om s i allf) members)) (fun all_data =>
  match all_data with [] => Ok [] | _ => deduplicate [] all_data end).

(* ------------------------------------------------------------------ *)
(* Short constructors and renderers for the case files                 *)

Definition vs (s : string) : pv := VStr (u s).
Definition vd (l : list (string * pv)) : pv := VDict (map (fun kv => (u (fst kv), snd kv)) l).
Definition F (p : string) (o : fop) (v : pv) : flt := mkf (u p) o v.

Definition show_err (e : err) : string :=
  match e with
  | ETypeError => "TypeError" | EAttributeError => "AttributeError" | EValueError => "ValueError"
  | EKeyError => "KeyError" | EDataSourceError => "DataSourceError"
  end%string.

Definition show_key (o : pv) : string :=
  let sh (x : option pv) : string :=
    match x with
    | Some (VStr s) => append "s" (show_ustr s)
    | Some (VTime t) => append "t" (show_Z t)
    | Some _ => "?"%string
    | None => "-"%string
    end in
  append (sh (obj_get "id" o)) (append "|" (sh (obj_get "modified" o))).

Definition show_result (r : res (list pv)) : string :=
  match r with
  | Ok l => append "OK " (fold_right (fun o acc => append (show_key o) (append ";" acc)) EmptyString l)
  | Raise e => append "EXC " (show_err e)
  end.

Definition show_resb (r : res bool) : string :=
  match r with Ok b => show_bool b | Raise e => append "EXC " (show_err e) end.

Definition mem_of (objs : list pv) : list (pv * mem_entry) :=
  match mem_build [] objs with Ok d => d | Raise _ => [] end.

(* Result lines name objects by their index in the generated population
   (coqc cannot print a string of more than ~20 000 characters), matching on
   (id, modified) as the harness does.                                   *)
Definition opt_pv_eq (a b : option pv) : bool :=
  match a, b with Some x, Some y => py_eq x y | None, None => true | _, _ => false end.
Definition same_key (a b : pv) : bool :=
  opt_pv_eq (obj_get "id" a) (obj_get "id" b) && opt_pv_eq (obj_get "modified" a) (obj_get "modified" b).
Fixpoint index_of (o : pv) (pop : list pv) (i : Z) : string :=
  match pop with
  | [] => "?"%string
  | x :: r => if same_key o x then show_Z i else index_of o r (i + 1)
  end.
Definition show_result_ix (pop : list pv) (r : res (list pv)) : string :=
  match r with
  | Ok l => append "OK " (fold_right (fun o acc => append (index_of o pop 0) (append "," acc)) EmptyString l)
  | Raise e => append "EXC " (show_err e)
  end.

(* The order in which os.listdir hands out directory entries is not specified; the harness observes it on
   the directory it built and passes it in: type directories, their entries, the version files of each id
   directory, by name.  `reorder_fs` arranges the tree the sink model built in that order (a name that is
   not there is dropped, and so is an entry that is not named: either shows up as a disagreement).         *)
Fixpoint pick_named {E} (key : E -> ustring) (es : list E) (names : list ustring) : list E :=
  match names with
  | [] => []
  | n :: r => match find (fun e => ustr_eqb (key e) n) es with
              | Some e => e :: pick_named key es r
              | None => pick_named key es r
              end
  end.

Definition reorder_entries (es : list tentry) (spec : list (ustring * list ustring)) : list tentry :=
  flat_map (fun nf => match find (fun e => ustr_eqb (tname e) (fst nf)) es with
                      | Some (TDir n files) => [TDir n (pick_named fst files (snd nf))]
                      | Some e => [e]
                      | None => []
                      end) spec.

Definition reorder_fs (t : fs) (spec : list (ustring * list (ustring * list ustring))) : fs :=
  flat_map (fun ds => match find (fun d => ustr_eqb (fst d) (fst ds)) t with
                      | Some (d, es) => [(d, reorder_entries es (snd ds))]
                      | None => []
                      end) spec.

(* short form of a listing in the case files *)
Definition lspec (l : list (string * list (string * list string))) : list (ustring * list (ustring * list ustring)) :=
  map (fun d => (u (fst d), map (fun e => (u (fst e), map u (snd e))) (snd d))) l.

(* Does the order of the answers (and which object raises first) depend only on the listing order?
   A white list with two or more values is walked in the iteration order of a Python set of strings,
   which the model does not know.                                                                     *)
Definition order_known (om : opt_mode) (fl : list flt) : bool :=
  match find_opts om fl with
  | Ok (Auth w1 v1, Auth w2 v2) =>
      (negb w1 || Nat.leb (List.length v1) 1) && (negb w2 || Nat.leb (List.length v2) 1)
  | Raise _ => true
  end.

(* one query on the routes the harness runs: memory source, filesystem source
   (each optionally wrapped in a CompositeDataSource that carries `comp`), and
   a two-member composite [memory ma; filesystem tb] whose members both carry
   `att`.  One result line.                                              *)
Definition q_mem (mode : ts_mode) (om : opt_mode) (m : list (pv * mem_entry)) (wrap : bool) (q att comp : list flt) : res (list pv) :=
  if wrap then comp_query mode om [SMem m att] comp q [] else mem_query mode m q att [].
Definition q_fs (mode : ts_mode) (om : opt_mode) (t : fs) (wrap : bool) (q att comp : list flt) : res (list pv) :=
  if wrap then comp_query mode om [SFs t att] comp q [] else fs_query mode om t q att [].
Definition show3 (mode : ts_mode) (om : opt_mode) (pop : list pv) (m : list (pv * mem_entry)) (t : fs) (ma : list (pv * mem_entry)) (tb : fs)
           (wrap : bool) (q att att2 comp : list flt) : string :=
  String.concat " ## "
    [show_result_ix pop (q_mem mode om m wrap q att comp);
     show_result_ix pop (q_fs mode om t wrap q att comp);
     show_result_ix pop (comp_query mode om [SMem ma att; SFs tb att2] comp q []);
     show_bool (order_known om (complete_query q att (if wrap then fset_add (fset_add [] comp) [] else [])) &&
                order_known om (complete_query q att2 (fset_add (fset_add [] comp) [])))].

(* a store that lives through a history: the memory store and the filesystem store after the adds so far *)
Definition show_grow (mode : ts_mode) (om : opt_mode) (pop : list pv) (m : list (pv * mem_entry)) (t : fs) (q : list flt) : string :=
  String.concat " ## "
    [show_result_ix pop (mem_query mode m q [] []);
     show_result_ix pop (fs_query mode om t q [] []);
     show_bool (order_known om (complete_query q [] []))].

(* all_versions(id): memory source and filesystem source with `att` attached; the same two wrapped in a
   CompositeDataSource that carries `comp`; the two-member composite.  One result line. *)
Definition show_av (mode : ts_mode) (om : opt_mode) (pop : list pv) (m : list (pv * mem_entry)) (t : fs)
           (ma : list (pv * mem_entry)) (tb : fs) (i : pv) (att comp : list flt) : string :=
  append (show_result_ix pop (mem_all_versions mode m i att [])) (append " ## "
  (append (show_result_ix pop (fs_all_versions mode om t i att [])) (append " ## "
  (append (show_result_ix pop (comp_all_versions mode om [SMem m att] comp i [])) (append " ## "
  (append (show_result_ix pop (comp_all_versions mode om [SFs t att] comp i [])) (append " ## "
  (show_result_ix pop (comp_all_versions mode om [SMem ma att; SFs tb att] comp i []))))))))).

(* Model/HeapApi.v -- the public operations of C13 over the heap: versioning,
   markings, factory, memory store, attribute guards, and the operation
   language the correspondence cases are written in.  No proofs here.       *)
From Coq Require Import NArith ZArith String Bool Arith List.
From V Require Export Model.HeapOps.
Import ListNotations.
Open Scope nat_scope.

Definition FUEL : nat := 40.

Section Api.
  Variable vt : variant.
  Variable W : world.

  Definition run (q : req) (h : heap) : heap * res := interp vt W FUEL FUEL q h.

  Definition vstr (s : string) : val := VA (AStr (u s)).

  (* ---------------- stix2/versioning.py: new_version ---------------- *)
  Definition unmodifiable : list ustring := [u "created"; u "created_by_ref"; u "id"; u "type"].

  (* `cls( **{k: v for k, v in new_obj_inner.items() if v is not None})` *)
  Definition not_none (kv : ustring * val) : bool := match snd kv with VA ANone => false | _ => true end.

  Definition new_version (data : val) (kwargs : list (ustring * val)) (h : heap) : heap * res :=
    match mapping_entries h data with
    | None => (h, RExc "TypeNotVersionableError")
    | Some m =>
      if match assoc (u "revoked") m with Some r => truthy h r | None => false end then (h, RExc "RevokeError")
      else if existsb (fun kv => mem_ustr (fst kv) unmodifiable) kwargs then (h, RExc "UnmodifiablePropertyError")
      else
        (* `new_obj_inner = copy.deepcopy(data._inner)` / `copy.deepcopy(data)` *)
        let src := match data with
                   | VR l => match get h l with
                             | Some (NObj _ fs) => match assoc (u "_inner") fs with Some i => i | None => data end
                             | _ => data
                             end
                   | _ => data
                   end in
        bindv (copy_at (cm_nv vt) FUEL src h) (fun cv h1 =>
          match cv with
          | VA _ => (h1, RExc "TypeError")
          | VR c =>
            (* the keyword dict of the call is a new dict; `kwargs['modified'] = new_modified` *)
            let (h2, kw) := alloc h1 (NDict kwargs) in
            let h3 := match assoc (u "modified") kwargs with
                      | Some _ => Some h2
                      | None => set_item h2 kw (u "modified") (vstr "<new-modified>")
                      end in
            match h3 with
            | None => (h2, RExc "TypeError")
            | Some h3 =>
              match get h3 kw with
              | Some (NDict kwm) =>
                (* `new_obj_inner.update(kwargs)` *)
                match update_items h3 c kwm with
                | None => (h3, RExc "TypeError")
                | Some h4 =>
                  let h5 := if is_obj h data then set_item h4 c (u "allow_custom") (VA (ABool true)) else Some h4 in
                  match h5 with
                  | None => (h4, RExc "TypeError")
                  | Some h5 =>
                    match get h5 c with
                    | Some (NDict inner) =>
                      let (h6, f) := alloc h5 (NDict (filter not_none inner)) in
                      match class_of h data with
                      | Some cls => run (QConstruct cls (VR f)) h6        (* cls( **filtered ) *)
                      | None => (h6, RVal (VR f))                          (* dict( **filtered ) *)
                      end
                    | _ => (h5, RExc "TypeError")
                    end
                  end
                end
              | _ => (h3, RExc "TypeError")
              end
            end
          end)
    end.

  Definition revoke (data : val) (h : heap) : heap * res :=
    match mapping_entries h data with
    | None => (h, RExc "ValueError")
    | Some m =>
      if match assoc (u "revoked") m with Some r => truthy h r | None => false end then (h, RExc "RevokeError")
      else new_version data [(u "revoked", VA (ABool true))] h
    end.

  (* ---------------- stix2/markings/utils.py ---------------- *)
  Definition get_or_none (h : heap) (v : val) (k : ustring) : val :=
    match mapping_get h v k with Some x => x | None => VA ANone end.

  Definition selectors_of (h : heap) (m : val) : list val :=
    match list_items h (get_or_none h m (u "selectors")) with Some xs => xs | None => [] end.

  (* expand_markings: `expanded = []`, then per marking and selector
     `expanded.extend([{'marking_ref': ref, 'selectors': [selector]}])` *)
  Fixpoint expand_one (key : ustring) (ref : val) (e : nat) (sels : list val) (h : heap) : option heap :=
    match sels with
    | [] => Some h
    | s :: rest =>
      let (h1, sl) := alloc h (NList [s]) in
      let (h2, d) := alloc h1 (NDict [(key, ref); (u "selectors", VR sl)]) in
      match append_item h2 e (VR d) with
      | Some h3 => expand_one key ref e rest h3
      | None => None
      end
    end.

  Fixpoint expand_loop (e : nat) (ms : list val) (h : heap) : option heap :=
    match ms with
    | [] => Some h
    | m :: rest =>
      let sels := selectors_of h m in
      let ref := get_or_none h m (u "marking_ref") in
      let lang := get_or_none h m (u "lang") in
      let h1 := if truthy h ref then expand_one (u "marking_ref") ref e sels h else Some h in
      match h1 with
      | None => None
      | Some h1 =>
        let h2 := if truthy h1 lang then expand_one (u "lang") lang e sels h1 else Some h1 in
        match h2 with
        | None => None
        | Some h2 => expand_loop e rest h2
        end
      end
    end.

  Definition expand_markings (gm : val) (h : heap) : heap * res :=
    match list_items h gm with
    | None => (h, RExc "TypeError")
    | Some ms =>
      let (h1, e) := alloc h (NList []) in
      lift (expand_loop e ms h1) h1 (VR e)
    end.

  (* compress_markings: a defaultdict(set) keyed by marking id in order of
     first occurrence; the result is built from new lists and dicts *)
  Fixpoint insert_sorted (s : ustring) (xs : list ustring) : list ustring :=
    match xs with
    | [] => [s]
    | x :: r => match ustr_compare s x with
                | Lt => s :: x :: r
                | Eq => x :: r
                | Gt => x :: insert_sorted s r
                end
    end.

  Definition group := list (ustring * list ustring).

  Fixpoint group_add (k : ustring) (sels : list ustring) (g : group) : group :=
    match g with
    | [] => [(k, fold_right insert_sorted [] sels)]
    | (k', ss) :: r => if ustr_eqb k k' then (k', fold_right insert_sorted ss sels) :: r else (k', ss) :: group_add k sels r
    end.

  Definition atoms_str (vs : list val) : list ustring :=
    flat_map (fun v => match v with VA (AStr s) => [s] | _ => [] end) vs.

  Definition compress_groups (h : heap) (ms : list val) : group :=
    fold_left (fun g m =>
      let sels := atoms_str (selectors_of h m) in
      let g1 := match get_or_none h m (u "marking_ref") with
                | VA (AStr r) => if is_nil r then g else group_add r sels g
                | _ => g
                end in
      match get_or_none h m (u "lang") with
      | VA (AStr r) => if is_nil r then g1 else group_add r sels g1
      | _ => g1
      end) ms [].

  Definition is_marking_id (s : ustring) : bool := ustr_prefix (u "marking-definition--") s.

  Fixpoint compress_build (g : group) (h : heap) : heap * list val :=
    match g with
    | [] => (h, [])
    | (k, ss) :: r =>
      let (h1, sl) := alloc h (NList (map (fun s => VA (AStr s)) ss)) in
      let key := if is_marking_id k then u "marking_ref" else u "lang" in
      let (h2, d) := alloc h1 (NDict [(key, VA (AStr k)); (u "selectors", VR sl)]) in
      let (h3, ds) := compress_build r h2 in
      (h3, VR d :: ds)
    end.

  Definition compress_markings (gm : val) (h : heap) : heap * res :=
    if negb (truthy h gm) then (h, RVal (VA ANone))
    else match list_items h gm with
         | None => (h, RExc "TypeError")
         | Some ms =>
           let (h1, ds) := compress_build (compress_groups h ms) h in
           let (h2, l) := alloc h1 (NList ds) in
           (h2, RVal (VR l))
         end.

  (* convert_to_list: a list is returned as it is, anything else is wrapped *)
  Definition convert_to_list (v : val) (h : heap) : list val :=
    match list_items h v with Some xs => xs | None => [v] end.

  (* convert_to_marking_list: ids of MarkingDefinition objects, else as given *)
  Definition marking_id (h : heap) (v : val) : val :=
    if is_obj h v then get_or_none h v (u "id") else v.

  (* ---------------- stix2/markings/granular_markings.py ---------------- *)
  Fixpoint add_loop (g : nat) (sorted_sels : list val) (ms : list val) (h : heap) : option heap :=
    match ms with
    | [] => Some h
    | m :: rest =>
      let (h1, sl) := alloc h (NList sorted_sels) in
      let key := match m with VA (AStr s) => if is_marking_id s then u "marking_ref" else u "lang" | _ => u "lang" end in
      let (h2, d) := alloc h1 (NDict [(key, m); (u "selectors", VR sl)]) in
      match append_item h2 g (VR d) with
      | Some h3 => add_loop g sorted_sels rest h3
      | None => None
      end
    end.

  Definition new_version_gm (obj : val) (c : val) (h : heap) : heap * res :=
    if truthy h c then new_version obj [(u "granular_markings", c)] h
    else new_version obj [(u "granular_markings", VA ANone)] h.

  Definition granular_add (obj marking selectors : val) (h : heap) : heap * res :=
    let sels := convert_to_list selectors h in
    let ms := map (marking_id h) (convert_to_list marking h) in
    let sorted_sels := map (fun s => VA (AStr s)) (fold_right insert_sorted [] (atoms_str sels)) in
    let (h1, g) := alloc h (NList []) in
    match add_loop g sorted_sels ms h1 with
    | None => (h1, RExc "TypeError")
    | Some h2 =>
      let old := get_or_none h2 obj (u "granular_markings") in
      let h3 := if truthy h2 old
                then match list_items h2 old with Some xs => extend_items h2 g xs | None => None end
                else Some h2 in
      match h3 with
      | None => (h2, RExc "TypeError")
      | Some h3 =>
        bindv (expand_markings (VR g) h3) (fun e h4 =>
        bindv (compress_markings e h4) (fun c h5 =>
          new_version obj [(u "granular_markings", c)] h5))
      end
    end.

  Definition val_is_str (s : ustring) (v : val) : bool :=
    match v with VA (AStr x) => ustr_eqb x s | _ => false end.

  (* clear_markings: the EXPANDED markings are edited in place:
     `granular_marking['marking_ref'] = ''` *)
  Fixpoint clear_loop (mr lg : bool) (sels : list ustring) (ems : list val) (h : heap) : option heap :=
    match ems with
    | [] => Some h
    | VR d :: rest =>
      let mine := atoms_str (selectors_of h (VR d)) in
      if existsb (fun s => mem_ustr s mine) sels then
        let h1 := if truthy h (get_or_none h (VR d) (u "marking_ref")) && mr
                  then set_item h d (u "marking_ref") (VA (AStr [])) else Some h in
        match h1 with
        | None => None
        | Some h1 =>
          let h2 := if truthy h1 (get_or_none h1 (VR d) (u "lang")) && lg
                    then set_item h1 d (u "lang") (VA (AStr [])) else Some h1 in
          match h2 with
          | None => None
          | Some h2 => clear_loop mr lg sels rest h2
          end
        end
      else clear_loop mr lg sels rest h
    | VA _ :: rest => clear_loop mr lg sels rest h
    end.

  (* clear_markings(obj, selectors, marking_ref=True, lang=True): the two flags say which of the
     two keys of a matching expanded marking is blanked *)
  Definition granular_clear_f (mr lg : bool) (obj selectors : val) (h : heap) : heap * res :=
    let sels := atoms_str (convert_to_list selectors h) in
    let old := get_or_none h obj (u "granular_markings") in
    if negb (truthy h old) then (h, RVal obj)
    else
      bindv (expand_markings old h) (fun e h1 =>
        let ems := match list_items h1 e with Some xs => xs | None => [] end in
        if negb (existsb (fun m => existsb (fun s => mem_ustr s (atoms_str (selectors_of h1 m))) sels) ems)
        then (h1, RExc "MarkingNotFoundError")
        else match clear_loop mr lg sels ems h1 with
             | None => (h1, RExc "TypeError")
             | Some h2 => bindv (compress_markings e h2) (fun c h3 => new_version_gm obj c h3)
             end).

  Definition granular_clear : val -> val -> heap -> heap * res := granular_clear_f true true.

  (* Python == on two values, by deep value *)
  Definition val_eqb (h : heap) (a b : val) : bool :=
    match value FUEL h a, value FUEL h b with
    | Some x, Some y => tree_eqb x y
    | _, _ => false
    end.

  (* remove_markings: `to_remove.append({'marking_ref': m, 'selectors': selectors})` *)
  Fixpoint remove_loop (t : nat) (sel : val) (ms : list val) (h : heap) : option heap :=
    match ms with
    | [] => Some h
    | m :: rest =>
      let key := match m with VA (AStr s) => if is_marking_id s then u "marking_ref" else u "lang" | _ => u "lang" end in
      let (h1, d) := alloc h (NDict [(key, m); (u "selectors", sel)]) in
      match append_item h1 t (VR d) with
      | Some h2 => remove_loop t sel rest h2
      | None => None
      end
    end.

  Definition granular_remove (obj marking selectors : val) (h : heap) : heap * res :=
    let ms := map (marking_id h) (convert_to_list marking h) in
    let old := get_or_none h obj (u "granular_markings") in
    if negb (truthy h old) then (h, RVal obj)
    else
      bindv (expand_markings old h) (fun e h1 =>
        (* convert_to_list(selectors): the caller's list itself, or a new one-element list *)
        let (h2, sel) := match list_items h1 selectors with
                         | Some _ => (h1, selectors)
                         | None => let (hh, l) := alloc h1 (NList [selectors]) in (hh, VR l)
                         end in
        let (h3, t) := alloc h2 (NList []) in
        match remove_loop t sel ms h3 with
        | None => (h3, RExc "TypeError")
        | Some h4 =>
          (* build_granular_marking(to_remove)['granular_markings'] = expand_markings(to_remove) *)
          bindv (expand_markings (VR t) h4) (fun r h5 =>
            let ems := match list_items h5 e with Some xs => xs | None => [] end in
            let rms := match list_items h5 r with Some xs => xs | None => [] end in
            if negb (existsb (fun x => existsb (val_eqb h5 x) ems) rms) then (h5, RExc "MarkingNotFoundError")
            else
              (* `[m for m in granular_markings if m not in remove]` *)
              let (h6, k) := alloc h5 (NList (filter (fun m => negb (existsb (val_eqb h5 m) rms)) ems)) in
              bindv (compress_markings (VR k) h6) (fun c h7 => new_version_gm obj c h7))
        end).

  (* set_markings = add_markings(clear_markings(obj, selectors), marking, selectors) *)
  Definition granular_set_f (mr lg : bool) (obj marking selectors : val) (h : heap) : heap * res :=
    bindv (granular_clear_f mr lg obj selectors h) (fun o h1 => granular_add o marking selectors h1).

  Definition granular_set : val -> val -> val -> heap -> heap * res := granular_set_f true true.

  (* ---------------- stix2/markings/object_markings.py ---------------- *)
  Fixpoint dedupe_atoms (vs : list val) (seen : list ustring) : list val :=
    match vs with
    | [] => []
    | VA (AStr s) :: r => if mem_ustr s seen then dedupe_atoms r seen else VA (AStr s) :: dedupe_atoms r (s :: seen)
    | v :: r => v :: dedupe_atoms r seen
    end.

  Definition object_refs (h : heap) (obj : val) : list val :=
    match list_items h (get_or_none h obj (u "object_marking_refs")) with Some xs => xs | None => [] end.

  Definition object_add (obj marking : val) (h : heap) : heap * res :=
    let ms := map (marking_id h) (convert_to_list marking h) in
    let (h1, l) := alloc h (NList (dedupe_atoms (object_refs h obj ++ ms) [])) in
    new_version obj [(u "object_marking_refs", VR l)] h1.

  Definition object_clear (obj : val) (h : heap) : heap * res :=
    new_version obj [(u "object_marking_refs", VA ANone)] h.

  Definition object_remove (obj marking : val) (h : heap) : heap * res :=
    let ms := atoms_str (map (marking_id h) (convert_to_list marking h)) in
    let cur := object_refs h obj in
    if is_nil cur then (h, RVal obj)
    else if negb (forallb (fun s => mem_ustr s (atoms_str cur)) ms) then (h, RExc "MarkingNotFoundError")
    else
      let keep := filter (fun v => match v with VA (AStr s) => negb (mem_ustr s ms) | _ => true end) cur in
      if is_nil keep then new_version obj [(u "object_marking_refs", VA ANone)] h
      else let (h1, l) := alloc h (NList keep) in new_version obj [(u "object_marking_refs", VR l)] h1.

  (* set_markings = add_markings(clear_markings(obj), marking) *)
  Definition object_set (obj marking : val) (h : heap) : heap * res :=
    bindv (object_clear obj h) (fun o h1 => object_add o marking h1).

  (* ---------------- stix2/markings/__init__.py: dispatch on `selectors is None` ---------------- *)
  Inductive api_fn := ASet | ARemove | AAdd | AClear | AGet | AIsMarked.

  Definition is_none (v : val) : bool := match v with VA ANone => true | _ => false end.

  Definition api_markings (fn : api_fn) (obj marking selectors : val) (h : heap) : heap * res :=
    match fn with
    | ASet => if is_none selectors then object_set obj marking h else granular_set obj marking selectors h
    | ARemove => if is_none selectors then object_remove obj marking h else granular_remove obj marking selectors h
    | AAdd => if is_none selectors then object_add obj marking h else granular_add obj marking selectors h
    | AClear => if is_none selectors then object_clear obj h else granular_clear obj selectors h
    | AGet =>
      (* object level: `obj.get('object_marking_refs', [])` -- the object's OWN list;
         granular level: `list(set(results))` (which ids: not modelled, only that the list is new) *)
      if is_none selectors
      then match mapping_get h obj (u "object_marking_refs") with
           | Some l => (h, RVal l)
           | None => let (h1, l) := alloc h (NList []) in (h1, RVal (VR l))
           end
      else let (h1, l) := alloc h (NList []) in (h1, RVal (VR l))
    | AIsMarked => (h, RVal (VA (ABool false)))     (* a bool (which one: not modelled) *)
    end.

  (* ---------------- stix2/versioning.py: remove_custom_stix ---------------- *)
  Definition remove_custom_stix (obj : val) (h : heap) : heap * res :=
    match mapping_entries h obj with
    | None => (h, RExc "TypeError")
    | Some m =>
      match assoc (u "type") m with
      | Some (VA (AStr ty)) =>
        if ustr_prefix (u "x-") ty then (h, RVal (VA ANone))
        else
          let custom := filter (fun kv => ustr_prefix (u "x_") (fst kv)) m in
          if is_nil custom then (h, RVal obj)
          else new_version obj (map (fun kv => (fst kv, VA ANone)) custom) h
      | _ => (h, RExc "KeyError")
      end
    end.

  (* ---------------- stix2/utils.py: deduplicate ---------------- *)
  (* `unique_objs[(obj['id'], ver)] = obj` (or `[obj['id']]` when there is no version), then
     `list(unique_objs.values())`: a new list of (some of) the SAME objects, the last one per key.
     An object's version is a datetime, a dict's a str: they never collide (the flag).            *)
  Definition dkey := (ustring * option atom * bool)%type.

  Definition dkey_eqb (a b : dkey) : bool :=
    ustr_eqb (fst (fst a)) (fst (fst b)) &&
    match snd (fst a), snd (fst b) with
    | Some x, Some y => atom_eqb x y
    | None, None => true
    | _, _ => false
    end && Bool.eqb (snd a) (snd b).

  Fixpoint dins (k : dkey) (v : val) (t : list (dkey * val)) : list (dkey * val) :=
    match t with
    | [] => [(k, v)]
    | (k', v') :: r => if dkey_eqb k k' then (k', v) :: r else (k', v') :: dins k v r
    end.

  Fixpoint dedup_loop (h : heap) (xs : list val) (t : list (dkey * val)) : option (list (dkey * val)) :=
    match xs with
    | [] => Some t
    | x :: r =>
      match mapping_get h x (u "id") with
      | Some (VA (AStr i)) =>
        let m := get_or_none h x (u "modified") in
        let ver := if truthy h m then m else get_or_none h x (u "created") in
        let k := match ver with
                 | VA ANone => (i, None, false)
                 | VA a => (i, Some a, is_obj h x)
                 | VR _ => (i, None, true)
                 end in
        dedup_loop h r (dins k x t)
      | _ => None
      end
    end.

  Definition deduplicate (lst : val) (h : heap) : heap * res :=
    match list_items h lst with
    | None => (h, RExc "TypeError")
    | Some xs =>
      match dedup_loop h xs [] with
      | None => (h, RExc "KeyError")
      | Some t => let (h1, l) := alloc h (NList (map snd t)) in (h1, RVal (VR l))
      end
    end.

  (* ---------------- stix2/environment.py: ObjectFactory ---------------- *)
  Definition factory_new (kw : val) (list_append : bool) (h : heap) : heap * res :=
    match mapping_entries h kw with
    | None => (h, RExc "TypeError")
    | Some m =>
      let pick (k : ustring) := match assoc k m with Some v => if truthy h v then [(k, v)] else [] | None => [] end in
      let created := match assoc (u "created") m with
                     | Some v => if truthy h v then [(u "created", v); (u "modified", v)] else []
                     | None => []
                     end in
      let defaults := pick (u "created_by_ref") ++ created ++ pick (u "external_references") ++ pick (u "object_marking_refs") in
      let (h1, d) := alloc h (NDict defaults) in
      let (h2, f) := alloc h1 (NObj (u "ObjectFactory") [(u "_defaults", VR d); (u "_list_append", VA (ABool list_append))]) in
      (h2, RVal (VR f))
    end.

  Definition list_properties : list ustring := [u "external_references"; u "object_marking_refs"].

  (* the loop of ObjectFactory.create over the list properties present on both sides *)
  Fixpoint create_loop (p kw : nat) (lps : list ustring) (h : heap) : heap * res :=
    match lps with
    | [] => (h, RVal (VR p))
    | lp :: rest =>
      match mapping_get h (VR kw) lp, mapping_get h (VR p) lp with
      | Some kwarg_prop, Some cur =>
        match del_item h kw lp with                                   (* kwargs.pop(list_prop) *)
        | None => (h, RExc "KeyError")
        | Some h1 =>
          match kwarg_prop with
          | VA ANone => match del_item h1 p lp with                   (* del properties[list_prop] *)
                        | Some h2 => create_loop p kw rest h2
                        | None => (h1, RExc "KeyError")
                        end
          | _ =>
            (* `if not isinstance(properties[lp], list): properties[lp] = [properties[lp]]` *)
            let st := match list_items h1 cur with
                      | Some _ => Some (h1, cur)
                      | None => let (h2, l) := alloc h1 (NList [cur]) in
                                match set_item h2 p lp (VR l) with Some h3 => Some (h3, VR l) | None => None end
                      end in
            match st with
            | None => (h1, RExc "TypeError")
            | Some (h3, VR l) =>
              let h4 := match list_items h3 kwarg_prop with
                        | Some ys => extend_items h3 l ys              (* .extend(kwarg_prop) *)
                        | None => append_item h3 l kwarg_prop          (* .append(kwarg_prop) *)
                        end in
              match h4 with
              | Some h4 => create_loop p kw rest h4
              | None => (h3, RExc "TypeError")
              end
            | Some (h3, VA _) => (h3, RExc "TypeError")
            end
          end
        end
      | _, _ => create_loop p kw rest h
      end
    end.

  Definition factory_create (f : val) (cls : ustring) (kwargs : val) (h : heap) : heap * res :=
    match f with
    | VR fl =>
      match get h fl with
      | Some (NObj _ fs) =>
        match assoc (u "_defaults") fs, assoc (u "_list_append") fs with
        | Some d, Some (VA (ABool la)) =>
          bindv (shallow_copy kwargs h) (fun kwv h0 =>             (* the keyword dict of the call *)
          bindv (copy_at (cm_fac vt) FUEL d h0) (fun pv h1 =>      (* copy.deepcopy(self._defaults) *)
            match pv, kwv with
            | VR p, VR kw =>
              (* `self._defaults = {}` in __init__: always a dict *)
              if negb (is_dict h1 pv) then (h1, RExc "TypeError") else
              bindv (if la then create_loop p kw list_properties h1 else (h1, RVal pv)) (fun _ h2 =>
                match mapping_entries h2 kwv with
                | None => (h2, RExc "TypeError")
                | Some kwm =>
                  match update_items h2 p kwm with                 (* properties.update( **kwargs ) *)
                  | Some h3 => run (QConstruct cls pv) h3
                  | None => (h2, RExc "TypeError")
                  end
                end)
            | _, _ => (h1, RExc "TypeError")
            end))
        | _, _ => (h, RExc "TypeError")
        end
      | _ => (h, RExc "TypeError")
      end
    | VA _ => (h, RExc "TypeError")
    end.

  (* ---------------- Bundle( positional args, keyword args ) ---------------- *)
  Definition bundle (cls : ustring) (args : list val) (kw : option val) (h : heap) : heap * res :=
    let flat := flat_map (fun a => match list_items h a with Some xs => xs | None => [a] end) args in
    let kwm := match kw with Some k => match mapping_entries h k with Some m => m | None => [] end | None => [] end in
    if is_nil args then
      let (h1, k) := alloc h (NDict kwm) in run (QConstruct cls (VR k)) h1
    else
      let kwobjs := match assoc (u "objects") kwm with
                    | Some o => match list_items h o with Some xs => xs | None => [] end
                    | None => []
                    end in
      let (h1, l) := alloc h (NList (flat ++ kwobjs)) in
      let (h2, k) := alloc h1 (NDict (assoc_set (u "objects") (VR l) kwm)) in
      run (QConstruct cls (VR k)) h2.

  (* ---------------- stix2/datastore/memory.py ---------------- *)
  Definition store_new (h : heap) : heap * nat :=
    let (h1, d) := alloc h (NStore []) in
    alloc h1 (NObj (u "MemoryStore") [(u "_data", VR d)]).

  Definition store_data (h : heap) (s : val) : option nat :=
    match s with
    | VR l => match get h l with
              | Some (NObj _ fs) => match assoc (u "_data") fs with
                                    | Some (VR d) => match get h d with Some (NStore _) => Some d | _ => None end
                                    | _ => None
                                    end
              | _ => None
              end
    | VA _ => None
    end.

  Definition modified_of (h : heap) (v : val) : ustring :=
    match mapping_get h v (u "modified") with Some (VA (AStr s)) => s | _ => [] end.

  (* _add: lists and bundles are taken apart; an object is stored by
     reference, a dict is parsed first; the table maps the id to the
     latest version (the _ObjectFamily bookkeeping is folded into the
     table: it is private to the store) *)
  Fixpoint store_add (n : nat) (d : nat) (data : val) (h : heap) : heap * res :=
    match n with
    | O => (h, RFuel)
    | S n' =>
      let many := fix go (xs : list val) (h : heap) : heap * res :=
                    match xs with
                    | [] => (h, RVal (VA ANone))
                    | x :: r => bindv (store_add n' d x h) (fun _ h1 => go r h1)
                    end in
      match list_items h data with
      | Some xs => many xs h
      | None =>
        match mapping_get h data (u "type") with
        | None => (h, RExc "KeyError")
        | Some ty =>
          if val_is_str (u "bundle") ty then
            many (match list_items h (get_or_none h data (u "objects")) with Some xs => xs | None => [] end) h
          else
            bindv (if is_obj h data then (h, RVal data) else run (QParse data None true) h) (fun o h1 =>
              match str_atom (mapping_get h1 o (u "id")) with
              | None => (h1, RExc "KeyError")
              | Some id =>
                let newer := match get h1 d with
                             | Some (NStore m) =>
                               match assoc id m with
                               | Some old => match mapping_get h1 o (u "modified") with
                                             | None => true
                                             | Some _ => ustr_ltb (modified_of h1 old) (modified_of h1 o)
                                             end
                               | None => true
                               end
                             | _ => true
                             end in
                if newer then lift (set_item h1 d id o) h1 (VA ANone) else (h1, RVal (VA ANone))
              end)
        end
      end
    end.

  Definition store_add_top (d : nat) (data : val) (h : heap) : heap * res := store_add FUEL d data h.

  Definition store_get (d : nat) (id : ustring) (h : heap) : heap * res :=
    match get h d with
    | Some (NStore m) => (h, RVal (match assoc id m with Some o => o | None => VA ANone end))
    | _ => (h, RExc "TypeError")
    end.

  (* ---------------- stix2/base.py: attribute guards ---------------- *)
  (* _STIXBase.__setattr__: `if not name.startswith("_"): raise ImmutableError` *)
  Definition setattr_allowed (name : ustring) : bool :=
    match name with c :: _ => N.eqb c 95 | [] => false end.

  Definition py_setattr (o : val) (name : ustring) (x : val) (h : heap) : heap * res :=
    match o with
    | VR l =>
      if setattr_allowed name then lift (set_field h l name x) h (VA ANone)
      else (h, RExc "ImmutableError")
    | VA _ => (h, RExc "AttributeError")
    end.

  (* there is no __delattr__: object.__delattr__ only finds instance attributes *)
  Definition py_delattr (o : val) (name : ustring) (h : heap) : heap * res :=
    match o with
    | VR l => match del_field h l name with
              | Some h1 => (h1, RVal (VA ANone))
              | None => (h, RExc "AttributeError")
              end
    | VA _ => (h, RExc "AttributeError")
    end.

  (* a Mapping has neither __setitem__ nor __delitem__ *)
  Definition py_setitem_obj (o : val) (h : heap) : heap * res :=
    if is_obj h o then (h, RExc "TypeError") else (h, RExc "Unmodelled").
End Api.

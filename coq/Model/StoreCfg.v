(* Model/StoreCfg.v -- the choices of the data-store code that Model/Store.v
   fixes, as a record (`store_cfg`), and the store model generalised over the
   choices for which the translator translators/tr_stores.py recognises an
   alternative in the source text.  `model_cfg` is what Model/Store.v
   implements; every generalised function `X_g` at `model_cfg` IS the function
   X of Model/Store.v (Proofs/StoreSrc.v).  Gen/StoreFacts.v, regenerated from
   the text of /repo on every run, defines `src_store_cfg`.  No proofs here.

   field                  site in the source                                         alternatives recognised
   c_fam_key              _ObjectFamily.add: key of all_versions                      obj["modified"] | anything else
   c_latest_cmp           _ObjectFamily.add: obj["modified"] OP latest["modified"]    >  >=  <  <=
   c_mem_filters          MemorySource.get/all_versions/query filter chaining         (all chained only)
   c_sort_key, c_pick     FileSystemSource.get: sorted(key = modified)[i]             modified | another key; i = -1 | 0
   c_filename             _timestamp2filename                                         (format, strip punctuation)
   c_overwrite            FileSystemSink._check_path_and_write: isfile -> raise       refuse | overwrite
   c_dir_case             _is_versioned_type_dir: re.compile(..., re.I)               with | without re.I
   c_cget_cmp, c_run_max  CompositeDataSource.get: ver OP latest_ver; where latest_ver
                          is updated                                                  >  >=  <  <= ; in the test | always
   c_members              CompositeDataSource.get: loop over data_sources             all | stop at the first hit
   c_merge_get/all/query  `if _composite_filters: all_filters.add(...)`               merged | own filters only
   c_dedupe_key           utils.deduplicate: key of a versioned object                (id, version) | id
   c_related              CompositeDataSource.related_to                              federated | per member
   c_navigation           DataSource.relationships / related_to / creator_of shapes   (generic scan only)
   c_environment          Environment.__init__ wiring                                 (store.source then source)      *)
From Coq Require Import NArith ZArith List String Bool.
From V Require Import Base.UString Model.Store.
Import ListNotations.
Open Scope list_scope.

Inductive cmp_op := CmpGt | CmpGe | CmpLt | CmpLe.
Inductive fam_key := KeyModified | KeyOther.        (* any other key expression *)
Inductive mem_filters := AllChained.
Inductive sort_key := SortModified | SortOther.     (* any other sort key *)
Inductive pick := PickLast | PickFirst.
Inductive filename_rule := FormatStrip.
Inductive overwrite := Refuse | Overwrites.
Inductive dir_case := CaseInsensitive | CaseSensitive.
Inductive run_max := UpdateOnTake | UpdateAlways.
Inductive members := AllMembers | FirstHit.
Inductive merging := Merged | OwnOnly.
Inductive dedupe_key := KeyIdVer | KeyId.
Inductive navigation := GenericScan.
Inductive environment := StoreThenSource.

Record store_cfg := mk_store_cfg {
  c_fam_key : fam_key; c_latest_cmp : cmp_op; c_mem_filters : mem_filters;
  c_sort_key : sort_key; c_pick : pick; c_filename : filename_rule; c_overwrite : overwrite; c_dir_case : dir_case;
  c_cget_cmp : cmp_op; c_run_max : run_max; c_members : members;
  c_merge_get : merging; c_merge_all : merging; c_merge_query : merging;
  c_dedupe_key : dedupe_key; c_related : related_mode; c_navigation : navigation; c_environment : environment }.

(* what Model/Store.v implements (CompositeDataSource.related_to being its own variant parameter there) *)
Definition model_cfg (rm : related_mode) : store_cfg :=
  mk_store_cfg KeyModified CmpGt AllChained SortModified PickLast FormatStrip Refuse CaseInsensitive
               CmpGt UpdateOnTake AllMembers Merged Merged Merged KeyIdVer rm GenericScan StoreThenSource.

(* a OP b on `modified` values; None = TypeError *)
Definition vcmp (op : cmp_op) (a b : vkey) : option bool :=
  match op with
  | CmpGt => vgt a b
  | CmpGe => option_map negb (vgt b a)
  | CmpLt => vgt b a
  | CmpLe => option_map negb (vgt a b)
  end.

Section Gen.
  Variable mode : text_mode.
  Variable iot : ustring -> option Z.
  Variable ts2fn : Z -> ustring.
  Variable cfg : store_cfg.

  (* ---------- memory ---------- *)
  Definition fam_add_g (vs : list (vkey * obj)) (lat : option obj) (o : obj) : entry * option err :=
    let vs' := dict_set vkey_eqb vs (omod o) o in
    match lat with
    | None => (EFam vs' (Some o), None)
    | Some l =>
      match vcmp (c_latest_cmp cfg) (omod o) (omod l) with
      | None => (EFam vs' lat, Some EType)
      | Some true => (EFam vs' (Some o), None)
      | Some false => (EFam vs' lat, None)
      end
    end.

  Definition mem_add1_g (o0 : obj) (m : mem) : mem * option err :=
    let o := norm_obj mode iot o0 in
    if is_vnone (omod o) then (dict_set ustr_eqb m (oid o) (EOne o), None)
    else
      match dict_get ustr_eqb m (oid o) with
      | Some (EOne _) => (m, Some EKind)
      | Some (EFam vs lat) =>
          let (e, r) := fam_add_g vs lat o in (dict_set ustr_eqb m (oid o) e, r)
      | None =>
          let (e, r) := fam_add_g [] None o in (dict_set ustr_eqb m (oid o) e, r)
      end.

  Definition mem_run_g (L : list obj) : mem := fold_left (fun m o => fst (mem_add1_g o m)) L [].

  (* ---------- filesystem ---------- *)
  Fixpoint replace_file (t : ustring) (d : option ustring) (n : ustring) (o : obj) (s : fs) : fs :=
    match s with
    | [] => []
    | f :: r => if same_path t d n f then mkFile t d n o :: r else f :: replace_file t d n o r
    end.

  Definition fs_add1_g (o0 : obj) (s : fs) : fs * option err :=
    let o := norm_obj mode iot o0 in
    match fs_path iot ts2fn o with
    | Err e => (s, Some e)
    | Ok (t, d, n) =>
      if existsb (same_path t d n) s then
        match c_overwrite cfg with
        | Refuse => (s, Some EOverwrite)
        | Overwrites => (replace_file t d n (aware_obj o) s, None)
        end
      else (s ++ [mkFile t d n (aware_obj o)], None)
    end.

  Definition fs_run_g (L : list obj) : fs := fold_left (fun s o => fst (fs_add1_g o s)) L [].

  (* the directory test without re.I: the type and the hex digits must match as they are *)
  Fixpoint strip_cs (p s : ustring) : option ustring :=
    match p, s with
    | [], _ => Some s
    | x :: p', y :: s' => if N.eqb x y then strip_cs p' s' else None
    | _ :: _, [] => None
    end.
  Definition is_hex_lc (c : N) : bool := ((N.leb 48 c && N.leb c 57) || (N.leb 97 c && N.leb c 102))%bool.
  Fixpoint take_hex_lc (n : nat) (s : ustring) : option ustring :=
    match n, s with
    | O, _ => Some s
    | S n', c :: r => if is_hex_lc c then take_hex_lc n' r else None
    | S _, [] => None
    end.
  Definition id_like_cs (type_name entry : ustring) : bool :=
    match obind (strip_cs type_name entry) (fun r =>
          obind (take_dash r) (fun r => obind (take_dash r) (fun r =>
          obind (take_hex_lc 8 r) (fun r => obind (take_dash r) (fun r =>
          obind (take_hex_lc 4 r) (fun r => obind (take_dash r) (fun r =>
          obind (take_hex_lc 4 r) (fun r => obind (take_dash r) (fun r =>
          obind (take_hex_lc 4 r) (fun r => obind (take_dash r) (fun r =>
          take_hex_lc 12 r))))))))))) with
    | Some [] => true
    | Some [c] => N.eqb c 10
    | _ => false
    end.
  Definition id_like_g (t e : ustring) : bool :=
    match c_dir_case cfg with CaseInsensitive => id_like t e | CaseSensitive => id_like_cs t e end.

  Definition is_versioned_dir_g (s : fs) (t : ustring) : bool :=
    existsb (fun f => ustr_eqb (ftype f) t &&
                      match fdir f with Some d => id_like_g t d | None => false end) s.
  Definition visited_g (ats ais : option (list ustring)) (s : fs) (f : fsfile) : bool :=
    allowed ats (ftype f) &&
    match fdir f with
    | Some d => is_versioned_dir_g s (ftype f) && allowed ais d
    | None => allowed ais (fname f)
    end.
  Definition fs_query_g (fl : list sfilter) (s : fs) : list obj :=
    let (ats, ais) := find_opts fl in
    let hit := filter (fun f => visited_g ats ais s f && all_hold fl (fobj f)) s in
    map fobj (filter in_id_dir hit ++ filter (fun f => negb (in_id_dir f)) hit).
  Definition fs_all_g (fl : list sfilter) (id : ustring) (s : fs) : list obj := fs_query_g (FId id :: fl) s.

  (* sorted(all_data, key=modified)[0]: the first of the smallest *)
  Fixpoint first_min (best : obj) (l : list obj) : res obj :=
    match l with
    | [] => Ok best
    | o :: r =>
      match vgt (omod best) (omod o) with
      | None => Err EType
      | Some true => first_min o r
      | Some false => first_min best r
      end
    end.
  Definition pick_g (o0 : obj) (r : list obj) : res obj :=
    match c_pick cfg with PickLast => last_max o0 r | PickFirst => first_min o0 r end.

  Definition fs_get_g (fl : list sfilter) (id : ustring) (s : fs) : res (option obj) :=
    match fs_all_g fl id s with
    | [] => Ok None
    | o0 :: r =>
      if is_vnone (omod o0) then Ok (Some o0)
      else if existsb (fun o => is_vnone (omod o)) r then Err EKey
      else match pick_g o0 r with Ok o => Ok (Some o) | Err e => Err e end
    end.

  (* ---------- composite ---------- *)
  Definition merge_g (mg : merging) (af cf : list sfilter) : list sfilter :=
    match mg with Merged => af ++ cf | OwnOnly => af end.

  Fixpoint cget_loop_g (cur : option (obj * vkey)) (l : list obj) : res (option obj) :=
    match l with
    | [] => Ok (match cur with Some (o, _) => Some o | None => None end)
    | o :: r =>
      let ver := ver_of o in
      match cur with
      | None => cget_loop_g (Some (o, ver)) r
      | Some (c, latest_ver) =>
        let keep := match c_run_max cfg with UpdateOnTake => cur | UpdateAlways => Some (c, ver) end in
        if is_vnone ver then cget_loop_g (Some (o, ver)) r
        else match vcmp (c_cget_cmp cfg) ver latest_ver with
             | None => Err EType
             | Some true => cget_loop_g (Some (o, ver)) r
             | Some false => cget_loop_g keep r
             end
      end
    end.

  (* the members loop: all of them, or up to the first that answers *)
  Fixpoint collect_first (f : source -> res (option obj)) (ms : list source) : res (list (option obj)) :=
    match ms with
    | [] => Ok []
    | m :: r => rbind (f m) (fun a => match a with
                                      | Some _ => Ok [a]
                                      | None => rbind (collect_first f r) (fun l => Ok (a :: l))
                                      end)
    end.
  Definition collect_get_g (f : source -> res (option obj)) (ms : list source) : res (list (option obj)) :=
    match c_members cfg with AllMembers => collect f ms | FirstHit => collect_first f ms end.

  Definition cget_g (af : list sfilter) (ms : list source) (cf : list sfilter) (id : ustring) : res (option obj) :=
    match ms with
    | [] => Err EAttr
    | _ => rbind (collect_get_g (fun m => s_get m (merge_g (c_merge_get cfg) af cf) id) ms)
                 (fun rs => cget_loop_g None (somes rs))
    end.

  Definition dkey_of_g (o : obj) : dkey :=
    match c_dedupe_key cfg with
    | KeyIdVer => dkey_of o
    | KeyId => DId (oid o)
    end.
  Definition dedupe_g (l : list obj) : list obj :=
    map snd (fold_left (fun d o => dict_set dkey_eqb d (dkey_of_g o) o) l []).

  Definition call_g (af : list sfilter) (ms : list source) (cf : list sfilter) (id : ustring) : res (list obj) :=
    match ms with
    | [] => Err EAttr
    | _ => rbind (collect (fun m => s_all m (merge_g (c_merge_all cfg) af cf) id) ms)
                 (fun rs => Ok (dedupe_g (List.concat rs)))
    end.
  Definition cquery_g (af : list sfilter) (ms : list source) (cf q : list sfilter) : res (list obj) :=
    match ms with
    | [] => Err EAttr
    | _ => rbind (collect (fun m => s_query m (merge_g (c_merge_query cfg) af cf) q) ms)
                 (fun rs => Ok (dedupe_g (List.concat rs)))
    end.
  Definition crelationships_g (ms : list source) (a : ustring) (rt : option ustring) (so to : bool) : res (list obj) :=
    match ms with
    | [] => Err EAttr
    | _ => rbind (collect (fun m => s_rels m a rt so to) ms) (fun rs => Ok (dedupe_g (List.concat rs)))
    end.
  Definition crelated_to_g (af : list sfilter) (ms : list source) (a : ustring)
             (rt : option ustring) (so to : bool) (fl : list sfilter) : res (list obj) :=
    match ms with
    | [] => Err EAttr
    | _ =>
      match c_related cfg with
      | PerMember =>
        rbind (collect (fun m => s_related m a rt so to fl) ms) (fun rs => Ok (dedupe_g (List.concat rs)))
      | Federated =>
        related_to (crelationships_g ms) (cquery_g af ms []) a rt so to fl
      end
    end.
End Gen.

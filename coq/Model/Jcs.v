(* Model/Jcs.v -- executable model of
     stix2/canonicalization/NumberToJson.py : convert2Es6Format
     stix2/canonicalization/Canonicalize.py : JSONEncoder(sort_keys=True).encode,
                                              i.e. canonicalize(obj, utf8=False)
   over Base.Json.jvalue.  No proofs here.

   Domain of the model (what a jvalue stands for on the Python side):
     JNull/JBool/JStr/JArr/JObj  None / bool / str / list / dict with str keys
                                 (members in insertion order);
     JFloat r                    a float whose repr() is the text r;
     JInt z                      an int.  The code sends ints through float();
                                 for |z| <= 2^53 that conversion is exact and
                                 repr(float(z)) is the decimal numeral of z, so
                                 the model computes it; larger ints are outside
                                 the model (result OutOfModel, never compared).
   Python values that are not JSON values (tuples, non-str keys, other objects,
   circular structures) are outside the model.                                 *)
From Coq Require Import String NArith ZArith List Bool Decimal DecimalN.
From V Require Import Base.UString Base.Json Model.JcsText.
Import ListNotations.
Open Scope N_scope.

Inductive jerr := ValueError | UnicodeEncodeError | OutOfModel.
Inductive jres (A : Type) := JOk (a : A) | JRaise (e : jerr).
Arguments JOk {A} a.
Arguments JRaise {A} e.

(* ========================================================================== *)
(* float.__repr__ restated from its decimal digits (CPython format_float_short,
   mode 'r'): value = 0.d1 d2 ... dk * 10^n; fixed notation when -4 < n <= 16,
   otherwise d1[.d2...dk]e(+|-)XX with at least two exponent digits.           *)

Definition sign_text (neg : bool) : ustring := if neg then [c_minus] else [].

Definition mant_text (ds : list N) : ustring :=
  match ds with
  | [] => []
  | [d] => [dchar d]
  | d :: r => dchar d :: c_dot :: dchars r
  end.

Definition exp_text_py (e : Z) : ustring :=
  c_e :: (if (e <? 0)%Z then c_minus else c_plus)
      :: (let a := Z.abs_N e in if a <? 10 then c_0 :: dec_show a else dec_show a).

Definition py_repr (neg : bool) (ds : list N) (n : Z) : ustring :=
  let k := Z.of_nat (length ds) in
  sign_text neg ++
  (if ((-4 <? n) && (n <=? 16))%Z then
     if (n <=? 0)%Z then c_0 :: c_dot :: repeat c_0 (Z.to_nat (- n)) ++ dchars ds
     else if (n <? k)%Z then dchars (firstn (Z.to_nat n) ds) ++ c_dot :: dchars (skipn (Z.to_nat n) ds)
     else dchars ds ++ repeat c_0 (Z.to_nat (n - k)) ++ [c_dot; c_0]
   else mant_text ds ++ exp_text_py (n - 1)).

(* repr(float(z)) for an int with |z| <= 2^53 (exact conversion; the shortest
   round-trip digits of an integer-valued double below 2^53 are its own decimal
   digits without the trailing zeros).                                         *)
Fixpoint strip_trailing_zeros (ds : list N) : list N :=
  match ds with
  | [] => []
  | d :: r => match strip_trailing_zeros r with
              | [] => if d =? 0 then [] else [d]
              | r' => d :: r'
              end
  end.

Definition digit_vals (s : ustring) : list N := map (fun c => c - 48) s.

(* float(z) raises OverflowError when z rounds to 2^1024 or beyond (round to nearest even:
   from 2^1024 - 2^970 on); convert2Es6Format turns that into ValueError("Invalid JSON
   number: too large for an IEEE 754 double").  Ints between 2^53 and that bound are
   converted with rounding, which the model does not compute (OutOfModel).          *)
Definition float_overflows (z : Z) : bool :=
  (2 ^ 1024 - 2 ^ 970 <=? Z.abs z)%Z.

Definition int_too_big (z : Z) : jres ustring :=
  if float_overflows z then JRaise ValueError else JRaise OutOfModel.

Definition int_float_repr (z : Z) : option ustring :=
  if (z =? 0)%Z then Some [c_0; c_dot; c_0]
  else if (Z.abs z <=? 9007199254740992)%Z then
    let ds := digit_vals (dec_show (Z.abs_N z)) in
    Some (py_repr (z <? 0)%Z (strip_trailing_zeros ds) (Z.of_nat (length ds)))
  else None.

(* ========================================================================== *)
(* NumberToJson.py : convert2Es6Format, on pyDouble = str(fvalue)             *)

(* `fvalue == 0`: the repr of a float denotes zero only as 0.0 / -0.0 *)
Definition is_zero_repr (py : ustring) : bool :=
  ustr_eqb py [c_0; c_dot; c_0] || ustr_eqb py [c_minus; c_0; c_dot; c_0].

(* if pyExpStr[2:3] == '0': pyExpStr = pyExpStr[:2] + pyExpStr[3:] *)
Definition strip_exp_zero (es : ustring) : ustring :=
  if ustr_eqb (firstn 1 (skipn 2 es)) [c_0] then firstn 2 es ++ skipn 3 es else es.

(* pySign = ''; if pyDouble.find('-') == 0: pySign = '-'; pyDouble = pyDouble[1:] *)
Definition split_sign (py : ustring) : ustring * ustring :=
  match find_idx c_minus py with
  | Some O => ([c_minus], skipn 1 py)
  | _ => ([], py)
  end.

(* q = pyDouble.find('e'); if q > 0: pyExpStr = pyDouble[q:] (leading exponent
   zero suppressed); pyDouble = pyDouble[0:q]; pyExpVal = int(pyExpStr[1:])
   -> (pyExpStr, pyDouble, pyExpVal)                                           *)
Definition split_exp (pyDouble : ustring) : jres (ustring * ustring * Z) :=
  match find_idx c_e pyDouble with
  | Some (S q') =>
    let q := S q' in
    let pyExpStr := strip_exp_zero (skipn q pyDouble) in
    match py_int (skipn 1 pyExpStr) with
    | Some v => JOk (pyExpStr, firstn q pyDouble, v)
    | None => JRaise ValueError
    end
  | _ => JOk ([], pyDouble, 0%Z)
  end.

(* q = pyDouble.find('.'); if q > 0: pyDot = '.'; pyFirst = pyDouble[:q];
   pyLast = pyDouble[q + 1:]   -> (pyFirst, pyDot, pyLast)                     *)
Definition split_dot (pyDouble : ustring) : ustring * ustring * ustring :=
  match find_idx c_dot pyDouble with
  | Some (S q') => (firstn (S q') pyDouble, [c_dot], skipn (S (S q')) pyDouble)
  | _ => (pyDouble, [], [])
  end.

(* if pyLast == '0': pyDot = ''; pyLast = '' *)
Definition strip_dot0 (t : ustring * ustring * ustring) : ustring * ustring * ustring :=
  let '(pyFirst, pyDot, pyLast) := t in
  if ustr_eqb pyLast [c_0] then (pyFirst, [], []) else (pyFirst, pyDot, pyLast).

(* the three-way branch on pyExpVal and the final concatenation; the two
   `while` loops append / prepend max(0, count) zeros, written with repeat     *)
Definition assemble (pySign pyFirst pyDot pyLast pyExpStr : ustring) (pyExpVal : Z) : ustring :=
  if ((0 <? pyExpVal) && (pyExpVal <? 21))%Z then
    (* pyFirst += pyLast; q = pyExpVal - len(pyFirst); while q >= 0: q -= 1; pyFirst += '0' *)
    let pyFirst := pyFirst ++ pyLast in
    pySign ++ pyFirst ++ repeat c_0 (Z.to_nat (pyExpVal - Z.of_nat (length pyFirst) + 1))
  else if ((pyExpVal <? 0) && (-7 <? pyExpVal))%Z then
    (* pyLast = pyFirst + pyLast; pyFirst = '0'; pyDot = '.'; q = pyExpVal;
       while q < -1: q += 1; pyLast = '0' + pyLast *)
    pySign ++ [c_0] ++ [c_dot] ++ repeat c_0 (Z.to_nat (- pyExpVal - 1)) ++ pyFirst ++ pyLast
  else
    pySign ++ pyFirst ++ pyDot ++ pyLast ++ pyExpStr.

Definition convert2es6 (py : ustring) : jres ustring :=
  if is_zero_repr py then JOk [c_0]                       (* if fvalue == 0: return '0' *)
  else
  match find_idx c_n py with
  | Some _ => JRaise ValueError                           (* pyDouble.find('n') >= 0 *)
  | None =>
    let '(pySign, pyDouble) := split_sign py in
    match split_exp pyDouble with
    | JRaise e => JRaise e
    | JOk (pyExpStr, pyDouble, pyExpVal) =>
      let '(pyFirst, pyDot, pyLast) := strip_dot0 (split_dot pyDouble) in
      JOk (assemble pySign pyFirst pyDot pyLast pyExpStr pyExpVal)
    end
  end.

(* ========================================================================== *)
(* Canonicalize.py : encode_basestring (ESCAPE / ESCAPE_DCT).  At run time the
   name is bound to the C accelerator _json.encode_basestring when it is available
   (same function; py_encode_basestring is the fallback the model transcribes), so
   an edit of ESCAPE_DCT alone changes nothing observable.                      *)

Definition hex_lower (n : N) : N := if n <? 10 then 48 + n else 87 + n.

(* ESCAPE_DCT: the seven explicit entries, then '\\u{0:04x}' for the other
   code points below 0x20; every other character is not matched by ESCAPE.    *)
Definition escape_char (c : N) : ustring :=
  if c =? 92 then [c_bslash; c_bslash]
  else if c =? 34 then [c_bslash; c_quote]
  else if c =? 8 then [c_bslash; 98]
  else if c =? 12 then [c_bslash; 102]
  else if c =? 10 then [c_bslash; 110]
  else if c =? 13 then [c_bslash; 114]
  else if c =? 9 then [c_bslash; 116]
  else if c <? 32 then [c_bslash; 117; c_0; c_0; hex_lower (c / 16); hex_lower (c mod 16)]
  else [c].

Definition escape (s : ustring) : ustring := flat_map escape_char s.
Definition encode_string (s : ustring) : ustring := c_quote :: escape s ++ [c_quote].

(* ========================================================================== *)
(* sort key: kv[0].encode('utf-16_be')                                         *)

(* UTF-16 code units of one code point; None = UnicodeEncodeError (a lone
   surrogate cannot be encoded; a value above 0x10FFFF is not a Python str)    *)
Definition utf16_cp (c : N) : option (list N) :=
  if c <? 55296 then Some [c]
  else if c <? 57344 then None
  else if c <? 65536 then Some [c]
  else if c <? 1114112 then
    let c' := c - 65536 in Some [55296 + c' / 1024; 56320 + c' mod 1024]
  else None.

Fixpoint utf16_units (s : ustring) : option (list N) :=
  match s with
  | [] => Some []
  | c :: r => match utf16_cp c, utf16_units r with
              | Some a, Some b => Some (a ++ b)
              | _, _ => None
              end
  end.

(* big-endian bytes of the units *)
Definition be_bytes (us : list N) : list N := flat_map (fun x => [x / 256; x mod 256]) us.

Definition sort_key (k : ustring) : option (list N) := option_map be_bytes (utf16_units k).

(* sorted(items, key=...): Python's sort is stable and compares the `bytes`
   keys lexicographically; a stable insertion sort gives the same list.        *)
Section Sort.
  Context {A : Type}.
  Fixpoint insert_by (kx : list N) (x : A) (l : list (list N * A)) : list (list N * A) :=
    match l with
    | [] => [(kx, x)]
    | (ky, y) :: r => if units_leb kx ky then (kx, x) :: (ky, y) :: r else (ky, y) :: insert_by kx x r
    end.
  Fixpoint isort (l : list (list N * A)) : list (list N * A) :=
    match l with
    | [] => []
    | (k, x) :: r => insert_by k x (isort r)
    end.
End Sort.

(* attach the sort key to every member; None if some key cannot be encoded *)
Fixpoint keyed {A : Type} (m : list (ustring * A)) : option (list (list N * (ustring * A))) :=
  match m with
  | [] => Some []
  | (k, x) :: r => match sort_key k, keyed r with
                   | Some kb, Some r' => Some ((kb, (k, x)) :: r')
                   | _, _ => None
                   end
  end.

Definition sort_members {A : Type} (m : list (ustring * A)) : option (list (ustring * A)) :=
  option_map (fun ks => map snd (isort ks)) (keyed m).

(* first error wins, in iteration order *)
Fixpoint sequence (rs : list (jres ustring)) : jres (list ustring) :=
  match rs with
  | [] => JOk []
  | JRaise e :: _ => JRaise e
  | JOk a :: r => match sequence r with JOk l => JOk (a :: l) | JRaise e => JRaise e end
  end.

(* yield _encoder(key); yield ':'; yield <value> *)
Definition member_text (kv : ustring * jres ustring) : jres ustring :=
  match snd kv with
  | JOk body => JOk (encode_string (fst kv) ++ c_colon :: body)
  | JRaise e => JRaise e
  end.

(* ========================================================================== *)
(* _make_iterencode with sort_keys=True, separators (',', ':'), no indent      *)

Fixpoint canon (v : jvalue) : jres ustring :=
  match v with
  | JNull => JOk [110; 117; 108; 108]
  | JBool true => JOk [116; 114; 117; 101]
  | JBool false => JOk [102; 97; 108; 115; 101]
  | JInt z => match int_float_repr z with Some r => convert2es6 r | None => int_too_big z end
  | JFloat r => convert2es6 r
  | JStr s => JOk (encode_string s)
  | JArr l =>
      let parts := (fix go (l : list jvalue) : list (jres ustring) :=
                      match l with [] => [] | x :: r => canon x :: go r end) l in
      match sequence parts with
      | JOk ps => JOk (c_lbrack :: join_with [c_comma] ps ++ [c_rbrack])
      | JRaise e => JRaise e
      end
  | JObj m =>
      (* every member's value text is computed here only so that the recursion
         is structural; which error surfaces is decided below in sorted order,
         after the sort keys (as the code evaluates sorted(...) first).        *)
      let enc := (fix go (m : list (ustring * jvalue)) : list (ustring * jres ustring) :=
                    match m with [] => [] | (k, x) :: r => (k, canon x) :: go r end) m in
      match sort_members enc with
      | None => JRaise UnicodeEncodeError
      | Some sorted =>
        match sequence (map member_text sorted) with
        | JOk ps => JOk (c_lbrace :: join_with [c_comma] ps ++ [c_rbrace])
        | JRaise e => JRaise e
        end
      end
  end.

(* ---- rendering for the case files ----------------------------------------- *)
Definition show_jerr (e : jerr) : string :=
  match e with
  | ValueError => "ValueError"%string
  | UnicodeEncodeError => "UnicodeEncodeError"%string
  | OutOfModel => "OutOfModel"%string
  end.

Definition show_jres (r : jres ustring) : string :=
  match r with
  | JOk s => String.append "OK " (show_ustr s)
  | JRaise e => String.append "EXC " (show_jerr e)
  end.

(* Model/Markings.v -- executable model of stix2/markings (C07, C08).

   Mirrors, function by function:
     stix2/markings/utils.py            iterpath, _evaluate_expression, _validate_selector, validate,
                                        expand_markings, compress_markings, build_granular_marking
     stix2/markings/granular_markings.py get/set/remove/add/clear_markings, is_marked
     stix2/markings/object_markings.py   the same six, object level
     stix2/markings/__init__.py          the dispatch on `selectors is None` and the inherited combination
     stix2/versioning.py                 new_version as far as the marking functions observe it
     stix2/base.py, properties.py        what the constructor re-checks when new_version rebuilds an object:
                                        SELECTOR_REGEX, GranularMarking lang only in 2.1,
                                        _check_object_constraints (validate of every granular marking)

   Places where the pinned code deviates from properties C07/C08 are *variant
   parameters* (record cfg).  No proofs in this file.                          *)
From Coq Require Import NArith ZArith List String Bool Arith.
From V Require Import Base.UString.
Import ListNotations.
Open Scope nat_scope.

(* ------------------------------------------------------------------ *)
(* Variants (BUILDING.md, "Defects of the unchanged code")             *)

Inductive falsy_mode := TruthyOnly | AnyValue.        (* `path == selector and value`  vs  `path == selector` *)
Inductive index_mode := FirstEqual | Position.        (* `varobj.index(item)`          vs  enumerate            *)
Inductive embed_mode := DictOnly | AnyMapping.        (* `isinstance(x, dict)`         vs  Mapping              *)
Inductive nest_mode := FlatLists | NestedLists.       (* a list inside a list is not walked  vs  walked         *)
Inductive inherit_mode := ByPrefix | ByPathTree.      (* `a.startswith(b)`             vs  `a.startswith(b + '.')` *)
Inductive api_mode := AnyObjectMarking | SameMarking. (* markings.is_marked(..., inherited=True) combination   *)
Inductive syntax_mode := LowerKeys | AnyCaseKeys | LowerKeysZ | AnyCaseKeysZ.
   (* SELECTOR_REGEX: [a-z0-9_-] only  vs  also A-Z in keys after the first;  ...Z: anchored with \Z instead of `$`
      (`$` also matches before one trailing newline) *)
Definition syntax_upper (s : syntax_mode) : bool := match s with AnyCaseKeys | AnyCaseKeysZ => true | _ => false end.
Definition syntax_dollar (s : syntax_mode) : bool := match s with LowerKeys | AnyCaseKeys => true | _ => false end.
Inductive ind20_mode := Ind20Unchecked | Ind20Checked. (* v20.Indicator._check_object_constraints omits / makes the super() call *)

Record cfg := mkcfg {
  c_falsy : falsy_mode; c_index : index_mode; c_embed : embed_mode; c_nest : nest_mode;
  c_inherit : inherit_mode; c_api : api_mode; c_syntax : syntax_mode; c_ind20 : ind20_mode }.

Definition cfg_pinned : cfg := mkcfg TruthyOnly FirstEqual DictOnly FlatLists ByPrefix AnyObjectMarking LowerKeys Ind20Unchecked.
Definition cfg_repaired : cfg := mkcfg AnyValue Position AnyMapping NestedLists ByPathTree SameMarking AnyCaseKeysZ Ind20Checked.

(* ------------------------------------------------------------------ *)
(* Value trees.  VDict is a real `dict`; VObj is a Mapping that is not a dict
   (an embedded _STIXBase object); VTime stands for a datetime (always truthy). *)

Inductive mval :=
| VNull
| VBool (b : bool)
| VInt (z : Z)
| VFloat (r : ustring)          (* repr text *)
| VStr (s : ustring)
| VTime (t : ustring)
| VList (l : list mval)
| VDict (m : list (ustring * mval))
| VObj (m : list (ustring * mval)).

Definition members := list (ustring * mval).

Fixpoint lookup (k : ustring) (m : members) : option mval :=
  match m with
  | [] => None
  | (k', v) :: rest => if ustr_eqb k k' then Some v else lookup k rest
  end.

Definition has_key (k : ustring) (m : members) : bool := match lookup k m with Some _ => true | None => false end.

Definition nonempty (s : ustring) : bool := match s with [] => false | _ => true end.

(* bool(x) *)
Definition truthy (v : mval) : bool :=
  match v with
  | VNull => false
  | VBool b => b
  | VInt z => negb (z =? 0)%Z
  | VFloat r => negb (ustr_eqb r (u "0.0") || ustr_eqb r (u "-0.0"))
  | VStr s => nonempty s
  | VTime _ => true
  | VList l => match l with [] => false | _ => true end
  | VDict m | VObj m => match m with [] => false | _ => true end
  end.

(* x == y as list.index sees it.  bool and int compare by value; a float is
   compared by its repr text (the harness keeps integral floats, NaN and -0.0
   out of lists); mappings compare as dicts (order-free), whatever their class. *)
Fixpoint py_eq (a b : mval) {struct a} : bool :=
  let dict_eq := fix dict_eq (x : members) (y : members) : bool :=
        match x with
        | [] => true
        | kv :: x' => (let (k, v) := kv in match lookup k y with Some w => py_eq v w | None => false end) && dict_eq x' y
        end in
  let list_eq := fix list_eq (x y : list mval) : bool :=
        match x, y with
        | [], [] => true
        | p :: x', q :: y' => py_eq p q && list_eq x' y'
        | _, _ => false
        end in
  match a with
  | VNull => match b with VNull => true | _ => false end
  | VBool x => match b with
               | VBool y => Bool.eqb x y
               | VInt y => (y =? (if x then 1 else 0))%Z
               | _ => false end
  | VInt x => match b with
              | VInt y => (x =? y)%Z
              | VBool y => (x =? (if y then 1 else 0))%Z
              | _ => false end
  | VFloat x => match b with VFloat y => ustr_eqb x y | _ => false end
  | VStr x => match b with VStr y => ustr_eqb x y | _ => false end
  | VTime x => match b with VTime y => ustr_eqb x y | _ => false end
  | VList x => match b with VList y => list_eq x y | _ => false end
  | VDict x => match b with VDict y | VObj y => (List.length x =? List.length y) && dict_eq x y | _ => false end
  | VObj x => match b with VDict y | VObj y => (List.length x =? List.length y) && dict_eq x y | _ => false end
  end.

(* ------------------------------------------------------------------ *)
(* iterpath                                                            *)

Definition dot : N := 46%N.
Definition dec (n : nat) : ustring := ustr_of_Z (Z.of_nat n).
Definition idx_seg (n : nat) : ustring := (91%N :: dec n) ++ [93%N].      (* '[{0}]'.format(n) *)

Fixpoint first_index (f : mval -> bool) (l : list mval) (i : nat) : option nat :=
  match l with
  | [] => None
  | x :: l' => if f x then Some i else first_index f l' (S i)
  end.

(* the number that iterpath puts between the brackets for the item at position pos *)
Definition item_index (c : cfg) (whole : list mval) (it : mval) (pos : nat) : nat :=
  match c_index c with
  | Position => pos
  | FirstEqual => match first_index (fun x => py_eq x it) whole 0 with Some j => j | None => pos end
  end.

Definition path := list ustring.
Definition under (k : ustring) (pv : path * mval) : path * mval := (k :: fst pv, snd pv).

(* walk c in_list v = what iterpath yields *below* a value v that it has just
   yielded (paths relative to v), v being a property value (in_list = false)
   or a list item (in_list = true). *)
Fixpoint walk (c : cfg) (in_list : bool) (v : mval) {struct v} : list (path * mval) :=
  match v with
  | VDict m =>
      (fix walk_members (m : members) : list (path * mval) :=
         match m with
         | [] => []
         | kv :: m' => (let (k, x) := kv in ([k], x) :: map (under k) (walk c false x)) ++ walk_members m'
         end) m
  | VObj m =>
      match c_embed c with
      | DictOnly => []
      | AnyMapping =>
          (fix walk_members (m : members) : list (path * mval) :=
             match m with
             | [] => []
             | kv :: m' => (let (k, x) := kv in ([k], x) :: map (under k) (walk c false x)) ++ walk_members m'
             end) m
      end
  | VList l =>
      if in_list && (match c_nest c with FlatLists => true | NestedLists => false end) then []
      else
        (fix walk_items (rest : list mval) (pos : nat) : list (path * mval) :=
           match rest with
           | [] => []
           | it :: rest' =>
               (let seg := idx_seg (item_index c l it pos) in ([seg], it) :: map (under seg) (walk c true it))
               ++ walk_items rest' (S pos)
           end) l 0
  | _ => []
  end.

Definition walk_members (c : cfg) : members -> list (path * mval) :=
  fix walk_members (m : members) : list (path * mval) :=
    match m with
    | [] => []
    | kv :: m' => (let (k, x) := kv in ([k], x) :: map (under k) (walk c false x)) ++ walk_members m'
    end.

Definition walk_items (c : cfg) (l : list mval) : list mval -> nat -> list (path * mval) :=
  fix walk_items (rest : list mval) (pos : nat) : list (path * mval) :=
    match rest with
    | [] => []
    | it :: rest' =>
        (let seg := idx_seg (item_index c l it pos) in ([seg], it) :: map (under seg) (walk c true it))
        ++ walk_items rest' (S pos)
    end.

(* iterpath(obj): obj.items() is called on the top-level object whatever its
   class, so the top level is always walked.  (sorted() only fixes the order of
   enumeration, which no caller observes: _evaluate_expression needs existence.) *)
Definition iterpath (c : cfg) (top : members) : list (path * mval) := walk_members c top.

Fixpoint join_dot (p : path) : ustring :=
  match p with
  | [] => []
  | [a] => a
  | a :: p' => a ++ dot :: join_dot p'
  end.

Definition accepts (c : cfg) (v : mval) : bool :=
  match c_falsy c with AnyValue => true | TruthyOnly => truthy v end.

(* _evaluate_expression: [value] of the first yielded path that equals the selector (and, pinned, is truthy) *)
Definition evaluate_expression (c : cfg) (top : members) (sel : ustring) : list mval :=
  match find (fun pv => ustr_eqb (join_dot (fst pv)) sel && accepts c (snd pv)) (iterpath c top) with
  | Some pv => [snd pv]
  | None => []
  end.

Definition validate_selector (c : cfg) (top : members) (sel : ustring) : bool :=
  1 <=? List.length (evaluate_expression c top sel).

(* validate: true = returns, false = raises InvalidSelectorError *)
Definition validate (c : cfg) (top : members) (sels : list ustring) : bool :=
  match sels with
  | [] => false
  | _ => forallb (validate_selector c top) sels
  end.

(* ------------------------------------------------------------------ *)
(* String helpers                                                      *)

Fixpoint mem_ustr (x : ustring) (l : list ustring) : bool :=
  match l with
  | [] => false
  | y :: l' => ustr_eqb x y || mem_ustr x l'
  end.

Fixpoint list_ustr_eqb (a b : list ustring) : bool :=
  match a, b with
  | [], [] => true
  | x :: a', y :: b' => ustr_eqb x y && list_ustr_eqb a' b'
  | _, _ => false
  end.

(* sorted(l) on str: ascending by code points (insertion sort; ties are equal strings) *)
Fixpoint insert_sorted (x : ustring) (l : list ustring) : list ustring :=
  match l with
  | [] => [x]
  | y :: l' => if ustr_ltb y x then y :: insert_sorted x l' else x :: l
  end.
Definition py_sorted (l : list ustring) : list ustring := fold_right insert_sorted [] l.

(* sorted(set(l)) *)
Fixpoint insert_uniq (x : ustring) (l : list ustring) : list ustring :=
  match l with
  | [] => [x]
  | y :: l' => match ustr_compare x y with
               | Lt => x :: l
               | Eq => l
               | Gt => y :: insert_uniq x l'
               end
  end.
Definition sorted_set (l : list ustring) : list ustring := fold_right insert_uniq [] l.

(* list(set(l)) up to order: first occurrences kept *)
Fixpoint dedupe (l : list ustring) : list ustring :=
  match l with
  | [] => []
  | x :: l' => x :: filter (fun y => negb (ustr_eqb x y)) (dedupe l')
  end.

(* s.split('--', 1)[0] if '--' in s else s *)
Fixpoint before_dashdash (s : ustring) : ustring :=
  match s with
  | 45%N :: ((45%N :: _) as _r) => []
  | x :: s' => x :: before_dashdash s'
  | [] => []
  end.

(* stix2.utils.is_marking on a string: its type prefix is "marking-definition" *)
Definition is_marking (s : ustring) : bool := ustr_eqb (before_dashdash s) (u "marking-definition").

(* s.split('.') *)
Fixpoint split_dot_aux (s : ustring) (cur : ustring) : list ustring :=
  match s with
  | [] => [rev cur]
  | x :: s' => if (x =? dot)%N then rev cur :: split_dot_aux s' [] else split_dot_aux s' (x :: cur)
  end.
Definition split_dot (s : ustring) : list ustring := split_dot_aux s [].

(* SELECTOR_REGEX = ^([a-z0-9_-]{3,250}(\.(\[\d+\]|[a-z0-9_-]{1,250}))*|id)$ used with re.match:
   `$` also matches before one trailing newline; \d is the Unicode decimal digits (nd_ranges).  Neither '.' nor '[' is in the
   character class, so matching is deterministic on the '.'-split.            *)
Definition is_lower_key_char (x : N) : bool :=
  ((97 <=? x) && (x <=? 122) || (48 <=? x) && (x <=? 57) || (x =? 95) || (x =? 45))%N.
Definition is_upper (x : N) : bool := ((65 <=? x) && (x <=? 90))%N.
(* \d of a str pattern: the decimal digits of Unicode (category Nd) as the running CPython's `re` sees
   them (Unicode 15.0: 64 ranges, 680 code points).  The table is compared on every run with what
   SELECTOR_REGEX accepts between the brackets, code point by code point (harness/props/c08.py). *)
Definition nd_ranges : list (N * N) := [
  (48,57); (1632,1641); (1776,1785); (1984,1993); (2406,2415); (2534,2543); (2662,2671); (2790,2799);
  (2918,2927); (3046,3055); (3174,3183); (3302,3311); (3430,3439); (3558,3567); (3664,3673);
  (3792,3801); (3872,3881); (4160,4169); (4240,4249); (6112,6121); (6160,6169); (6470,6479);
  (6608,6617); (6784,6793); (6800,6809); (6992,7001); (7088,7097); (7232,7241); (7248,7257);
  (42528,42537); (43216,43225); (43264,43273); (43472,43481); (43504,43513); (43600,43609);
  (44016,44025); (65296,65305); (66720,66729); (68912,68921); (69734,69743); (69872,69881);
  (69942,69951); (70096,70105); (70384,70393); (70736,70745); (70864,70873); (71248,71257);
  (71360,71369); (71472,71481); (71904,71913); (72016,72025); (72784,72793); (73040,73049);
  (73120,73129); (73552,73561); (92768,92777); (92864,92873); (93008,93017); (120782,120831);
  (123200,123209); (123632,123641); (124144,124153); (125264,125273); (130032,130041)]%N.
Definition is_digit (x : N) : bool := existsb (fun r => (fst r <=? x) && (x <=? snd r))%N nd_ranges.

Definition key_chars_ok (c : cfg) (first : bool) (s : ustring) : bool :=
  forallb (fun x => is_lower_key_char x ||
                    (syntax_upper (c_syntax c) && negb first && is_upper x)) s.

Definition seg_first_ok (c : cfg) (s : ustring) : bool :=
  key_chars_ok c true s && (3 <=? List.length s) && (List.length s <=? 250).

Definition seg_index_ok (s : ustring) : bool :=
  match s with
  | 91%N :: rest =>
      match rev rest with
      | 93%N :: digits_rev => forallb is_digit digits_rev && negb (match digits_rev with [] => true | _ => false end)
      | _ => false
      end
  | _ => false
  end.

Definition seg_rest_ok (c : cfg) (s : ustring) : bool :=
  seg_index_ok s || (key_chars_ok c false s && (1 <=? List.length s) && (List.length s <=? 250)).

Definition strip_final_newline (s : ustring) : ustring :=
  match rev s with
  | 10%N :: r => rev r
  | _ => s
  end.

Definition selector_syntax_ok (c : cfg) (s : ustring) : bool :=
  let s' := if syntax_dollar (c_syntax c) then strip_final_newline s else s in
  ustr_eqb s' (u "id") ||
  match split_dot s' with
  | first :: rest => seg_first_ok c first && forallb (seg_rest_ok c) rest
  | [] => false
  end.

(* ------------------------------------------------------------------ *)
(* Granular markings: {selectors, marking_ref, lang}; "" stands for an absent
   (or blanked) marking_ref / lang -- the code only ever tests their truth.   *)

Record gm := mkgm { g_sels : list ustring; g_ref : ustring; g_lang : ustring }.

Definition gm_eqb (a b : gm) : bool :=
  list_ustr_eqb (g_sels a) (g_sels b) && ustr_eqb (g_ref a) (g_ref b) && ustr_eqb (g_lang a) (g_lang b).
Fixpoint mem_gm (x : gm) (l : list gm) : bool :=
  match l with [] => false | y :: l' => gm_eqb x y || mem_gm x l' end.

Definition expand_one (g : gm) : list gm :=
  (if nonempty (g_ref g) then map (fun s => mkgm [s] (g_ref g) []) (g_sels g) else []) ++
  (if nonempty (g_lang g) then map (fun s => mkgm [s] [] (g_lang g)) (g_sels g) else []).
Definition expand_markings (gs : list gm) : list gm := flat_map expand_one gs.

(* build_granular_marking(x).get('granular_markings') *)
Definition build_granular_marking (gs : list gm) : list gm := expand_markings gs.

(* the insertion-ordered defaultdict(set) of compress_markings *)
Definition amap := list (ustring * list ustring).
Fixpoint amap_update (k : ustring) (sels : list ustring) (m : amap) : amap :=
  match m with
  | [] => [(k, sels)]
  | (k', ss) :: m' => if ustr_eqb k k' then (k', ss ++ sels) :: m' else (k', ss) :: amap_update k sels m'
  end.
Definition compress_step (m : amap) (g : gm) : amap :=
  let m1 := if nonempty (g_ref g) then amap_update (g_ref g) (g_sels g) m else m in
  if nonempty (g_lang g) then amap_update (g_lang g) (g_sels g) m1 else m1.
Definition compress_entry (kv : ustring * list ustring) : gm :=
  if is_marking (fst kv) then mkgm (sorted_set (snd kv)) (fst kv) [] else mkgm (sorted_set (snd kv)) [] (fst kv).

(* compress_markings: None when the argument is empty/None *)
Definition compress_markings (gs : list gm) : option (list gm) :=
  match gs with
  | [] => None
  | _ => Some (map compress_entry (fold_left compress_step gs []))
  end.

(* ------------------------------------------------------------------ *)
(* Objects as the marking functions see them                           *)

Inductive okind := KDict | KObj.       (* a plain dict  /  a constructed _STIXBase object *)

Record sobj := mkobj {
  o_kind : okind;
  o_v21 : bool;      (* KObj: the class is a 2.1 class (its GranularMarking has `lang`) *)
  o_vtype : bool;    (* the object's type supports created/modified/revoked (what _is_versionable_type finds
                        in the class registry; an input here) *)
  o_props : members; (* every property except object_marking_refs and granular_markings *)
  o_omr : option (list ustring);
  o_gms : option (list gm) }.

Inductive err := EInvalidSelector | EMarkingNotFound | ETypeNotVersionable | EObjectNotVersionable
               | ERevoked | EInvalidValue.
Inductive outcome (A : Type) := Ok (a : A) | Err (e : err).
Arguments Ok {A} a.
Arguments Err {A} e.

Definition omr_list (o : sobj) : list ustring := match o_omr o with Some l => l | None => [] end.   (* .get(..., []) *)
Definition gms_list (o : sobj) : list gm := match o_gms o with Some l => l | None => [] end.

Definition gm_val (k : okind) (g : gm) : mval :=
  let ms := (if nonempty (g_ref g) then [(u "marking_ref", VStr (g_ref g))] else []) ++
            (if nonempty (g_lang g) then [(u "lang", VStr (g_lang g))] else []) ++
            [(u "selectors", VList (map VStr (g_sels g)))] in
  match k with KDict => VDict ms | KObj => VObj ms end.

(* the object as a mapping (what iterpath walks) *)
Definition view (o : sobj) : members :=
  o_props o ++
  (match o_omr o with Some l => [(u "object_marking_refs", VList (map VStr l))] | None => [] end) ++
  (match o_gms o with Some gs => [(u "granular_markings", VList (map (gm_val (o_kind o)) gs))] | None => [] end).

(* _check_versionable_object, then the `revoked` test of new_version *)
Definition check_versionable (o : sobj) : option err :=
  let t := view o in
  if has_key (u "created") t && has_key (u "modified") t && has_key (u "revoked") t then None
  else if negb (o_vtype o) then Some ETypeNotVersionable
  else if negb (has_key (u "created") t) then Some EObjectNotVersionable
  else None.

Definition is_revoked (o : sobj) : bool :=
  match lookup (u "revoked") (o_props o) with Some v => truthy v | None => false end.

Fixpoint set_prop (k : ustring) (v : mval) (m : members) : members :=
  match m with
  | [] => [(k, v)]
  | (k', v') :: m' => if ustr_eqb k k' then (k, v) :: m' else (k', v') :: set_prop k v m'
  end.

Definition is_null (v : mval) : bool := match v with VNull => true | _ => false end.

(* v20.Indicator overrides _check_object_constraints; pinned, the override does
   not call the base method, so granular-marking selectors are never validated *)
Definition skips_selector_check (c : cfg) (o : sobj) : bool :=
  match c_ind20 c, o_kind o with
  | Ind20Unchecked, KObj =>
      negb (o_v21 o) && match lookup (u "type") (o_props o) with
                        | Some (VStr t) => ustr_eqb t (u "indicator")
                        | _ => false
                        end
  | _, _ => false
  end.

(* What the constructor re-checks when new_version rebuilds a _STIXBase object
   (marking ids are assumed well formed: marking-definition ids or language tags):
   property cleaning first (InvalidValueError), then _check_object_constraints. *)
Definition ctor_check (c : cfg) (o : sobj) : option err :=
  match o_kind o with
  | KDict => None
  | KObj =>
      if negb (forallb is_marking (omr_list o)) then Some EInvalidValue
      else if negb (forallb (fun g => forallb (selector_syntax_ok c) (g_sels g)
                                     && (o_v21 o || negb (nonempty (g_lang g)))
                                     && negb (match g_sels g with [] => true | _ => false end)) (gms_list o))
      then Some EInvalidValue
      else if skips_selector_check c o then None
      else if negb (forallb (fun g => validate c (view o) (g_sels g)) (gms_list o)) then Some EInvalidSelector
      else None
  end.

Definition new_time : mval := VTime (u "new").

(* new_version(obj, object_marking_refs=..|granular_markings=.., allow_custom=True):
   upd gives the new (omr, gms); None = the property is removed. *)
Definition new_version (c : cfg) (o : sobj) (omr' : option (list ustring)) (gms' : option (list gm)) : outcome sobj :=
  match check_versionable o with
  | Some e => Err e
  | None =>
      if is_revoked o then Err ERevoked
      else
        let props1 := set_prop (u "modified") new_time (o_props o) in
        (* `{k: v for k, v in new_obj_inner.items() if v is not None}` *)
        let props2 := filter (fun kv => negb (is_null (snd kv))) props1 in
        (* the constructor drops [] valued properties (`prop_val not in (None, [])`) *)
        let omr2 := match o_kind o, omr' with KObj, Some [] => None | _, x => x end in
        let gms2 := match o_kind o, gms' with KObj, Some [] => None | _, x => x end in
        let o' := mkobj (o_kind o) (o_v21 o) (o_vtype o) props2 omr2 gms2 in
        match ctor_check c o' with
        | Some e => Err e
        | None => Ok o'
        end
  end.

(* ------------------------------------------------------------------ *)
(* granular_markings.py                                                *)

(* user_selector.startswith(marking_selector) -- pinned; the repaired form
   tests for the ancestor on the path tree: startswith(marking_selector + '.') *)
Definition starts (c : cfg) (s pre : ustring) : bool :=
  match c_inherit c with
  | ByPrefix => ustr_prefix pre s
  | ByPathTree => ustr_prefix (pre ++ [dot]) s
  end.

Definition sel_match (c : cfg) (inherited descendants : bool) (user mk : ustring) : bool :=
  ustr_eqb user mk || (starts c user mk && inherited) || (starts c mk user && descendants).

Definition g_get_markings (c : cfg) (o : sobj) (sels : list ustring)
           (inherited descendants marking_ref lang : bool) : outcome (list ustring) :=
  if negb (validate c (view o) sels) then Err EInvalidSelector
  else Ok (flat_map (fun g =>
             flat_map (fun us =>
               flat_map (fun ms =>
                 if sel_match c inherited descendants us ms
                 then (if nonempty (g_ref g) && marking_ref then [g_ref g] else []) ++
                      (if nonempty (g_lang g) && lang then [g_lang g] else [])
                 else []) (g_sels g)) sels) (gms_list o)).

(* marking = [] stands for both None and the empty list (both falsy) *)
Definition g_is_marked (c : cfg) (o : sobj) (marking : list ustring) (sels : list ustring)
           (inherited descendants : bool) : outcome bool :=
  if negb (validate c (view o) sels) then Err EInvalidSelector
  else
    let hits := flat_map (fun g =>
                  flat_map (fun us =>
                    flat_map (fun ms => if sel_match c inherited descendants us ms then [g] else []) (g_sels g))
                  sels) (gms_list o) in
    let found := flat_map (fun g => (if mem_ustr (g_ref g) marking then [g_ref g] else []) ++
                                    (if mem_ustr (g_lang g) marking then [g_lang g] else [])) hits in
    match marking with
    | [] => Ok (match hits with [] => false | _ => true end)
    | _ => Ok (forallb (fun m => mem_ustr m found) marking)
    end.

Definition tag_marking (sels : list ustring) (m : ustring) : gm :=
  if is_marking m then mkgm sels m [] else mkgm sels [] m.

Definition g_add_markings (c : cfg) (o : sobj) (marking sels : list ustring) : outcome sobj :=
  if negb (validate c (view o) sels) then Err EInvalidSelector
  else
    let fresh := map (tag_marking (py_sorted sels)) marking in
    let all := fresh ++ gms_list o in
    new_version c o (o_omr o) (compress_markings (expand_markings all)).

Definition g_remove_markings (c : cfg) (o : sobj) (marking sels : list ustring) : outcome sobj :=
  if negb (validate c (view o) sels) then Err EInvalidSelector
  else
    match gms_list o with
    | [] => Ok o
    | gs =>
        let ex := expand_markings gs in
        let remove := build_granular_marking (map (tag_marking sels) marking) in
        if negb (existsb (fun r => mem_gm r ex) remove) then Err EMarkingNotFound
        else
          let kept := filter (fun g => negb (mem_gm g remove)) ex in
          match compress_markings kept with
          | Some (x :: l) => new_version c o (o_omr o) (Some (x :: l))
          | _ => new_version c o (o_omr o) None
          end
    end.

Definition g_clear_markings (c : cfg) (o : sobj) (sels : list ustring) (marking_ref lang : bool) : outcome sobj :=
  if negb (validate c (view o) sels) then Err EInvalidSelector
  else
    match gms_list o with
    | [] => Ok o
    | gs =>
        let ex := expand_markings gs in
        if negb (existsb (fun cs => existsb (fun g => mem_ustr cs (g_sels g)) ex) sels) then Err EMarkingNotFound
        else
          let blank := fun g =>
            if existsb (fun s => mem_ustr s (g_sels g)) sels
            then mkgm (g_sels g)
                      (if nonempty (g_ref g) && marking_ref then [] else g_ref g)
                      (if nonempty (g_lang g) && lang then [] else g_lang g)
            else g in
          match compress_markings (map blank ex) with
          | Some (x :: l) => new_version c o (o_omr o) (Some (x :: l))
          | _ => new_version c o (o_omr o) None
          end
    end.

Definition g_set_markings (c : cfg) (o : sobj) (marking sels : list ustring) (marking_ref lang : bool) : outcome sobj :=
  match g_clear_markings c o sels marking_ref lang with
  | Err e => Err e
  | Ok o' => g_add_markings c o' marking sels
  end.

(* ------------------------------------------------------------------ *)
(* object_markings.py                                                  *)

Definition o_get_markings (o : sobj) : list ustring := omr_list o.

Definition o_add_markings (c : cfg) (o : sobj) (marking : list ustring) : outcome sobj :=
  new_version c o (Some (dedupe (omr_list o ++ marking))) (o_gms o).

Definition o_remove_markings (c : cfg) (o : sobj) (marking : list ustring) : outcome sobj :=
  match omr_list o with
  | [] => Ok o
  | cur =>
      if existsb (fun x => negb (mem_ustr x cur)) marking then Err EMarkingNotFound
      else match filter (fun x => negb (mem_ustr x marking)) cur with
           | [] => new_version c o None (o_gms o)
           | l => new_version c o (Some l) (o_gms o)
           end
  end.

Definition o_clear_markings (c : cfg) (o : sobj) : outcome sobj := new_version c o None (o_gms o).

Definition o_set_markings (c : cfg) (o : sobj) (marking : list ustring) : outcome sobj :=
  match o_clear_markings c o with
  | Err e => Err e
  | Ok o' => o_add_markings c o' marking
  end.

Definition o_is_marked (o : sobj) (marking : list ustring) : bool :=
  match marking with
  | [] => match omr_list o with [] => false | _ => true end
  | _ => existsb (fun x => mem_ustr x (omr_list o)) marking
  end.

(* ------------------------------------------------------------------ *)
(* markings/__init__.py: selectors = None means object level           *)

Definition get_markings (c : cfg) (o : sobj) (sels : option (list ustring))
           (inherited descendants marking_ref lang : bool) : outcome (list ustring) :=
  match sels with
  | None => Ok (o_get_markings o)
  | Some ss =>
      match g_get_markings c o ss inherited descendants marking_ref lang with
      | Err e => Err e
      | Ok r => Ok (if inherited then r ++ o_get_markings o else r)
      end
  end.

Definition add_markings c o marking (sels : option (list ustring)) : outcome sobj :=
  match sels with None => o_add_markings c o marking | Some ss => g_add_markings c o marking ss end.
Definition remove_markings c o marking (sels : option (list ustring)) : outcome sobj :=
  match sels with None => o_remove_markings c o marking | Some ss => g_remove_markings c o marking ss end.
Definition clear_markings c o (sels : option (list ustring)) (marking_ref lang : bool) : outcome sobj :=
  match sels with None => o_clear_markings c o | Some ss => g_clear_markings c o ss marking_ref lang end.
Definition set_markings c o marking (sels : option (list ustring)) (marking_ref lang : bool) : outcome sobj :=
  match sels with None => o_set_markings c o marking | Some ss => g_set_markings c o marking ss marking_ref lang end.

Definition is_marked (c : cfg) (o : sobj) (marking : list ustring) (sels : option (list ustring))
           (inherited descendants : bool) : outcome bool :=
  match sels with
  | None => Ok (o_is_marked o marking)
  | Some ss =>
      match g_is_marked c o marking ss inherited descendants with
      | Err e => Err e
      | Ok result =>
          if inherited then
            match c_api c with
            | SameMarking => Ok (result || o_is_marked o marking)
            | AnyObjectMarking =>
                match g_get_markings c o ss false false true true with
                | Err e => Err e
                | Ok granular_marks =>
                    let object_marks := o_get_markings o in
                    let result1 :=
                      match sorted_set granular_marks with
                      | [] => Ok result
                      | gmarks => g_is_marked c o gmarks ss inherited descendants
                      end in
                    match result1 with
                    | Err e => Err e
                    | Ok r1 => Ok (r1 || o_is_marked o object_marks)
                    end
                end
            end
          else Ok result
      end
  end.

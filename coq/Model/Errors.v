(* Model/Errors.v -- C17: exception-flow model of the code that runs OUTSIDE
   _STIXBase._check_property's generic `except Exception -> InvalidValueError`
   wrapper, over arbitrary JSON kinds, every dynamic operation typed.

   The model is set-valued (list monad): a function returns every outcome the
   code may produce; property cleaning is a black box that may return or raise
   anything and is seen only through the wrapper (`wrapped_clean`).  The
   implementation is tied by REFINEMENT: its outcome must be in the set.

   No proofs in this file.  Mirrors (pinned tree):
     stix2/exceptions.py                 -> kexn, kparent
     stix2/base.py  _check_property      -> check_property_wrapper
     stix2/utils.py _get_dict            -> get_dict
     stix2/utils.py detect_spec_version  -> detect
     stix2/registry.py class_for_type    -> class_for_type
     stix2/parsing.py                    -> dict_to_stix2, parse, parse_observable
     stix2/base.py  _STIXBase.__init__   -> base_init (ext_scan, custom_properties, ...)
     stix2/base.py  _Observable          -> check_ref, generate_id_outcomes
     stix2/markings/utils.py             -> validate_raw, check_tlp
     v20/v21 __init__ / _check_object_constraints overrides -> prehook / conshook
     stix2/datastore/memory.py _add      -> store_add                              *)
From Coq Require Import NArith ZArith List String Bool Ascii.
From V Require Import Base.UString Base.Json.
Import ListNotations.
Open Scope string_scope.

(* ------------------------------------------------------------------ *)
(* 1. exception classes                                                 *)

Inductive kexn :=
| K_BaseException | K_Exception | K_KeyboardInterrupt | K_SystemExit | K_GeneratorExit
| K_ValueError | K_UnicodeError | K_UnicodeDecodeError | K_UnicodeEncodeError | K_JSONDecodeError
| K_TypeError | K_AttributeError | K_LookupError | K_KeyError | K_IndexError
| K_RuntimeError | K_RecursionError | K_NotImplementedError | K_NameError | K_UnboundLocalError
| K_ArithmeticError | K_OverflowError | K_ZeroDivisionError | K_AssertionError | K_StopIteration
| K_OSError | K_MemoryError | K_Warning | K_DeprecationWarning
(* stix2/exceptions.py *)
| K_STIXError | K_ObjectConfigurationError | K_InvalidValueError | K_PropertyPresenceError
| K_MissingPropertiesError | K_ExtraPropertiesError | K_MutuallyExclusivePropertiesError
| K_DependentPropertiesError | K_AtLeastOnePropertyError | K_DictionaryKeyError | K_InvalidObjRefError
| K_InvalidSelectorError | K_TLPMarkingDefinitionError | K_ImmutableError | K_VersioningError
| K_UnmodifiablePropertyError | K_TypeNotVersionableError | K_ObjectNotVersionableError | K_RevokeError
| K_ParseError | K_CustomContentError | K_MarkingNotFoundError | K_STIXDeprecationWarning
| K_DuplicateRegistrationError.

Scheme Equality for kexn.

Definition kparent (k : kexn) : option kexn :=
  match k with
  | K_BaseException => None
  | K_Exception | K_KeyboardInterrupt | K_SystemExit | K_GeneratorExit => Some K_BaseException
  | K_ValueError | K_TypeError | K_AttributeError | K_LookupError | K_RuntimeError | K_NameError
  | K_ArithmeticError | K_AssertionError | K_StopIteration | K_OSError | K_MemoryError | K_Warning
  | K_STIXError => Some K_Exception
  | K_UnicodeError | K_JSONDecodeError => Some K_ValueError
  | K_UnicodeDecodeError | K_UnicodeEncodeError => Some K_UnicodeError
  | K_KeyError | K_IndexError => Some K_LookupError
  | K_RecursionError | K_NotImplementedError => Some K_RuntimeError
  | K_UnboundLocalError => Some K_NameError
  | K_OverflowError | K_ZeroDivisionError => Some K_ArithmeticError
  | K_DeprecationWarning => Some K_Warning
  | K_STIXDeprecationWarning => Some K_DeprecationWarning
  | K_ObjectConfigurationError | K_ImmutableError | K_VersioningError | K_RevokeError | K_ParseError
  | K_CustomContentError | K_MarkingNotFoundError | K_DuplicateRegistrationError => Some K_STIXError
  | K_InvalidValueError | K_PropertyPresenceError | K_DictionaryKeyError | K_InvalidObjRefError
  | K_InvalidSelectorError | K_TLPMarkingDefinitionError => Some K_ObjectConfigurationError
  | K_MissingPropertiesError | K_ExtraPropertiesError | K_MutuallyExclusivePropertiesError
  | K_DependentPropertiesError | K_AtLeastOnePropertyError => Some K_PropertyPresenceError
  | K_UnmodifiablePropertyError | K_TypeNotVersionableError | K_ObjectNotVersionableError => Some K_VersioningError
  end.

Definition kname (k : kexn) : string :=
  match k with
  | K_BaseException => "BaseException" | K_Exception => "Exception" | K_KeyboardInterrupt => "KeyboardInterrupt"
  | K_SystemExit => "SystemExit" | K_GeneratorExit => "GeneratorExit" | K_ValueError => "ValueError"
  | K_UnicodeError => "UnicodeError" | K_UnicodeDecodeError => "UnicodeDecodeError"
  | K_UnicodeEncodeError => "UnicodeEncodeError" | K_JSONDecodeError => "JSONDecodeError"
  | K_TypeError => "TypeError" | K_AttributeError => "AttributeError" | K_LookupError => "LookupError"
  | K_KeyError => "KeyError" | K_IndexError => "IndexError" | K_RuntimeError => "RuntimeError"
  | K_RecursionError => "RecursionError" | K_NotImplementedError => "NotImplementedError"
  | K_NameError => "NameError" | K_UnboundLocalError => "UnboundLocalError"
  | K_ArithmeticError => "ArithmeticError" | K_OverflowError => "OverflowError"
  | K_ZeroDivisionError => "ZeroDivisionError" | K_AssertionError => "AssertionError"
  | K_StopIteration => "StopIteration" | K_OSError => "OSError" | K_MemoryError => "MemoryError"
  | K_Warning => "Warning" | K_DeprecationWarning => "DeprecationWarning"
  | K_STIXError => "STIXError" | K_ObjectConfigurationError => "ObjectConfigurationError"
  | K_InvalidValueError => "InvalidValueError" | K_PropertyPresenceError => "PropertyPresenceError"
  | K_MissingPropertiesError => "MissingPropertiesError" | K_ExtraPropertiesError => "ExtraPropertiesError"
  | K_MutuallyExclusivePropertiesError => "MutuallyExclusivePropertiesError"
  | K_DependentPropertiesError => "DependentPropertiesError" | K_AtLeastOnePropertyError => "AtLeastOnePropertyError"
  | K_DictionaryKeyError => "DictionaryKeyError" | K_InvalidObjRefError => "InvalidObjRefError"
  | K_InvalidSelectorError => "InvalidSelectorError" | K_TLPMarkingDefinitionError => "TLPMarkingDefinitionError"
  | K_ImmutableError => "ImmutableError" | K_VersioningError => "VersioningError"
  | K_UnmodifiablePropertyError => "UnmodifiablePropertyError" | K_TypeNotVersionableError => "TypeNotVersionableError"
  | K_ObjectNotVersionableError => "ObjectNotVersionableError" | K_RevokeError => "RevokeError"
  | K_ParseError => "ParseError" | K_CustomContentError => "CustomContentError"
  | K_MarkingNotFoundError => "MarkingNotFoundError" | K_STIXDeprecationWarning => "STIXDeprecationWarning"
  | K_DuplicateRegistrationError => "DuplicateRegistrationError"
  end.

Definition all_kexn : list kexn :=
  [K_BaseException; K_Exception; K_KeyboardInterrupt; K_SystemExit; K_GeneratorExit; K_ValueError; K_UnicodeError;
   K_UnicodeDecodeError; K_UnicodeEncodeError; K_JSONDecodeError; K_TypeError; K_AttributeError; K_LookupError;
   K_KeyError; K_IndexError; K_RuntimeError; K_RecursionError; K_NotImplementedError; K_NameError;
   K_UnboundLocalError; K_ArithmeticError; K_OverflowError; K_ZeroDivisionError; K_AssertionError; K_StopIteration;
   K_OSError; K_MemoryError; K_Warning; K_DeprecationWarning; K_STIXError; K_ObjectConfigurationError;
   K_InvalidValueError; K_PropertyPresenceError; K_MissingPropertiesError; K_ExtraPropertiesError;
   K_MutuallyExclusivePropertiesError; K_DependentPropertiesError; K_AtLeastOnePropertyError; K_DictionaryKeyError;
   K_InvalidObjRefError; K_InvalidSelectorError; K_TLPMarkingDefinitionError; K_ImmutableError; K_VersioningError;
   K_UnmodifiablePropertyError; K_TypeNotVersionableError; K_ObjectNotVersionableError; K_RevokeError; K_ParseError;
   K_CustomContentError; K_MarkingNotFoundError; K_STIXDeprecationWarning; K_DuplicateRegistrationError].

(* An exception class is a known class or ANY class (user-defined, third
   party) derived from another class: the theorems quantify over all of them. *)
Inductive exn :=
| Known (k : kexn)
| Derived (name : N) (base : exn).

Fixpoint ksub_n (n : nat) (c a : kexn) : bool :=
  kexn_beq c a ||
  match n with
  | O => false
  | S n' => match kparent c with Some p => ksub_n n' p a | None => false end
  end.
Definition ksub := ksub_n 6.

Fixpoint subclass (c : exn) (a : kexn) : bool :=
  match c with
  | Known k => ksub k a
  | Derived _ b => subclass b a
  end.

(* the documented family: STIX error classes, ValueError (+subclasses), TypeError *)
Definition family (c : exn) : bool :=
  subclass c K_STIXError || subclass c K_ValueError || subclass c K_TypeError.

Definition is_exception (c : exn) : bool := subclass c K_Exception.


(* ------------------------------------------------------------------ *)
(* 2. sites: where an exception originates.  S_lib = an explicit raise of
   a family class or a typed builtin failure inside the family.  The others
   are the operations on raw input that can fail outside the family.      *)

Inductive site :=
| S_lib
| S_init_extensions_items      (* base.py __init__: extensions.items() *)
| S_init_extension_entry       (* base.py __init__: ext.get("extension_type") *)
| S_init_toplevel_props        (* base.py __init__: registered_ext_class._toplevel_properties *)
| S_init_custom_props_keys     (* base.py __init__: custom_props.keys() *)
| S_cons_custom_gm             (* base.py _check_object_constraints: m.get('selectors') on an uncleaned value *)
| S_ms20_precision             (* v20/common.py _should_set_millisecond: cr.precision *)
| S_d2s_extensions_items       (* parsing.py dict_to_stix2: stix_dict.get('extensions', {}).items() *)
| S_d2s_extension_entry        (* parsing.py dict_to_stix2: ext_def.get('extension_type', '') *)
| S_detect_objects             (* utils.py detect_spec_version: stix_dict["objects"] *)
| S_detect_type                (* utils.py detect_spec_version: stix_dict["type"] on a nested object *)
| S_tlp_definition             (* markings/utils.py check_tlp_marking: marking_obj["definition"] *)
| S_validator_crash20          (* v20/sdo.py Indicator: run_validator(pattern) outside the wrapper *)
| S_validator_crash21          (* v21/sdo.py Indicator: run_validator(pattern) outside the wrapper *)
| S_json_depth                 (* utils.py _get_dict: json.loads on a text nested beyond the interpreter's limit *)
| S_genid_number_range.        (* canonicalization/NumberToJson.py convert2Es6Format: float(value) of an integer beyond the range of a
                                  double, reached from _Observable._generate_id (id-less 2.1 observable), outside the wrapper *)

Scheme Equality for site.

Definition all_sites : list site :=
  [S_lib; S_init_extensions_items; S_init_extension_entry; S_init_toplevel_props; S_init_custom_props_keys;
   S_cons_custom_gm; S_ms20_precision; S_d2s_extensions_items; S_d2s_extension_entry; S_detect_objects;
   S_detect_type; S_tlp_definition; S_validator_crash20; S_validator_crash21; S_json_depth; S_genid_number_range].

Definition site_fn (s : site) : string :=
  match s with
  | S_lib => ""
  | S_init_extensions_items | S_init_extension_entry | S_init_toplevel_props | S_init_custom_props_keys =>
      "base._STIXBase.__init__"
  | S_cons_custom_gm => "base._STIXBase._check_object_constraints"
  | S_ms20_precision => "v20.common._should_set_millisecond"
  | S_d2s_extensions_items | S_d2s_extension_entry => "parsing.dict_to_stix2"
  | S_detect_objects | S_detect_type => "utils.detect_spec_version"
  | S_tlp_definition => "markings.utils.check_tlp_marking"
  | S_validator_crash20 => "v20.sdo.Indicator._check_object_constraints"
  | S_validator_crash21 => "v21.sdo.Indicator._check_object_constraints"
  | S_json_depth => "utils._get_dict"
  | S_genid_number_range => "canonicalization.NumberToJson.convert2Es6Format"
  end.

Definition site_tag (s : site) : string :=
  match s with
  | S_lib => "lib"
  | S_init_extensions_items => "init-extensions-nondict"
  | S_init_extension_entry => "init-extension-entry-nondict"
  | S_init_toplevel_props => "init-toplevel-props-missing"
  | S_init_custom_props_keys => "init-custom-properties-falsy-nondict"
  | S_cons_custom_gm => "constraints-custom-granular-markings"
  | S_ms20_precision => "v20-marking-created-precision"
  | S_d2s_extensions_items => "dict-to-stix2-extensions-nondict"
  | S_d2s_extension_entry => "dict-to-stix2-extension-entry-nondict"
  | S_detect_objects => "detect-bundle-without-objects"
  | S_detect_type => "detect-nested-object-without-type"
  | S_tlp_definition => "tlp-without-definition"
  | S_validator_crash20 => "indicator20-empty-pattern-validator-crash"
  | S_validator_crash21 => "indicator21-empty-pattern-validator-crash"
  | S_json_depth => "json-text-nesting-depth"
  | S_genid_number_range => "generate-id-huge-integer-overflowerror"
  end.

(* variant = which sites are guarded (true = repaired as in proposed_fixes/C17-*.diff) *)
Definition variant := site -> bool.

Definition repaired : variant := fun _ => true.
Definition pinned : variant := fun s => match s with S_lib => true | _ => false end.
(* the variant in which exactly the listed sites are unguarded *)
Definition unguarded_at (l : list site) : variant :=
  fun s => match s with S_lib => true | _ => negb (existsb (site_beq s) l) end.

Definition all_guarded (V : variant) : Prop := forall s, V s = true.

(* ------------------------------------------------------------------ *)
(* 3. outcome sets                                                       *)

Inductive res (A : Type) :=
| Val (a : A)
| Exc (e : exn) (s : site).
Arguments Val {A} a.
Arguments Exc {A} e s.

Definition M (A : Type) := list (res A).

Definition ret {A} (a : A) : M A := [Val a].
Definition raise {A} (k : kexn) (s : site) : M A := [Exc (Known k) s].
Definition fail {A} (k : kexn) : M A := raise k S_lib.      (* a raise inside the family *)
Definition bind {A B} (m : M A) (f : A -> M B) : M B :=
  flat_map (fun r => match r with Val a => f a | Exc e s => [Exc e s] end) m.
Definition seq {A} (m : M unit) (k : M A) : M A := bind m (fun _ => k).
(* continue, or raise one of the listed classes (all used with family classes) *)
Definition may (ks : list kexn) : M unit := Val tt :: map (fun k => Exc (Known k) S_lib) ks.
Definition when (b : bool) (m : M unit) : M unit := if b then m else ret tt.
Definition lift {A} (r : res A) : M A := [r].
(* an operation that fails with class k at site s on the pinned code and does `fixed` once the site is guarded *)
Definition guard {A} (V : variant) (s : site) (k : kexn) (fixed : M A) : M A :=
  if V s then fixed else raise k s.

(* an operation that MAY fail: with class k at site s on the unguarded code, with the family class kfix once guarded *)
Definition may_guard (V : variant) (s : site) (k kfix : kexn) : M unit :=
  Val tt :: (if V s then [Exc (Known kfix) S_lib] else [Exc (Known k) s]).

Notation "x <- m ;; k" := (bind m (fun x => k)) (at level 61, m at next level, right associativity).
Notation "m ;;; k" := (seq m k) (at level 61, right associativity).

(* ------------------------------------------------------------------ *)
(* 4. _check_property's wrapper (base.py)                                 *)

(* clean() returns, or raises e; `strfail` = what str(exc) raises when the wrapper words the reason
   (None: the exception's __str__ returns normally) *)
Inductive clean_result := CleanOk | CleanRaise (e : exn) (strfail : option exn).

(* try: clean() / except InvalidValueError: raise / except Exception: raise InvalidValueError *)
Definition check_property_wrapper (r : clean_result) : res unit :=
  match r with
  | CleanOk => Val tt
  | CleanRaise e sf =>
      if subclass e K_InvalidValueError then Exc e S_lib
      else if is_exception e then
        (* raise InvalidValueError(self.__class__, prop_name, reason=str(exc)) from exc -- str(exc) runs inside the handler *)
        match sf with None => Exc (Known K_InvalidValueError) S_lib | Some e' => Exc e' S_lib end
      else Exc e S_lib      (* KeyboardInterrupt etc. are not caught *)
  end.

(* ------------------------------------------------------------------ *)
(* 5. typed dynamic operations on raw JSON                                *)

Definition us (s : string) : ustring := u s.

Definition is_obj (j : jvalue) : bool := match j with JObj _ => true | _ => false end.
Definition is_str (j : jvalue) : bool := match j with JStr _ => true | _ => false end.
Definition hashable (j : jvalue) : bool := match j with JArr _ | JObj _ => false | _ => true end.

Definition float_is_zero (r : ustring) : bool :=
  ustr_eqb r (us "0.0") || ustr_eqb r (us "-0.0").

Definition truthy (j : jvalue) : bool :=
  match j with
  | JNull => false
  | JBool b => b
  | JInt z => negb (Z.eqb z 0)
  | JFloat r => negb (float_is_zero r)
  | JStr s => match s with [] => false | _ => true end
  | JArr l => match l with [] => false | _ => true end
  | JObj m => match m with [] => false | _ => true end
  end.

Definition otruthy (o : option jvalue) : bool := match o with Some v => truthy v | None => false end.

Definition str_is (j : jvalue) (s : ustring) : bool :=
  match j with JStr t => ustr_eqb t s | _ => false end.

Fixpoint ustr_contains_n (fuel : nat) (needle s : ustring) : bool :=
  ustr_prefix needle s ||
  match fuel, s with
  | S f, _ :: s' => ustr_contains_n f needle s'
  | _, _ => false
  end.
Definition ustr_contains (needle s : ustring) : bool := ustr_contains_n (List.length s) needle s.

Definition mem_key (k : ustring) (m : list (ustring * jvalue)) : bool :=
  match jlookup k m with Some _ => true | None => false end.

Definition mem_name (k : ustring) (l : list ustring) : bool := existsb (ustr_eqb k) l.

(* `"lit" in x` *)
Definition py_in (lit : ustring) (x : jvalue) : M bool :=
  match x with
  | JObj m => ret (mem_key lit m)
  | JArr l => ret (existsb (fun e => str_is e lit) l)
  | JStr s => ret (ustr_contains lit s)
  | _ => fail K_TypeError
  end.

(* an integer float() cannot take (|z| >= 2^1023 is used: the exact bound lies just below 2^1024), anywhere in the value *)
Fixpoint has_huge_int (v : jvalue) : bool :=
  match v with
  | JInt z => Z.leb (Z.pow 2 1023) (Z.abs z)
  | JArr l => (fix any (l : list jvalue) : bool := match l with [] => false | x :: r => has_huge_int x || any r end) l
  | JObj m => (fix any (m : list (ustring * jvalue)) : bool :=
                 match m with [] => false | (_, x) :: r => has_huge_int x || any r end) m
  | _ => false
  end.

(* `v not in (None, [])` *)
Definition kept (v : jvalue) : bool :=
  match v with JNull => false | JArr [] => false | _ => true end.

Fixpoint remove_key (k : ustring) (m : list (ustring * jvalue)) : list (ustring * jvalue) :=
  match m with
  | [] => []
  | (k', v) :: r => if ustr_eqb k k' then remove_key k r else (k', v) :: remove_key k r
  end.

Definition set_key (k : ustring) (v : jvalue) (m : list (ustring * jvalue)) : list (ustring * jvalue) :=
  if mem_key k m then map (fun kv => if ustr_eqb (fst kv) k then (k, v) else kv) m else m ++ [(k, v)].

Definition keys (m : list (ustring * jvalue)) : list ustring := map fst m.

(* ------------------------------------------------------------------ *)
(* 6. class descriptors and registries (instances are GENERATED from the
      live classes into Gen/C17Classes.v on every run)                    *)

Inductive refkind := RefNone | RefOne | RefMany.

(* what the slot's clean() does with a value, as far as the structural cleaner follows it *)
Inductive skind :=
| KLeaf                              (* any other property type: black box *)
| KEmbedded (ckey : string)          (* EmbeddedObjectProperty(type): a dict is passed to the class's constructor *)
| KListEmbedded (ckey : string)      (* ListProperty(class): every element that is a mapping is passed to the constructor *)
| KExtensions (v20 : bool)           (* ExtensionsProperty(spec_version): entries of registered extensions are constructed *)
| KStixObjects (v20 : bool)          (* ListProperty(STIXObjectProperty(spec_version)): every element is parsed (Bundle.objects) *)
| KObservables (v20 : bool)          (* ObservableProperty(spec_version): every member is parsed as an observable *)
| KDict (v20 : bool).                (* DictionaryProperty(spec_version) itself: only the keys are vetted *)

Record slot := { s_name : ustring; s_required : bool; s_default : bool; s_ref : refkind; s_kind : skind }.

(* The cleaning of one slot as the rest of the model sees it: arguments are the effective allow_custom, the
   `interoperability` flag _check_property hands to clean() of certain property types, the slot, and the raw value
   (None = the property's default value).  Instances:
   - `clean_any`: the set {Ok, InvalidValueError};
   - `clean_via cl`: the wrapper applied to an arbitrary black box `cl`, used in the theorems;
   - `clean_struct` (section 13): embedded-object slots constructed with this same model, everything else as clean_any. *)
Definition cleaner := bool -> bool -> slot -> option jvalue -> M unit.
Definition clean_any : cleaner := fun _ _ _ _ => may [K_InvalidValueError].
Definition blackbox := bool -> bool -> slot -> option jvalue -> clean_result.
(* the hypothesis of the theorems about an arbitrary black box: clean() raises Exception subclasses only
   (KeyboardInterrupt ... pass through by design) and their __str__ is total *)
Definition well_behaved (cl : blackbox) : Prop :=
  forall ac io s ov e sf, cl ac io s ov = CleanRaise e sf -> is_exception e = true /\ sf = None.

Definition clean_via (cl : blackbox) : cleaner := fun ac io s v => lift (check_property_wrapper (cl ac io s v)).


Inductive bkind := BPlain | BObs20 | BObs21 | BExt.

(* __init__ overrides (v20/v21), most derived first *)
Inductive prehook :=
| PreMarkingDef20            (* v20/common.py MarkingDefinition.__init__ *)
| PreMarkingDef21            (* v21/common.py MarkingDefinition.__init__ *)
| PreAliases (names : list ustring)   (* named parameters copied back only when truthy:
                                         StatementMarking(statement), Relationship(source_ref, relationship_type,
                                         target_ref), Sighting(sighting_of_ref) *)
| PreCustom (with_ext : bool) (* custom.py _CustomObject/_CustomObservable/_CustomMarking/_CustomExtension.__init__ around a user
                                 class WITHOUT its own __init__: base __init__, then (with_extension set, not 2.0) the
                                 registered extension class is instantiated without arguments and stored *)
| PreNoop                    (* Bundle (positional args), Indicator 2.1 (pattern_version default), ObservedData 2.1 (warning) *)
| PreUnknown.                (* an __init__ override the model does not know: may raise anything *)

(* _check_object_constraints bodies, flattened by the generator into the order in which the checks run *)
Inductive conshook :=
| ConsBase                               (* base.py _STIXBase: validate(self, m.get('selectors')) per granular marking *)
| ConsAtLeastOne (names : list ustring)  (* _check_at_least_one_property(names): presence only *)
| ConsAtLeastOneDefault                  (* _check_at_least_one_property(): all properties but the excepted ones *)
| ConsMutex (names : list ustring) (at_least_one : bool)   (* _check_mutually_exclusive_properties *)
| ConsMay (ks : list kexn)               (* a test on CLEANED values that may raise one of these family classes *)
| ConsTLP20                              (* check_tlp_marking(self, '2.0') *)
| ConsMarkingDef21                       (* presence test + check_tlp_marking(self, '2.1') *)
| ConsIndicator20                        (* run_validator(pattern, '2.0') *)
| ConsIndicator21                        (* if pattern_type == 'stix': run_validator(pattern, pattern_version) *)
| ConsUnknown.                           (* an override the model does not know: may raise anything *)

Record cls := {
  c_key : string;             (* e.g. "v21.sdo.Identity" *)
  c_ver20 : bool;             (* isinstance(self, stix2.v20._STIXBase20) *)
  c_kind : bkind;
  c_slots : list slot;
  c_pre : list prehook;
  c_cons : list conshook }.

Record extreg := { x_name : ustring; x_toplevel : option (list slot);    (* None: no _toplevel_properties attribute *)
                   x_cls : option cls }.                                  (* the registered extension class *)

Record registry := {
  r_objects20 : list (ustring * cls); r_observables20 : list (ustring * cls); r_markings20 : list (ustring * cls);
  r_objects21 : list (ustring * cls); r_observables21 : list (ustring * cls); r_markings21 : list (ustring * cls);
  r_extensions21 : list extreg; r_extensions20 : list extreg }.

Fixpoint alookup {A} (k : ustring) (l : list (ustring * A)) : option A :=
  match l with
  | [] => None
  | (k', v) :: r => if ustr_eqb k k' then Some v else alookup k r
  end.

Definition find_ext (R : registry) (k : ustring) : option extreg :=
  find (fun x => ustr_eqb (x_name x) k) (r_extensions21 R).

(* no hook the model does not know *)
Definition pre_known (p : prehook) : bool := match p with PreUnknown => false | _ => true end.
Definition cons_known (c : conshook) : bool :=
  match c with
  | ConsUnknown => false
  | ConsMay ks => forallb (fun k => family (Known k)) ks      (* only family classes may be listed *)
  | _ => true
  end.
Definition cls_known (c : cls) : bool := forallb pre_known (c_pre c) && forallb cons_known (c_cons c).
Definition tbl_known (t : list (ustring * cls)) : bool := forallb (fun kc => cls_known (snd kc)) t.
Definition reg_known (R : registry) : bool :=
  tbl_known (r_objects20 R) && tbl_known (r_observables20 R) && tbl_known (r_markings20 R) &&
  tbl_known (r_objects21 R) && tbl_known (r_observables21 R) && tbl_known (r_markings21 R).

Inductive category := CatObjects | CatObservables.

(* registry.py class_for_type(stix_type, stix_version, category): both
   arguments are raw values here (version may come from a spec_version property) *)
Definition class_for_type (R : registry) (ty ver : jvalue) (cat : category) : M (option cls) :=
  if negb (hashable ver) then fail K_TypeError
  else
    let tbl := if str_is ver (us "2.0") then Some (match cat with CatObjects => r_objects20 R | CatObservables => r_observables20 R end)
               else if str_is ver (us "2.1") then Some (match cat with CatObjects => r_objects21 R | CatObservables => r_observables21 R end)
               else None in
    match tbl with
    | None => ret None
    | Some t =>
        if negb (hashable ty) then fail K_TypeError
        else match ty with JStr s => ret (alookup s t) | _ => ret None end
    end.

(* ------------------------------------------------------------------ *)
(* 7. utils.py _get_dict                                                  *)

(* json.loads on a text *)
Inductive textres := TDecoded (j : jvalue) | TBad | TTooDeep.
Definition decoder := ustring -> textres.

Definition pair_of (e : jvalue) : option (jvalue * jvalue) :=
  match e with
  | JStr [a; b] => Some (JStr [a], JStr [b])
  | JArr [a; b] => Some (a, b)
  | JObj [(k1, _); (k2, _)] => Some (JStr k1, JStr k2)
  | _ => None
  end.

(* dict(list of pairs): None = ValueError/TypeError (both reported as ValueError by _get_dict) *)
Fixpoint dict_of_pairs (l : list jvalue) (acc : list (ustring * jvalue)) (nonstr : bool)
  : option (list (ustring * jvalue) * bool) :=
  match l with
  | [] => Some (acc, nonstr)
  | e :: r =>
      match pair_of e with
      | None => None
      | Some (k, v) =>
          if negb (hashable k) then None
          else match k with
               | JStr s => dict_of_pairs r (set_key s v acc) nonstr
               | _ => dict_of_pairs r acc true
               end
      end
  end.

(* value, and whether the dict has a key that is not a string (then `**d` is a TypeError) *)
Definition decode_text (V : variant) (tr : textres) : M (jvalue * bool) :=
  match tr with
  | TDecoded j => ret (j, false)
  | TBad => fail K_JSONDecodeError
  | TTooDeep => guard V S_json_depth K_RecursionError (fail K_ValueError)
  end.

Definition get_dict (V : variant) (dec : decoder) (x : jvalue) : M (jvalue * bool) :=
  match x with
  | JObj _ => ret (x, false)
  | JStr s => decode_text V (dec s)
  | JArr l => match dict_of_pairs l [] false with
              | Some (m, ns) => ret (JObj m, ns)
              | None => fail K_ValueError
              end
  | _ => fail K_ValueError
  end.

(* ------------------------------------------------------------------ *)
(* 8. utils.py detect_spec_version                                        *)

(* max() of two version values: strings compare by code point; any other
   combination either is a TypeError or (numbers, lists) picks one of them *)
Definition py_max2 (a b : jvalue) : M jvalue :=
  match a, b with
  | JStr x, JStr y => ret (if ustr_ltb x y then b else a)
  | _, _ => [Exc (Known K_TypeError) S_lib; Val a; Val b]
  end.

(* max(generator): elements are evaluated and compared one at a time, the first exception wins *)
Fixpoint max_seq (rs : list (M jvalue)) (acc : option jvalue) : M (option jvalue) :=
  match rs with
  | [] => ret acc
  | r :: rest =>
      v <- r ;;
      match acc with
      | None => max_seq rest (Some v)
      | Some a => w <- py_max2 a v ;; max_seq rest (Some w)
      end
  end.

Section Detect.
  Variable V : variant.
  Variable obs21 : list (ustring * cls).     (* STIX2_OBJ_MAPS["2.1"]["observables"] *)

  (* what `detect_spec_version(obj) for obj in <objects>` yields, given the results for list elements *)
  Definition objects_results (objs : jvalue) (elems : list (M jvalue)) : option (list (M jvalue)) :=
    match objs with
    | JArr _ => Some elems
    | JStr s => Some (map (fun _ => fail K_TypeError) s)       (* "c"["type"] *)
    | JObj mm => Some (map (fun _ => fail K_TypeError) mm)     (* iterating keys: strings *)
    | _ => None                                                (* not iterable *)
    end.

  Definition bundle_version (objs : option (jvalue * list (M jvalue))) : M jvalue :=
    match objs with
    | None => guard V S_detect_objects K_KeyError (ret (JStr (us "2.1")))
    | Some (o, elems) =>
        match objects_results o elems with
        | None => fail K_TypeError
        | Some rs =>
            inner <- max_seq rs None ;;
            match inner with
            | None => if V S_detect_objects then ret (JStr (us "2.1")) else fail K_ValueError   (* max() of nothing *)
            | Some w => py_max2 (JStr (us "2.1")) w
            end
        end
    end.

  Fixpoint detect (j : jvalue) : M jvalue :=
    match j with
    | JObj m =>
        let objs := (fix find (m : list (ustring * jvalue)) : option (jvalue * list (M jvalue)) :=
                       match m with
                       | [] => None
                       | (k, v) :: rest =>
                           if ustr_eqb (us "objects") k then
                             Some (v, match v with
                                      | JArr l => (fix each (l : list jvalue) : list (M jvalue) :=
                                                     match l with [] => [] | x :: r => detect x :: each r end) l
                                      | _ => []
                                      end)
                           else find rest
                       end) m in
        match jlookup (us "type") m with
        | None => guard V S_detect_type K_KeyError (fail K_ParseError)
        | Some ty =>
            match jlookup (us "spec_version") m with
            | Some sv => if str_is ty (us "bundle") then ret (JStr (us "2.0")) else ret sv
            | None =>
                if negb (mem_key (us "id") m) then ret (JStr (us "2.0"))
                else if str_is ty (us "bundle") then bundle_version objs
                else if negb (hashable ty) then fail K_TypeError
                else match ty with
                     | JStr s => ret (JStr (us (match alookup s obs21 with Some _ => "2.1" | None => "2.0" end)))
                     | _ => ret (JStr (us "2.0"))
                     end
            end
        end
    | _ => fail K_TypeError    (* stix_dict["type"] on a str / list / number *)
    end.
End Detect.

(* ------------------------------------------------------------------ *)
(* 9. base.py _STIXBase.__init__                                          *)

Definition prefix21 (n : ustring) : bool :=       (* PREFIX_21_REGEX = ^[a-z].* *)
  match n with c :: _ => (97 <=? c)%N && (c <=? 122)%N | [] => false end.

Definition ustr_suffix (suf s : ustring) : bool := ustr_prefix (rev suf) (rev s).

Definition find_slot (n : ustring) (l : list slot) : option slot := find (fun s => ustr_eqb (s_name s) n) l.

(* insertion sort on names (sorted(all_custom_prop_names)) *)
Fixpoint ins_name (x : ustring) (l : list ustring) : list ustring :=
  match l with
  | [] => [x]
  | y :: r => if ustr_ltb y x then y :: ins_name x r else x :: l
  end.
Definition sort_names (l : list ustring) : list ustring := fold_right ins_name [] l.

Fixpoint dedup_names (l : list ustring) : list ustring :=
  match l with
  | [] => []
  | x :: r => if mem_name x r then dedup_names r else x :: dedup_names r
  end.

Section Init.
  Variable V : variant.
  Variable R : registry.
  Variable clean : cleaner.
  Variable strictext : bool. (* base.py: an unregistered toplevel-property-extension only vouches for extra properties on a
                                class that has an `extensions` property (true from fix 2c41d60 on) *)
  Variable refuse : bool.   (* parsing.py _refuse_unrequested_custom present (true from fix c6e00f7 on) *)

  (* the scan of `extensions` for toplevel-property-extension entries:
     (registered toplevel slots, has_unregistered_toplevel_extension) *)
  Fixpoint scan_entries (hasext : bool) (m : list (ustring * jvalue)) (tl : list slot) (unreg : bool) : M (list slot * bool) :=
    match m with
    | [] => ret (tl, unreg)
    | (k, e) :: r =>
        match e with
        | JObj em =>
            if match jlookup (us "extension_type") em with
               | Some t => str_is t (us "toplevel-property-extension") | None => false end
            then match find_ext R k with
                 | Some x => match x_toplevel x with
                             | Some sl => scan_entries hasext r (sl ++ tl)%list unreg
                             | None => guard V S_init_toplevel_props K_AttributeError (scan_entries hasext r tl unreg)
                             end
                 | None => scan_entries hasext r tl (if strictext then hasext || unreg else true)
                 end
            else scan_entries hasext r tl unreg
        | _ => guard V S_init_extension_entry K_AttributeError (scan_entries hasext r tl unreg)
        end
    end.

  Definition ext_scan (hasext : bool) (ext : option jvalue) : M (list slot * bool) :=
    match ext with
    | None => ret ([], false)
    | Some e =>
        if negb (truthy e) then ret ([], false)
        else match e with
             | JObj m => scan_entries hasext m [] false
             | _ => guard V S_init_extensions_items K_AttributeError (ret ([], false))
             end
    end.

  (* base.py _Observable._check_ref, after the slot was cleaned; vr = the raw _valid_refs *)
  Definition check_ref (vr : jvalue) : M unit :=
    match vr with
    | JNull | JBool _ | JInt _ | JFloat _ => fail K_TypeError           (* '*' in 5 *)
    | JArr [] | JStr [] | JObj [] => may [K_InvalidObjRefError]          (* no check happens for an empty _refs list *)
    | JArr l => if existsb (fun e => str_is e (us "*")) l then ret tt else may [K_InvalidObjRefError; K_ValueError]
    | JStr s => if ustr_contains (us "*") s then ret tt else may [K_InvalidObjRefError; K_ValueError]
    | JObj m => if mem_key (us "*") m then ret tt else may [K_InvalidObjRefError; K_ValueError]
    end.

  (* _check_property for one defined slot; returns whether the slot is set afterwards *)
  Definition check_slot (ac io : bool) (kind : bkind) (vr : jvalue) (s : slot) (val : option jvalue) : M bool :=
    match val with
    | Some v =>
        clean ac io s (Some v) ;;;
        match kind, s_ref s with
        | BObs20, RefOne | BObs20, RefMany | BObs21, RefOne | BObs21, RefMany => check_ref vr ;;; ret true
        | _, _ => ret true
        end
    | None =>
        if s_default s then
          (* the default value goes through clean() as well *)
          clean ac io s None ;;;
          match kind, s_ref s with
          | BObs20, RefOne | BObs20, RefMany | BObs21, RefOne | BObs21, RefMany => check_ref vr ;;; ret true
          | _, _ => ret true
          end
        else ret false
    end.

  (* the property loop: names in order; `present` accumulates the keys of setting_kwargs *)
  Fixpoint prop_loop (ac io : bool) (kind : bkind) (vr : jvalue) (defined : list slot) (assigned : ustring -> option jvalue)
           (order : list ustring) (present : list ustring) : M (list ustring) :=
    match order with
    | [] => ret present
    | n :: rest =>
        let val := match assigned n with Some v => if kept v then Some v else None | None => None end in
        match find_slot n defined with
        | Some s =>
            b <- check_slot ac io kind vr s val ;;
            prop_loop ac io kind vr defined assigned rest (if b then (present ++ [n])%list else present)
        | None =>
            prop_loop ac io kind vr defined assigned rest (match val with Some _ => (present ++ [n])%list | None => present end)
        end
    end.

  (* ---- _check_object_constraints ---- *)

  Definition default_checked (c : cls) : list ustring :=
    let exc := ([us "extensions"; us "type"] ++
               match c_kind c with BObs20 | BObs21 => [us "id"; us "defanged"; us "spec_version"] | _ => [] end)%list in
    filter (fun n => negb (mem_name n exc)) (map s_name (c_slots c)).

  Definition count_present (names present : list ustring) : nat :=
    List.length (filter (fun n => mem_name n present) (dedup_names names)).

  (* base.py _check_object_constraints: for m in self.get('granular_markings', []): validate(self, m.get('selectors')) *)
  Definition cons_base (c : cls) (present : list ustring) (raw : ustring -> option jvalue) : M unit :=
    if negb (mem_name (us "granular_markings") present) then ret tt
    else match find_slot (us "granular_markings") (c_slots c) with
         | Some _ => may [K_InvalidSelectorError]            (* cleaned GranularMarking objects *)
         | None =>
             (* an uncleaned custom (or toplevel-extension) property of that name *)
             match raw (us "granular_markings") with
             | Some (JArr l) =>
                 if forallb is_obj l then may [K_InvalidSelectorError; K_TypeError]
                 else guard V S_cons_custom_gm K_AttributeError (fail K_InvalidValueError)
             | Some (JObj m) =>       (* iterates the keys: strings *)
                 match m with [] => ret tt | _ => guard V S_cons_custom_gm K_AttributeError (fail K_InvalidValueError) end
             | Some (JStr s) =>
                 match s with [] => ret tt | _ => guard V S_cons_custom_gm K_AttributeError (fail K_InvalidValueError) end
             | Some _ => if V S_cons_custom_gm then fail K_InvalidValueError else fail K_TypeError     (* not iterable *)
             | None => ret tt
             end
         end.

  Definition cons_one (c : cls) (present : list ustring) (raw : ustring -> option jvalue) (h : conshook) : M unit :=
    match h with
    | ConsBase => cons_base c present raw
    | ConsAtLeastOne names =>
        match names with
        | [] => ret tt
        | _ => if Nat.eqb (count_present names present) 0 then fail K_AtLeastOnePropertyError else ret tt
        end
    | ConsAtLeastOneDefault =>
        match default_checked c with
        | [] => ret tt
        | names => if Nat.eqb (count_present names present) 0 then fail K_AtLeastOnePropertyError else ret tt
        end
    | ConsMutex names alo =>
        let n := count_present names present in
        if Nat.ltb 1 n || (alo && Nat.eqb n 0) then fail K_MutuallyExclusivePropertiesError else ret tt
    | ConsMay ks => may ks
    | ConsTLP20 =>
        match raw (us "definition_type") with
        | Some t => if str_is t (us "tlp") then may [K_TLPMarkingDefinitionError] else ret tt
        | None => ret tt
        end
    | ConsMarkingDef21 =>
        let has_def := mem_name (us "definition") present in
        let dt := if mem_name (us "definition_type") present then raw (us "definition_type") else None in
        let is_tlp := match dt with Some t => str_is t (us "tlp") | None => false end in
        when (negb (otruthy dt && has_def)) (may [K_PropertyPresenceError]) ;;;
        if is_tlp then
          (if has_def then may [K_TLPMarkingDefinitionError]
           else guard V S_tlp_definition K_KeyError (fail K_TLPMarkingDefinitionError))
        else ret tt
    | ConsIndicator20 =>
        match raw (us "pattern") with
        | Some (JStr []) => guard V S_validator_crash20 K_UnboundLocalError (fail K_InvalidValueError)
        | _ => may [K_InvalidValueError]
        end
    | ConsIndicator21 =>
        match raw (us "pattern_type") with
        | Some t =>
            if str_is t (us "stix") then
              match raw (us "pattern") with
              | Some (JStr []) => guard V S_validator_crash21 K_UnboundLocalError (fail K_InvalidValueError)
              | _ => may [K_InvalidValueError]
              end
            else ret tt
        | None => ret tt
        end
    | ConsUnknown => (map (fun k => Exc (Known k) S_lib) all_kexn ++ [Val tt])%list
    end.

  Fixpoint cons_chain (c : cls) (present : list ustring) (raw : ustring -> option jvalue) (hs : list conshook) : M unit :=
    match hs with
    | [] => ret tt
    | h :: r => cons_one c present raw h ;;; cons_chain c present raw r
    end.

  (* _STIXBase.__init__(allow_custom, **kw) for class c; vr = the _valid_refs popped by _Observable.__init__ *)
  Definition base_init (c : cls) (ac io : bool) (kw : list (ustring * jvalue)) (vr : jvalue) : M unit :=
    let cp := jlookup (us "custom_properties") kw in
    let kw1 := remove_key (us "custom_properties") kw in
    cpm <- match cp with
           | None => ret (Some [])
           | Some (JObj m) => ret (Some m)
           | Some v => if truthy v then fail K_ValueError
                       else if V S_init_custom_props_keys then fail K_ValueError
                       else ret None        (* falsy non-dict: custom_props.keys() fails below *)
           end ;;
    scan <- ext_scan (existsb (fun s => ustr_eqb (s_name s) (us "extensions")) (c_slots c)) (jlookup (us "extensions") kw1) ;;
    let tl := fst scan in
    let unreg := snd scan in
    let propnames := map s_name (c_slots c) in
    let tlnames := map s_name tl in
    let extra := filter (fun k => negb (mem_name k propnames)) (keys kw1) in
    let custom_kwargs := if unreg then [] else filter (fun k => negb (mem_name k tlnames)) extra in
    if match custom_kwargs with [] => false | _ => negb ac end then fail K_ExtraPropertiesError
    else
      match cpm with
      | None => guard V S_init_custom_props_keys K_AttributeError (fail K_ValueError)   (* None only arises when unguarded *)
      | Some cpm' =>
          let ac' := ac || otruthy cp in
          let all_custom := dedup_names (filter (fun k => negb (mem_name k propnames)) (custom_kwargs ++ keys cpm')%list) in
          if negb (c_ver20 c) && existsb (fun n => negb (prefix21 n)) all_custom then fail K_InvalidValueError
          else
            let defined := (c_slots c ++ tl)%list in
            let assigned := fun k => match jlookup k kw1 with Some v => Some v | None => jlookup k cpm' end in
            let tl_order := dedup_names (tlnames ++ filter (fun k => negb (mem_name k custom_kwargs)) extra)%list in
            let order := (propnames ++ filter (fun k => negb (mem_name k propnames)) tl_order ++ sort_names all_custom)%list in
            present <- prop_loop ac' io (c_kind c) vr defined assigned order [] ;;
            if existsb (fun s => s_required s && negb (mem_name (s_name s) present)) defined
            then fail K_MissingPropertiesError
            else
              cons_chain c present assigned (c_cons c) ;;;
              when (negb ac') (may [K_STIXError])      (* "a clean() method did not properly enforce allow_custom=False" *)
      end.

  (* ---- __init__ overrides ---- *)

  (* the call cls(allow_custom=.., interoperability=.., and the dict as keywords) itself *)
  Definition call_check (kw : list (ustring * jvalue)) (nonstr : bool) : M unit :=
    if nonstr then fail K_TypeError                                       (* keywords must be strings *)
    else if mem_key (us "allow_custom") kw || mem_key (us "interoperability") kw || mem_key (us "self") kw
    then fail K_TypeError                                                 (* got multiple values for argument *)
    else ret tt.

  Definition apply_aliases (names : list ustring) (kw : list (ustring * jvalue)) : list (ustring * jvalue) :=
    fold_left (fun acc n => match jlookup n acc with
                            | Some v => if truthy v then acc else remove_key n acc
                            | None => acc end) names kw.

  (* a class without a MarkingDefinition-style __init__ (used for the marking types themselves) *)
  Definition construct0 (c : cls) (ac io : bool) (kw : list (ustring * jvalue)) : M unit :=
    let kw' := fold_left (fun acc p => match p with PreAliases ns => apply_aliases ns acc | _ => acc end) (c_pre c) kw in
    if negb (forallb pre_known (c_pre c)) then (map (fun k => Exc (Known k) S_lib) all_kexn ++ [Val tt])%list
    else
      let vr := match c_kind c with
                | BObs20 | BObs21 => match jlookup (us "_valid_refs") kw' with Some v => v | None => JArr [] end
                | _ => JArr [] end in
      let kw'' := match c_kind c with BObs20 | BObs21 => remove_key (us "_valid_refs") kw' | _ => kw' end in
      base_init c ac io kw'' vr ;;;
      match c_kind c with
      | BObs21 =>
          (* `kwargs.get('id') is None` from fix 6e9bcfe on (`'id' not in kwargs` before): a null id is treated as
             "may be regenerated", which covers both readings *)
          if match jlookup (us "id") kw' with Some JNull | None => false | Some _ => true end then ret tt
          else
            may [K_InvalidValueError; K_ValueError] ;;;    (* _generate_id: no hashes / a null inside a value *)
            (* ... and canonicalize() of the id-contributing values: float() of a huge integer *)
            if existsb (fun kv => has_huge_int (snd kv)) kw'
            then may_guard V S_genid_number_range K_OverflowError K_ValueError
            else ret tt
      | _ => ret tt
      end ;;;
      (* class_for_type(ext, version, "extensions")() : None() is a TypeError, else a construction without arguments *)
      if negb (c_ver20 c) && existsb (fun p => match p with PreCustom true => true | _ => false end) (c_pre c)
      then may [K_TypeError; K_InvalidValueError; K_MissingPropertiesError; K_AtLeastOnePropertyError; K_ValueError]
           (* (ValueError: the custom observable builder calls _generate_id once more after adding the extension) *)
      else ret tt.

  (* MarkingDefinition.__init__ (2.0 and 2.1): builds the marking-type object from raw input *)
  Definition marking_pre (dec : decoder) (v20 : bool) (kw : list (ustring * jvalue)) : M unit :=
    match jlookup (us "definition_type") kw, jlookup (us "definition") kw with
    | Some dt, Some defn =>
        if negb (hashable dt) then fail K_TypeError
        else
          match match dt with JStr s => alookup s (if v20 then r_markings20 R else r_markings21 R) | _ => None end with
          | None => fail K_ValueError                          (* except KeyError: raise ValueError *)
          | Some mc =>
              (if v20 then
                 match jlookup (us "created") kw with
                 | Some cr =>
                     (* _should_set_millisecond(cr, marking_type) *)
                     if str_is dt (us "tlp") then ret tt
                     else if is_str cr then ret tt
                     else guard V S_ms20_precision K_AttributeError (ret tt)
                 | None => ret tt
                 end
               else ret tt) ;;;
              d <- get_dict V dec defn ;;
              match fst d with
              | JObj dm => call_check dm (snd d) ;;; construct0 mc false false dm
              | _ => fail K_TypeError                            (* marking_type applied to a non-mapping *)
              end
          end
    | _, _ => ret tt
    end.

  Definition construct (dec : decoder) (c : cls) (ac io : bool) (kw : list (ustring * jvalue)) : M unit :=
    match c_pre c with
    | PreMarkingDef20 :: rest => marking_pre dec true kw ;;; construct0 {| c_key := c_key c; c_ver20 := c_ver20 c; c_kind := c_kind c; c_slots := c_slots c; c_pre := rest; c_cons := c_cons c |} ac io kw
    | PreMarkingDef21 :: rest => marking_pre dec false kw ;;; construct0 {| c_key := c_key c; c_ver20 := c_ver20 c; c_kind := c_kind c; c_slots := c_slots c; c_pre := rest; c_cons := c_cons c |} ac io kw
    | _ => construct0 c ac io kw
    end.

  (* ------------------------------------------------------------------ *)
  (* 10. parsing.py                                                        *)

  (* the scan of `extensions` in dict_to_stix2 for an unregistered type: true = return the dict as is *)
  Fixpoint d2s_scan (m : list (ustring * jvalue)) : M bool :=
    match m with
    | [] => ret false
    | (k, e) :: r =>
        if ustr_prefix (us "extension-definition--") k then
          match e with
          | JObj em =>
              match jlookup (us "extension_type") em with
              | None => ret true                                 (* '' does not contain it *)
              | Some t =>
                  b <- py_in (us "property-extension") t ;;
                  if b then d2s_scan r else ret true
              end
          | _ => guard V S_d2s_extension_entry K_AttributeError (d2s_scan r)
          end
        else d2s_scan r
    end.

  Inductive parsed := PObject | PDictAsIs.

  Definition version_of (version : option ustring) (d : jvalue) : M jvalue :=
    match version with
    | Some (c :: s) => ret (JStr (c :: s))
    | _ => detect V (r_observables21 R) d
    end.

  (* d["type"] after `'type' in d` held *)
  Definition type_of (d : jvalue) : M jvalue :=
    match d with
    | JObj m => match jlookup (us "type") m with Some t => ret t | None => fail K_ParseError end
    | _ => fail K_TypeError
    end.

  (* parsing.py _refuse_unrequested_custom(obj, allow_custom): `not allow_custom and obj.has_custom`.
     With allow_custom=False the constructor only records customisation when a truthy custom_properties
     dict switched it on; has_custom is then certainly true when that dict names a property the class does
     not define, and otherwise whatever the (black box) cleaners reported. *)
  Definition refuse_custom (c : cls) (ac : bool) (kw : list (ustring * jvalue)) : M unit :=
    if refuse && negb ac then
      match jlookup (us "custom_properties") kw with
      | Some (JObj (e :: r)) =>
          (* certain when a property the class does not define is actually stored (not None / []); before fix
             f3b82b9 merely naming one sufficed -- `may` covers both readings *)
          if existsb (fun kv => negb (mem_name (fst kv) (map s_name (c_slots c))) && kept (snd kv)) (e :: r)
          then fail K_CustomContentError else may [K_CustomContentError]
      | _ => ret tt
      end
    else ret tt.

  Definition dict_to_stix2 (dec : decoder) (d : jvalue) (nonstr : bool) (ac io : bool) (version : option ustring) : M parsed :=
    has <- py_in (us "type") d ;;
    if negb has then fail K_ParseError
    else
      ver <- version_of version d ;;
      ty <- type_of d ;;
      c1 <- class_for_type R ty ver CatObjects ;;
      c2 <- match c1 with Some c => ret (Some c) | None => class_for_type R ty ver CatObservables end ;;
      match c2, d with
      | Some c, JObj m => call_check m nonstr ;;; construct dec c ac io m ;;; refuse_custom c ac m ;;; ret PObject
      | Some _, _ => fail K_TypeError
      | None, JObj m =>
          if ac then ret PDictAsIs
          else match jlookup (us "extensions") m with
               | None => fail K_ParseError
               | Some (JObj em) => b <- d2s_scan em ;; if b then ret PDictAsIs else fail K_ParseError
               | Some _ => guard V S_d2s_extensions_items K_AttributeError (fail K_ParseError)
               end
      | None, _ => fail K_TypeError
      end.

  Definition parse (dec : decoder) (x : jvalue) (ac io : bool) (version : option ustring) : M parsed :=
    d <- get_dict V dec x ;;
    dict_to_stix2 dec (fst d) (snd d) ac io version.

  (* parse(file-like object): json.loads(data) is a TypeError, json.load(data) decodes the text read from it *)
  Definition parse_file (dec : decoder) (tr : textres) (ac io : bool) (version : option ustring) : M parsed :=
    d <- decode_text V tr ;;
    dict_to_stix2 dec (fst d) (snd d) ac io version.

  Definition parse_observable (dec : decoder) (x : jvalue) (valid_refs : jvalue) (ac io : bool) (version : option ustring) : M parsed :=
    d <- get_dict V dec x ;;
    has <- py_in (us "type") (fst d) ;;
    if negb has then fail K_ParseError
    else
      match fst d with
      | JObj m0 =>
          let m := set_key (us "_valid_refs") (if truthy valid_refs then valid_refs else JArr []) m0 in
          ver <- version_of version (JObj m) ;;
          ty <- type_of (JObj m) ;;
          c <- class_for_type R ty ver CatObservables ;;
          match c with
          | Some c => call_check m (snd d) ;;; construct dec c ac io m ;;; refuse_custom c ac m ;;; ret PObject
          | None => if ac then ret PDictAsIs else fail K_ParseError
          end
      | _ => fail K_TypeError        (* obj['_valid_refs'] = ... on a str / list *)
      end.
End Init.

(* ------------------------------------------------------------------ *)
(* 11. datastore/memory.py _add: the store as explicit state              *)

(* The store is the list of inputs whose construction succeeded, in order.
   `store_add` returns, for every resolution of the construction, the new
   store and whether an exception escaped. *)
Inductive added := Added | Escaped (e : exn) (s : site).

Section Store.
  Variable V : variant.
  Variable R : registry.
  Variable clean : cleaner.
  Variable strictext : bool.
  Variable refuse : bool.
  Variable dec : decoder.

  Definition store := list jvalue.

  (* one non-bundle, non-list input *)
  Definition store_add_one (st : store) (x : jvalue) (version : option ustring) : list (store * added) :=
    map (fun r => match r with
                  | Val _ => ((st ++ [x])%list, Added)
                  | Exc e s => (st, Escaped e s)
                  end) (parse V R clean strictext refuse dec x true false version).

  (* a list of such inputs, left to right; the first escaping exception stops the loop *)
  Fixpoint store_add_list (st : store) (xs : list jvalue) (version : option ustring) : list (store * added) :=
    match xs with
    | [] => [(st, Added)]
    | x :: r =>
        flat_map (fun sa => match snd sa with
                            | Added => store_add_list (fst sa) r version
                            | Escaped e s => [sa]
                            end) (store_add_one st x version)
    end.
End Store.

(* ------------------------------------------------------------------ *)
(* 12. the structural cleaner: embedded objects are constructed with this same model                            *)

Fixpoint class_named (k : string) (l : list (string * cls)) : option cls :=
  match l with [] => None | (k', c) :: r => if String.eqb k k' then Some c else class_named k r end.

Definition is_val {A} (r : res A) : bool := match r with Val _ => true | Exc _ _ => false end.

(* what clean() of an embedded-object slot lets out of the wrapper: Ok if the construction can succeed,
   InvalidValueError if it can fail (or `extra`: CustomContentError for custom content in strict mode) *)
Definition ive : res unit := Exc (Known K_InvalidValueError) S_lib.

(* `okp a`: a returned value with which clean() goes on to succeed *)
Definition wrap_gen {A} (okp : A -> bool) (extra : bool) (m : M A) : M unit :=
  ((if existsb (fun r => match r with Val a => okp a | Exc _ _ => false end) m then [Val tt] else []) ++
   (if extra || existsb (fun r => match r with Val a => negb (okp a) | Exc _ _ => true end) m then [ive] else []))%list.

Definition wrap_embedded (extra : bool) (m : M unit) : M unit := wrap_gen (fun _ => true) extra m.

Definition seq_all (ms : list (M unit)) : M unit := fold_right (fun m acc => m ;;; acc) (ret tt) ms.

(* ListProperty(class).clean *)
Definition struct_list (subf : list (ustring * jvalue) -> M unit) (v : jvalue) : M unit :=
  match v with
  | JArr [] => fail K_InvalidValueError                 (* "must not be empty" *)
  | JArr l => seq_all (map (fun item => match item with
                                        | JObj m => subf m
                                        | _ => fail K_InvalidValueError     (* "Can't create a ... out of ..." *)
                                        end) l)
  | _ => fail K_InvalidValueError     (* not iterable / a str or the keys of a dict are not mappings / empty *)
  end.

(* _get_dict on a value that is not a text: a dict as is, a list of pairs through dict(); None = ValueError.
   The flag tells whether some key is not a string. *)
Definition as_dict (v : jvalue) : option (list (ustring * jvalue) * bool) :=
  match v with
  | JObj m => Some (m, false)
  | JArr l => dict_of_pairs l [] false
  | _ => None
  end.

(* DictionaryProperty.clean: key length and alphabet per spec version, not empty; values are not looked at *)
Definition dict_key_ok (v20 : bool) (k : ustring) : bool :=
  let n := List.length k in
  (if v20 then Nat.leb 3 n && Nat.leb n 256 else Nat.leb n 250) &&
  negb (Nat.eqb n 0) &&
  forallb (fun c => ((48 <=? c) && (c <=? 57)) || ((65 <=? c) && (c <=? 90)) || ((97 <=? c) && (c <=? 122)) ||
                    (c =? 95) || (c =? 45))%N k.

Definition struct_dict (v20 : bool) (v : jvalue) : M unit :=
  match v with
  | JStr _ => may [K_InvalidValueError]                    (* a JSON text: not followed *)
  | _ =>
      match as_dict v with
      | None => fail K_InvalidValueError
      | Some (_, true) => fail K_InvalidValueError           (* len() / re.match on a key that is not a string *)
      | Some ([], _) => fail K_InvalidValueError             (* "must not be empty" *)
      | Some (m, false) => if forallb (fun kv => dict_key_ok v20 (fst kv)) m then ret tt else fail K_InvalidValueError
      end
  end.

(* ExtensionsProperty.clean *)
Definition struct_extensions (exts : list extreg) (subf : cls -> list (ustring * jvalue) -> M unit) (ac : bool) (v : jvalue) : M unit :=
  match v with
  | JStr _ => may [K_InvalidValueError]       (* _get_dict on a JSON text: not followed *)
  | _ =>
  match as_dict v with
  | None => fail K_InvalidValueError
  | Some (_, true) => may [K_InvalidValueError]    (* a key that is not a string *)
  | Some (m, false) =>
      seq_all (map (fun kv =>
                 match find (fun x => ustr_eqb (x_name x) (fst kv)) exts with
                 | Some x =>
                     match x_cls x with
                     | Some c => match snd kv with
                                 | JObj em => subf c em
                                 | _ => fail K_InvalidValueError          (* "Can't create extension ... from ..." *)
                                 end
                     | None => may [K_InvalidValueError]
                     end
                 | None =>
                     if ustr_prefix (us "extension-definition--") (fst kv) then may [K_InvalidValueError]   (* _validate_id(key) *)
                     else if ac then ret tt
                     else fail K_InvalidValueError                         (* "Can't parse unknown extension type" *)
                 end) m)
  end
  end.

Definition parsed_ok (ac : bool) (p : parsed) : bool :=
  match p with PObject => true | PDictAsIs => ac end.     (* a dict returned as is counts as custom content *)

(* ListProperty(STIXObjectProperty(spec_version)).clean *)
Definition struct_objects (ver20 ac : bool) (parsef : jvalue -> M parsed) (v : jvalue) : M unit :=
  let item := fun (x : jvalue) =>
    match x with
    | JObj [] => fail K_InvalidValueError
    | JObj m =>
        if match jlookup (us "type") m with Some t => str_is t (us "bundle") | None => false end then fail K_InvalidValueError
        else if ver20 && mem_key (us "spec_version") m then fail K_InvalidValueError
        else wrap_gen (parsed_ok ac) (ver20 || mem_key (us "custom_properties") m) (parsef x)
    | JStr _ | JArr _ => may [K_InvalidValueError]
    | _ => fail K_InvalidValueError
    end in
  match v with
  | JArr [] => fail K_InvalidValueError
  | JArr l => seq_all (map item l)
  | JStr _ => may [K_InvalidValueError]
  | JObj [] => fail K_InvalidValueError
  | JObj _ => may [K_InvalidValueError]               (* the keys, each taken for a JSON text *)
  | _ => fail K_InvalidValueError
  end.

(* ObservableProperty(spec_version).clean *)
Definition struct_observables (ac : bool) (pof : jvalue -> jvalue -> M parsed) (v : jvalue) : M unit :=
  match v with
  | JStr _ => may [K_InvalidValueError]
  | _ =>
  match as_dict v with
  | None => fail K_InvalidValueError
  | Some (_, true) => may [K_InvalidValueError]
  | Some ([], _) => fail K_InvalidValueError
  | Some (m, false) =>
      (* valid_refs = {k: v['type'] ...}: every member must be a dict with a type *)
      if forallb (fun kv => match snd kv with JObj om => mem_key (us "type") om | _ => false end) m then
        let vrefs := JObj (map (fun kv => (fst kv, match snd kv with
                                                    | JObj om => match jlookup (us "type") om with Some t => t | None => JNull end
                                                    | _ => JNull end)) m) in
        seq_all (map (fun kv => wrap_gen (parsed_ok ac)
                                  (match snd kv with JObj om => mem_key (us "custom_properties") om | _ => false end)
                                  (pof (snd kv) vrefs)) m)
      else fail K_InvalidValueError
  end
  end.

Fixpoint clean_struct (fuel : nat) (V : variant) (R : registry) (strictext refuse : bool) (classes : list (string * cls)) : cleaner :=
  fun ac io s ov =>
    match fuel with
    | O => may [K_InvalidValueError]
    | S f =>
        let self := clean_struct f V R strictext refuse classes in
        let nodec : decoder := fun _ => TBad in
        let sub := fun (c : cls) (io' : bool) (m : list (ustring * jvalue)) =>
                     wrap_embedded (mem_key (us "custom_properties") m)
                       (call_check m false ;;; construct V R self strictext nodec c ac io' m) in
        match ov with
        | None => may [K_InvalidValueError]
        | Some v =>
            match s_kind s with
            | KLeaf => may [K_InvalidValueError]
            | KEmbedded k =>
                match class_named k classes with
                | None => may [K_InvalidValueError]
                | Some c =>
                    match v with
                    (* self.type(allow_custom=allow_custom, and the dict as keywords): `interoperability` is not passed
                       explicitly, so a member of that name is taken as the parameter *)
                    | JObj m => sub c false (remove_key (us "interoperability") m)
                    | _ => fail K_InvalidValueError                        (* "must be of type ..." *)
                    end
                end
            | KListEmbedded k =>
                match class_named k classes with
                | None => may [K_InvalidValueError]
                | Some c => struct_list (sub c io) v
                end
            | KExtensions v20 =>
                struct_extensions (if v20 then r_extensions20 R else r_extensions21 R) (fun c m => sub c io m) ac v
            | KStixObjects v20 =>
                struct_objects v20 ac (fun x => parse V R self strictext refuse nodec x ac io None) v
            | KDict v20 => struct_dict v20 v
            | KObservables v20 =>
                struct_observables ac
                  (fun x vr => parse_observable V R self strictext refuse nodec x vr ac false
                                 (Some (us (if v20 then "2.0" else "2.1")))) v
            end
        end
    end.

(* ------------------------------------------------------------------ *)
(* 13. rendering (case files)                                             *)

Fixpoint show_exn (e : exn) : string :=
  match e with Known k => kname k | Derived _ b => "Derived:" ++ show_exn b end.

Definition show_res {A} (r : res A) : string :=
  match r with
  | Val _ => "Ok"
  | Exc e s => show_exn e ++ "@" ++ site_tag s
  end.

Definition show_M {A} (m : M A) : string :=
  fold_right (fun r acc => show_res r ++ ";" ++ acc) "" m.

Definition show_store_outcomes (l : list (store * added)) : string :=
  fold_right (fun sa acc =>
    (match snd sa with Added => "Added" | Escaped e s => show_exn e ++ "@" ++ site_tag s end)
    ++ "/" ++ show_nat (List.length (fst sa)) ++ ";" ++ acc) "" l.

(* a decoder given by a finite table (case files): texts not listed do not decode *)
Definition dec_table (t : list (ustring * textres)) : decoder :=
  fun s => match alookup s t with Some r => r | None => TBad end.
